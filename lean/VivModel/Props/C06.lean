import VivModel.Model.Lifecycle
import VivModel.Model.Context
/-! C06 — the lifecycle only ever advances in the legal order.

General part: for EVERY lifecycle definition and EVERY request sequence (induction).
Engine part: over the tables regenerated from `engine.py` / `lifecycle.py` (`decide` on the
complete finite tables). -/
namespace Viv.Props.C06
open Viv.LC Viv.Ctx

/-- `set_state` succeeds exactly when the target exists and is a legal successor, and then the new
state is the target. -/
theorem setState_ok_iff (lc : LifeCycle) (cur tgt s : String) :
    setState lc cur tgt = .ok s ↔ (s = tgt ∧ (allStates lc).contains tgt ∧ validNext lc cur tgt) := by
  unfold setState
  split
  · rename_i h; simp_all
  · split
    · rename_i h1 h2
      constructor
      · intro h; cases h; exact ⟨rfl, by simpa using h1, h2⟩
      · rintro ⟨rfl, _, _⟩; rfl
    · rename_i h1 h2; simp_all

/-- a refused request (unknown or illegal target) leaves the current state unchanged: the rest of the
history is processed from the same state. -/
theorem setState_err_unchanged (lc : LifeCycle) (cur r : String) (rs : List String) (e : Err)
    (h : setState lc cur r = .error e) :
    runReqs lc cur (r :: rs) = ((runReqs lc cur rs).1, false :: (runReqs lc cur rs).2) := by
  simp [runReqs, h]

/-- for every lifecycle and every request list: all requests accepted ⇔ the list is a path of the
declared order. -/
theorem accepts_iff_legal (lc : LifeCycle) (cur : String) (rs : List String) :
    (runReqs lc cur rs).2.all id = true ↔ Legal lc cur rs := by
  induction rs generalizing cur with
  | nil => simp [runReqs]; exact Legal.nil cur
  | cons r rs ih =>
    unfold runReqs
    cases h : setState lc cur r with
    | ok s =>
      have := (setState_ok_iff lc cur r s).mp h
      obtain ⟨rfl, hc, hv⟩ := this
      simp only [List.all_cons, id, Bool.true_and]
      rw [ih]
      constructor
      · intro hl; exact Legal.cons hv hc hl
      · intro hl; cases hl with | cons _ _ hl => exact hl
    | error e =>
      simp only [List.all_cons, id, Bool.false_and]
      constructor
      · intro hf; cases hf
      · intro hl
        cases hl with
        | cons hv hc _ =>
          have : setState lc cur r = .ok r := (setState_ok_iff lc cur r r).mpr ⟨rfl, hc, hv⟩
          rw [this] at h; cases h

/-- the state reached is always the last accepted request (or the start): the final state of any
history is determined by its accepted sub-sequence. -/
theorem final_state_accepted (lc : LifeCycle) (cur : String) (rs : List String) :
    (runReqs lc cur rs).1 = ((rs.zip (runReqs lc cur rs).2).filter (·.2) |>.map (·.1)).getLast?.getD cur := by
  induction rs generalizing cur with
  | nil => simp [runReqs]
  | cons r rs ih =>
    unfold runReqs
    cases h : setState lc cur r with
    | ok s =>
      obtain ⟨rfl, _, _⟩ := (setState_ok_iff lc cur r s).mp h
      simp only [List.zip_cons_cons, List.filter_cons_of_pos, List.map_cons]
      rw [ih s]
      cases hl : ((rs.zip (runReqs lc s rs).2).filter (·.2) |>.map (·.1)) with
      | nil => simp
      | cons a l =>
        obtain ⟨x, hx⟩ : ∃ x, (a :: l).getLast? = some x := ⟨_, List.getLast?_eq_some_getLast (by simp)⟩
        have : (s :: a :: l).getLast? = some x := by rw [List.getLast?_cons_cons]; exact hx
        simp [hx, this]
    | error e =>
      simp only [List.zip_cons_cons]
      rw [ih cur]
      simp

theorem all_true_replicate : ∀ l : List Bool, l.all id = true → l = List.replicate l.length true
  | [], _ => rfl
  | b :: l, h => by
    simp only [List.all_cons, id, Bool.and_eq_true] at h
    simp only [List.length_cons, List.replicate_succ]
    rw [h.1, ← all_true_replicate l h.2]

theorem runReqs_length (lc : LifeCycle) (cur : String) (rs : List String) :
    (runReqs lc cur rs).2.length = rs.length := by
  induction rs generalizing cur with
  | nil => simp [runReqs]
  | cons r rs ih =>
    unfold runReqs
    cases setState lc cur r <;> simp [ih]

/-- after a refused request the legal continuation is still accepted. -/
theorem legal_prefix_continues (lc : LifeCycle) (cur bad : String) (rs : List String) (e : Err)
    (h : setState lc cur bad = .error e) (hl : Legal lc cur rs) :
    (runReqs lc cur (bad :: rs)).2 = false :: List.replicate rs.length true := by
  rw [setState_err_unchanged lc cur bad rs e h]
  have hall := (accepts_iff_legal lc cur rs).mpr hl
  have := all_true_replicate _ hall
  rw [runReqs_length] at this
  simp [← this]

/-- `add_phase` keeps state names unique across the lifecycle (what makes `get_state` unambiguous). -/
theorem addPhase_nodup (lc lc' : LifeCycle) (p : Phase) (h : (allStates lc).Nodup)
    (ha : addPhase lc p = some lc') : (allStates lc').Nodup := by
  unfold addPhase at ha
  split at ha; · cases ha
  split at ha; · cases ha
  split at ha; · cases ha
  split at ha; · cases ha
  rename_i _ h1 h2 h3
  cases ha
  simp only [allStates, List.flatMap_append, List.flatMap_cons, List.flatMap_nil, List.append_nil]
  rw [List.nodup_append]
  refine ⟨h, by simpa using h2, ?_⟩
  intro a ha b hb hab
  subst hab
  apply h3
  simp only [List.any_eq_true]
  exact ⟨a, hb, by simpa [allStates] using ha⟩

/-! ### Engine lifecycle (regenerated tables) -/

/-- the generated lifecycle has exactly the successor table the property describes:
initialization, setup, post_setup, population_creation, (prepare, step, cleanup, metrics)+,
simulation_end, report. -/
theorem engine_order :
    states.map (fun s => (s, states.filter (validNext lifecycle s))) =
      [("initialization", ["setup"]), ("setup", ["post_setup"]), ("post_setup", ["population_creation"]),
       ("population_creation", ["time_step__prepare"]), ("time_step__prepare", ["time_step"]),
       ("time_step", ["time_step__cleanup"]), ("time_step__cleanup", ["collect_metrics"]),
       ("collect_metrics", ["time_step__prepare", "simulation_end"]),
       ("simulation_end", ["report"]), ("report", [])] := by decide

/-- the control state a context is in when it rests in lifecycle state `st` after legal calls -/
def coherent (st : String) (log : List String) : Ctl :=
  { st := st, log := log,
    setupDone := st ≠ "initialization",
    frozen := st ≠ "initialization",
    created := !(["initialization", "setup", "post_setup"].contains st) }

def methods : List String := ["setup", "initialize_simulants", "step", "finalize", "report"]

/-- every context method, called in ANY lifecycle state, either runs completely or is refused at
its first state change with no listener run and the state unchanged (10 states × 5 methods). -/
theorem context_call_atomic :
    (states.all fun st => methods.all fun m =>
      match callCtl m (coherent st ["<earlier>"]) with
      | .ok _ => true
      | .error (_, c) => c == coherent st ["<earlier>"]) = true := by decide

/-- … and the same for a context driven only by direct state requests (no `setup()` ever ran): a
method whose first state change is illegal changes nothing. -/
theorem context_call_refused_unchanged_bare :
    (states.all fun st => methods.all fun m =>
      let c0 : Ctl := { st := st }
      match (skeletonOf m).head? with
      | some (.set t) =>
        validNext lifecycle st t || (match callCtl m c0 with
          | .ok _ => false
          | .error (_, c) => c == c0)
      | _ => true) = true := by decide

/-- which method is accepted where: exactly the documented call order. -/
theorem context_call_table :
    (states.map fun st => (st, methods.filter fun m =>
      match callCtl m (coherent st []) with | .ok _ => true | .error _ => false)) =
      [("initialization", ["setup"]), ("setup", []), ("post_setup", ["initialize_simulants"]),
       ("population_creation", ["step"]), ("time_step__prepare", []), ("time_step", []),
       ("time_step__cleanup", []), ("collect_metrics", ["step", "finalize"]),
       ("simulation_end", ["report"]), ("report", [])] := by decide

/-- the legal order of calls succeeds, emitting the events in the documented order. -/
theorem legal_run :
    (do let c ← callCtl "setup" { st := "initialization" }
        let c ← callCtl "initialize_simulants" c
        let c ← callCtl "step" c
        let c ← callCtl "step" c
        let c ← callCtl "finalize" c
        callCtl "report" c) =
    .ok { st := "report", setupDone := true, created := true, frozen := true,
          log := ["setup_components", "emit:post_setup", "create",
                  "emit:time_step__prepare", "emit:time_step", "emit:time_step__cleanup", "emit:collect_metrics",
                  "emit:time_step__prepare", "emit:time_step", "emit:time_step__cleanup", "emit:collect_metrics",
                  "emit:simulation_end", "emit:report"] } := by decide

def isEventAct : Viv.Gen.Act → Bool
  | .emit _ => true | .create => true | .setupComponents => true | _ => false

def isSetAct : Viv.Gen.Act → Bool
  | .set _ => true | _ => false

/-- in every context method a state change precedes the first listener-running action (so no
listener can run before the requested transition has been validated and entered). -/
theorem set_precedes_emit :
    (Viv.Gen.skeleton.all fun (_, acts) =>
      let ex := expand acts
      !(ex.any isEventAct) || (ex.takeWhile (fun a => !isEventAct a)).any isSetAct) = true := by decide

/-- a listener that raises during one of the four step events leaves the context in that (legally entered)
state with the earlier events of the step delivered; from there every context method is refused without
any effect (`context_call_atomic`, `context_call_table`) – the run cannot silently continue. -/
theorem listener_failure_keeps_entered_state :
    (["time_step__prepare", "time_step", "time_step__cleanup", "collect_metrics"].all fun e =>
      match callCtl "step" { (coherent "collect_metrics" []) with failOn := e } with
      | .ok _ => false
      | .error (f, c) =>
        f == .other && c.st == e && c.failOn == "" &&
        c.log == (["time_step__prepare", "time_step", "time_step__cleanup", "collect_metrics"].takeWhile (· ≠ e)).map ("emit:" ++ ·) &&
        (e == "collect_metrics" || methods.all fun m =>
          match callCtl m c with | .ok _ => false | .error (_, c') => c' == c)) = true := by decide

-- non-vacuity: the hypotheses of the general theorems are inhabited by the engine lifecycle
example : Legal lifecycle "initialization" ["setup", "post_setup", "population_creation", "time_step__prepare"] := by
  refine .cons (by decide) (by decide) (.cons (by decide) (by decide) (.cons (by decide) (by decide)
    (.cons (by decide) (by decide) (.nil _))))
example : setState lifecycle "setup" "report" = .error .transition := by decide
example : setState lifecycle "setup" "nowhere" = .error .unknown := by decide
example : (runReqs lifecycle "initialization" ["setup", "report", "post_setup"]) = ("post_setup", [true, false, true]) := by decide

/-! ## LESSONS audit: late phases, every entry point, requests from inside a listener -/

/-! ### phases added after the lifecycle has started to move -/

theorem nextOf_cons (a : String) (l : List String) (s : String) :
    nextOf (a :: l) s = if a = s then l.head? else nextOf l s := by
  cases l with
  | nil => simp [nextOf]
  | cons b r => simp [nextOf]

theorem nextOf_append_some (A B : List String) (s x : String) (h : nextOf A s = some x) :
    nextOf (A ++ B) s = some x := by
  induction A with
  | nil => simp [nextOf] at h
  | cons a l ih =>
    rw [nextOf_cons] at h
    rw [List.cons_append, nextOf_cons]
    by_cases e : a = s
    · simp only [e, if_true] at h ⊢
      cases l with
      | nil => simp at h
      | cons b r => simpa using h
    · simp only [e, if_false] at h ⊢; exact ih h

theorem nextOf_append_none (A B : List String) (s : String) (hm : s ∈ A) (h : nextOf A s = none) :
    nextOf (A ++ B) s = B.head? := by
  induction A with
  | nil => cases hm
  | cons a l ih =>
    rw [nextOf_cons] at h
    rw [List.cons_append, nextOf_cons]
    by_cases e : a = s
    · simp only [e, if_true] at h ⊢
      cases l with
      | nil => rfl
      | cons b r => simp at h
    · simp only [e, if_false] at h ⊢
      have : s ∈ l := by
        cases hm with
        | head => exact absurd rfl e
        | tail _ h' => exact h'
      exact ih this h

theorem addPhase_eq (lc lc' : LifeCycle) (p : Phase) (ha : addPhase lc p = some lc') :
    lc' = lc ++ [p] ∧ ∀ s ∈ p.states, s ∉ allStates lc := by
  unfold addPhase at ha
  split at ha; · cases ha
  split at ha; · cases ha
  split at ha; · cases ha
  split at ha; · cases ha
  rename_i _ _ _ h3
  cases ha
  refine ⟨rfl, ?_⟩
  intro s hs hin
  apply h3
  simp only [List.any_eq_true]
  exact ⟨s, hs, by simpa using hin⟩

/-- a phase added LATER (at any moment, e.g. while the lifecycle rests in its last state) neither
legalises nor forbids any transition between states that already existed. -/
theorem addPhase_old_transitions (lc lc' : LifeCycle) (p : Phase) (ha : addPhase lc p = some lc')
    (cur tgt : String) (hc : cur ∈ allStates lc) (ht : tgt ∈ allStates lc) :
    validNext lc' cur tgt = validNext lc cur tgt := by
  obtain ⟨rfl, hdis⟩ := addPhase_eq lc lc' p ha
  have hall : allStates (lc ++ [p]) = allStates lc ++ p.states := by
    simp [allStates, List.flatMap_append]
  have hnext : (nextOf (allStates (lc ++ [p])) cur == some tgt) = (nextOf (allStates lc) cur == some tgt) := by
    rw [hall]
    cases h : nextOf (allStates lc) cur with
    | some x => rw [nextOf_append_some _ _ _ _ h]
    | none =>
      rw [nextOf_append_none _ _ _ hc h]
      have : (p.states.head? == some tgt) = false := by
        cases hp : p.states with
        | nil => simp
        | cons a r =>
          have hne : a ≠ tgt := by
            intro e; subst e
            exact hdis a (by rw [hp]; exact List.mem_cons_self) ht
          simp [hne]
      rw [this]; simp
  have hloop : loopNextOf (lc ++ [p]) cur = loopNextOf lc cur := by
    unfold loopNextOf
    rw [List.find?_append]
    cases h : lc.find? (fun q => q.loop && q.states.getLast? == some cur) with
    | some q => simp
    | none =>
      have : (p.loop && p.states.getLast? == some cur) = false := by
        cases hl : p.states.getLast? with
        | none => simp
        | some z =>
          have hz : z ∈ p.states := List.mem_of_getLast? hl
          have hne : z ≠ cur := by
            intro e; subst e; exact hdis z hz hc
          simp [hne]
      simp [List.find?, this]
  unfold validNext
  rw [hnext, hloop]

/-- … and the only way out of the old states into the new phase is from a state without a linear
successor (the last one) to the new phase's first state. -/
theorem addPhase_entry (lc lc' : LifeCycle) (p : Phase) (ha : addPhase lc p = some lc')
    (cur tgt : String) (hc : cur ∈ allStates lc) (ht : tgt ∈ p.states)
    (hv : validNext lc' cur tgt = true) :
    nextOf (allStates lc) cur = none ∧ p.states.head? = some tgt := by
  obtain ⟨rfl, hdis⟩ := addPhase_eq lc lc' p ha
  have hall : allStates (lc ++ [p]) = allStates lc ++ p.states := by
    simp [allStates, List.flatMap_append]
  have hnotold : tgt ∉ allStates lc := hdis tgt ht
  unfold validNext at hv
  rw [hall] at hv
  have hloop : (loopNextOf (lc ++ [p]) cur == some tgt) = false := by
    unfold loopNextOf
    rw [List.find?_append]
    cases h : lc.find? (fun q => q.loop && q.states.getLast? == some cur) with
    | some q =>
      have hq := List.mem_of_find?_eq_some h
      simp only [Option.some_or]
      cases hh : q.states.head? with
      | none => simp
      | some z =>
        have hz : z ∈ allStates lc := by
          simp only [allStates, List.mem_flatMap]
          exact ⟨q, hq, List.mem_of_head? hh⟩
        have : z ≠ tgt := by intro e; subst e; exact hnotold hz
        simp [this]
    | none =>
      have : (p.loop && p.states.getLast? == some cur) = false := by
        cases hl : p.states.getLast? with
        | none => simp
        | some z =>
          have hz : z ∈ p.states := List.mem_of_getLast? hl
          have hne : z ≠ cur := by
            intro e; subst e; exact hdis z hz hc
          simp [hne]
      simp [List.find?, this]
  rw [hloop, Bool.or_false] at hv
  cases h : nextOf (allStates lc) cur with
  | some x =>
    rw [nextOf_append_some _ _ _ _ h] at hv
    have hx : x = tgt := by simpa using hv
    -- the linear successor of an old state inside the old order is an old state
    exfalso
    have : ∀ (A : List String) (s y : String), nextOf A s = some y → y ∈ A := by
      intro A
      induction A with
      | nil => intro s y h; simp [nextOf] at h
      | cons a l ih =>
        intro s y h
        rw [nextOf_cons] at h
        by_cases e : a = s
        · simp only [e, if_true] at h
          exact List.mem_cons_of_mem _ (List.mem_of_head? h)
        · simp only [e, if_false] at h
          exact List.mem_cons_of_mem _ (ih s y h)
    exact hnotold (hx ▸ this _ _ _ h)
  | none =>
    rw [nextOf_append_none _ _ _ hc h] at hv
    exact ⟨rfl, by simpa using hv⟩

/-! ### every action list moves the lifecycle along legal transitions only -/

/-- reachability along legal transitions -/
inductive Reach (lc : LifeCycle) : String → String → Prop
  | refl (s) : Reach lc s s
  | step {s t u} : Reach lc s t → validNext lc t u = true → (allStates lc).contains u = true → Reach lc s u

theorem Reach.trans {lc : LifeCycle} {a b c : String} (h1 : Reach lc a b) (h2 : Reach lc b c) : Reach lc a c := by
  induction h2 with
  | refl => exact h1
  | step _ hv hc ih => exact Reach.step ih hv hc

/-- lifecycle state of a result, completed or aborted -/
def stOf : Except (Fail × Ctl) Ctl → String
  | .ok c => c.st
  | .error (_, c) => c.st

/-- only `set` touches the lifecycle state -/
theorem actCtl_st_other (c : Ctl) (a : Viv.Gen.Act) (h : ∀ t, a ≠ .set t) : stOf (actCtl c a) = c.st := by
  cases a with
  | set t => exact absurd rfl (h t)
  | emit e => simp only [actCtl]; repeat' split
              all_goals rfl
  | create => simp only [actCtl]; repeat' split
              all_goals rfl
  | getPop => simp only [actCtl]; repeat' split
              all_goals rfl
  | stepBack => simp only [actCtl]; repeat' split
                all_goals rfl
  | stepFwd => simp only [actCtl]; repeat' split
               all_goals rfl
  | freeze => rfl
  | setupComponents => simp only [actCtl]; repeat' split
                       all_goals rfl
  | loopBegin ph => simp only [actCtl]; repeat' split
                    all_goals rfl
  | loopEnd => rfl
  | setVar => rfl
  | emitVar => rfl
  | callStep => rfl

/-- one framework action: the state moves by at most one legal transition; an error never moves it -/
theorem actCtl_reach (c : Ctl) (a : Viv.Gen.Act) :
    match actCtl c a with
    | .ok c' => Reach lifecycle c.st c'.st
    | .error (_, c') => c'.st = c.st := by
  by_cases hs : ∃ t, a = .set t
  · obtain ⟨t, rfl⟩ := hs
    simp only [actCtl]
    cases h : setState lifecycle c.st t with
    | ok t' =>
      obtain ⟨rfl, hc, hv⟩ := (setState_ok_iff lifecycle c.st t t').mp h
      exact Reach.step (Reach.refl _) hv hc
    | error e => cases e <;> rfl
  · have := actCtl_st_other c a (fun t ht => hs ⟨t, ht⟩)
    cases h : actCtl c a with
    | ok c' => rw [h] at this; simp only [stOf] at this; simp only; rw [this]; exact Reach.refl _
    | error e => obtain ⟨f, c'⟩ := e; rw [h] at this; exact this

/-- EVERY list of framework actions (any method body, however it is rewritten) leaves the lifecycle in a
state reached from the starting state along legal transitions only – whether it completes or aborts. -/
theorem runCtl_reach (acts : List Viv.Gen.Act) (c : Ctl) :
    match runCtl acts c with
    | .ok c' => Reach lifecycle c.st c'.st
    | .error (_, c') => Reach lifecycle c.st c'.st := by
  induction acts generalizing c with
  | nil => exact Reach.refl _
  | cons a rest ih =>
    simp only [runCtl]
    have ha := actCtl_reach c a
    cases h : actCtl c a with
    | ok c1 =>
      rw [h] at ha
      have := ih c1
      simp only
      cases h2 : runCtl rest c1 with
      | ok c2 => rw [h2] at this; exact ha.trans this
      | error e => rw [h2] at this; obtain ⟨f, c2⟩ := e; exact ha.trans this
    | error e =>
      rw [h] at ha
      obtain ⟨f, c1⟩ := e
      simp only at ha ⊢
      rw [ha]; exact Reach.refl _

theorem performCtl_reach (c : Ctl) (r : Req) : Reach lifecycle c.st (performCtl c r).2.st := by
  cases r with
  | set t =>
    simp only [performCtl]
    cases h : setState lifecycle c.st t with
    | ok t' =>
      obtain ⟨rfl, hc, hv⟩ := (setState_ok_iff lifecycle c.st t t').mp h
      exact Reach.step (Reach.refl _) hv hc
    | error e => exact Reach.refl _
  | call m =>
    simp only [performCtl, callCtl]
    have := runCtl_reach (expand (skeletonOf m)) c
    cases h : runCtl (expand (skeletonOf m)) c with
    | ok c' => rw [h] at this; exact this
    | error e => rw [h] at this; obtain ⟨f, c'⟩ := e; exact this

/-- … and the same with a request performed from inside a listener, whatever the request is (a direct
state change or a context method, legal or not) and whichever event it is armed on. -/
theorem runCtlN_reach (acts : List Viv.Gen.Act) (c : Ctl) (n : Nest) :
    match runCtlN acts (c, n) with
    | .ok (c', _) => Reach lifecycle c.st c'.st
    | .error (_, c', _) => Reach lifecycle c.st c'.st := by
  induction acts generalizing c n with
  | nil => exact Reach.refl _
  | cons a rest ih =>
    simp only [runCtlN]
    have ha := actCtl_reach c a
    cases h : actCtl c a with
    | ok c1 =>
      rw [h] at ha
      simp only
      by_cases hcond : n.ev ≠ "" ∧ a = .emit n.ev
      · rw [if_pos hcond]
        have hp := performCtl_reach c1 n.req
        have := ih { (performCtl c1 n.req).2 with log := (performCtl c1 n.req).2.log ++ [marker (performCtl c1 n.req).1 (performCtl c1 n.req).2.st] }
          { ev := "", req := n.req, done := some ((performCtl c1 n.req).1, (performCtl c1 n.req).2.st) }
        cases hr : runCtlN rest _ with
        | ok x =>
          obtain ⟨c2, n2⟩ := x
          rw [hr] at this
          have this' : Reach lifecycle (performCtl c1 n.req).2.st c2.st := this
          exact (ha.trans hp).trans this'
        | error e =>
          obtain ⟨f, c2, n2⟩ := e
          rw [hr] at this
          have this' : Reach lifecycle (performCtl c1 n.req).2.st c2.st := this
          exact (ha.trans hp).trans this'
      · rw [if_neg hcond]
        have := ih c1 n
        cases hr : runCtlN rest (c1, n) with
        | ok x =>
          obtain ⟨c2, n2⟩ := x
          rw [hr] at this
          have this' : Reach lifecycle c1.st c2.st := this
          exact ha.trans this'
        | error e =>
          obtain ⟨f, c2, n2⟩ := e
          rw [hr] at this
          have this' : Reach lifecycle c1.st c2.st := this
          exact ha.trans this'
    | error e =>
      rw [h] at ha
      obtain ⟨f, c1⟩ := e
      simp only at ha ⊢
      rw [ha]; exact Reach.refl _

/-- with nothing armed the nested-aware run IS the plain run -/
theorem runCtlN_unarmed (acts : List Viv.Gen.Act) (c : Ctl) (n : Nest) (hn : n.ev = "") :
    runCtlN acts (c, n) = (match runCtl acts c with
      | .ok c' => .ok (c', n)
      | .error (f, c') => .error (f, c', n)) := by
  induction acts generalizing c with
  | nil => rfl
  | cons a rest ih =>
    simp only [runCtlN, runCtl]
    cases h : actCtl c a with
    | ok c1 => simp only [hn, ne_eq, not_true_eq_false, false_and, if_false]; exact ih c1
    | error e => obtain ⟨f, c1⟩ := e; rfl

/-- the `Sim`-level run the driver executes projects onto the control-level run the theorems are about -/
theorem act_ctl (s : Sim) (a : Viv.Gen.Act) : ctlOf (act s a) = actCtl s.ctl a := by
  unfold act
  cases h : actCtl s.ctl a with
  | ok c => rfl
  | error e => obtain ⟨f, c⟩ := e; rfl

theorem runActs_ctl (acts : List Viv.Gen.Act) (s : Sim) : ctlOf (runActs acts s) = runCtl acts s.ctl := by
  induction acts generalizing s with
  | nil => rfl
  | cons a rest ih =>
    simp only [runActs, runCtl]
    have ha := act_ctl s a
    cases h : act s a with
    | ok s1 =>
      rw [h] at ha
      simp only [ctlOf] at ha
      rw [← ha]
      exact ih s1
    | error e =>
      obtain ⟨f, s1⟩ := e
      rw [h] at ha
      simp only [ctlOf] at ha
      rw [← ha]
      rfl

theorem call_ctl (m : String) (s : Sim) : ctlOf (call m s) = callCtl m s.ctl := runActs_ctl _ s

/-! ### requests from inside a listener: complete table over the four step events -/

def stepEvents : List String := ["time_step__prepare", "time_step", "time_step__cleanup", "collect_metrics"]

/-- a context resting in the main loop -/
def running : Ctl := coherent "collect_metrics" []

/-- every request a listener can make: a direct change to any state (or to a state that does not exist), any
context method -/
def allReqs : List Req := (states ++ ["nowhere"]).map Req.set ++ methods.map Req.call

/-- the first state a context method asks for (loops expanded) -/
def firstSet (m : String) : Option String :=
  match (expand (skeletonOf m)).find? isSetAct with
  | some (.set t) => some t
  | _ => none

/-- the request breaks the order when made in state `st`: its first state change is not a legal successor -/
def breaksOrder (st : String) : Req → Bool
  | .set t => !(states.contains t && validNext lifecycle st t)
  | .call m =>
    match firstSet m with
    | some t => !validNext lifecycle st t
    | none => false

/-- the first request of every context method (what the oracle's FIRST_SET table must agree with) -/
theorem first_set_table :
    methods.map (fun m => (m, firstSet m)) =
      [("setup", some "setup"), ("initialize_simulants", some "population_creation"),
       ("step", some "time_step__prepare"), ("finalize", some "simulation_end"), ("report", some "report")] := by decide

/-- `context_call_refused_unchanged_bare` looks at the literal head of the skeleton, which for `step` is the loop
header; this is the same statement with the first state change of the EXPANDED body, so `step` is included:
on a context driven by direct requests only, a method whose first state change is illegal changes nothing. -/
theorem context_call_refused_unchanged_bare_all :
    (states.all fun st => methods.all fun m =>
      let c0 : Ctl := { st := st }
      match firstSet m with
      | some t =>
        validNext lifecycle st t || (match callCtl m c0 with
          | .ok _ => false
          | .error (_, c) => c == c0)
      | none => false) = true := by decide

/-- which requests do NOT break the order inside each step event (the property's successor table again,
now for requests made while the event is being delivered) -/
theorem nested_legal_table :
    stepEvents.map (fun e => (e, allReqs.filter (fun r => !breaksOrder e r))) =
      [("time_step__prepare", [.set "time_step"]), ("time_step", [.set "time_step__cleanup"]),
       ("time_step__cleanup", [.set "collect_metrics"]),
       ("collect_metrics", [.set "time_step__prepare", .set "simulation_end", .call "step", .call "finalize"])] := by
  decide

/-- a request that breaks the order, made by a listener DURING any of the four step events, is refused,
runs no listener and changes nothing: the step carries on and ends exactly as it would have without it
(4 events × 16 requests). -/
theorem nested_refused_noop :
    (stepEvents.all fun e => allReqs.all fun r =>
      !breaksOrder e r ||
      (match callCtlN "step" (running, { ev := e, req := r }), callCtl "step" running with
       | .ok (c, n), .ok c0 =>
         n.done == some (false, e) && n.ev == "" &&
         c.log == (stepEvents.flatMap fun x => if x = e then ["emit:" ++ x, marker false e] else ["emit:" ++ x]) &&
         { c with log := c0.log } == c0
       | _, _ => false)) = true := by decide

/-- a listener that itself performs the NEXT legal state change makes the engine's own request for that state
an illegal self-transition: the step aborts there, no further listener runs (prepare, step, cleanup). -/
theorem nested_legal_set_blocks_engine :
    ([("time_step__prepare", "time_step"), ("time_step", "time_step__cleanup"),
      ("time_step__cleanup", "collect_metrics")].all fun (e, nx) =>
      match callCtlN "step" (running, { ev := e, req := .set nx }) with
      | .error (f, c, n) =>
        f == .transition && c.st == nx && n.done == some (true, nx) &&
        c.log == (stepEvents.takeWhile (· ≠ nx)).map ("emit:" ++ ·) ++ [marker true nx]
      | .ok _ => false) = true := by decide

/-- `finalize()` called by a collect_metrics listener is legal: simulation_end is emitted once, the step
returns in simulation_end, after which `step` and `finalize` are refused and `report` is accepted. -/
theorem nested_finalize_in_collect_metrics :
    (match callCtlN "step" (running, { ev := "collect_metrics", req := .call "finalize" }) with
     | .ok (c, n) =>
       c.st == "simulation_end" && n.done == some (true, "simulation_end") &&
       c.log == stepEvents.map ("emit:" ++ ·) ++ ["emit:simulation_end", marker true "simulation_end"] &&
       (match callCtl "step" c with | .error (f, c') => f == .transition && c' == c | .ok _ => false) &&
       (match callCtl "finalize" c with | .error (f, c') => f == .transition && c' == c | .ok _ => false) &&
       (match callCtl "report" c with | .ok c' => c'.st == "report" | .error _ => false)
     | .error _ => false) = true := by decide

/-! ### `run_simulation` and the interactive entry points -/

/-- `run_simulation()` requested anywhere but in `initialization` is refused at its first state change:
no listener, nothing changed – for every number of loop iterations it would have taken. -/
theorem run_simulation_refused (n : Nat) :
    (states.all fun st => st == "initialization" ||
      match runSimulationCtl n (coherent st ["<earlier>"]) with
      | .ok _ => false
      | .error (f, c) => f == .transition && c == coherent st ["<earlier>"]) = true := by
  have h : (states.all fun st => st == "initialization" ||
      callCtl "setup" (coherent st ["<earlier>"]) == .error (.transition, coherent st ["<earlier>"])) = true := by
    decide
  simp only [List.all_eq_true] at h ⊢
  intro st hst
  have := h st hst
  simp only [Bool.or_eq_true, beq_iff_eq] at this ⊢
  rcases this with e | hc
  · exact Or.inl e
  · right
    simp [runSimulationCtl, hc]

theorem step_from_loop (log : List String) (st : String)
    (h : st = "population_creation" ∨ st = "collect_metrics") :
    callCtl "step" { st := st, setupDone := true, created := true, frozen := true, log := log } =
      .ok { st := "collect_metrics", setupDone := true, created := true, frozen := true,
            log := log ++ ["emit:time_step__prepare"] ++ ["emit:time_step"] ++ ["emit:time_step__cleanup"] ++
                   ["emit:collect_metrics"] } := by
  rcases h with rfl | rfl <;> rfl

theorem stepsCtl_loop (n : Nat) (log : List String) (st : String)
    (h : st = "population_creation" ∨ st = "collect_metrics") :
    ∃ log', stepsCtl (n + 1) { st := st, setupDone := true, created := true, frozen := true, log := log } =
      .ok { st := "collect_metrics", setupDone := true, created := true, frozen := true, log := log' } := by
  induction n generalizing log st with
  | zero =>
    exact ⟨log ++ ["emit:time_step__prepare"] ++ ["emit:time_step"] ++ ["emit:time_step__cleanup"] ++ ["emit:collect_metrics"],
      by simp only [stepsCtl, step_from_loop log st h]⟩
  | succ k ih =>
    obtain ⟨log', h'⟩ := ih (log ++ ["emit:time_step__prepare"] ++ ["emit:time_step"] ++ ["emit:time_step__cleanup"] ++
                   ["emit:collect_metrics"]) "collect_metrics" (Or.inr rfl)
    refine ⟨log', ?_⟩
    rw [stepsCtl, step_from_loop log st h]
    exact h'

/-- `run_simulation()` on a fresh context with at least one loop iteration goes all the way to `report`;
with none (end = start) it is refused at `finalize` and rests in population_creation: simulation_end is not a
legal successor of population_creation. -/
theorem run_simulation_legal (n : Nat) :
    (∃ c, runSimulationCtl (n + 1) { st := "initialization" } = .ok c ∧ c.st = "report") ∧
    (∃ c, runSimulationCtl 0 { st := "initialization" } = .error (.transition, c) ∧ c.st = "population_creation") := by
  constructor
  · have h1 : callCtl "setup" { st := "initialization" } =
        .ok { st := "post_setup", setupDone := true, frozen := true, log := ["setup_components", "emit:post_setup"] } := by decide
    have h2 : callCtl "initialize_simulants" { st := "post_setup", setupDone := true, frozen := true, log := ["setup_components", "emit:post_setup"] } =
        .ok { st := "population_creation", setupDone := true, created := true, frozen := true,
              log := ["setup_components", "emit:post_setup", "create"] } := by decide
    obtain ⟨log', h3⟩ := stepsCtl_loop n ["setup_components", "emit:post_setup", "create"] "population_creation" (Or.inl rfl)
    have h4 : ∀ log : List String, ∃ c, (match callCtl "finalize" { st := "collect_metrics", setupDone := true, created := true, frozen := true, log := log } with
        | Except.error e => (Except.error e : Except (Fail × Ctl) Ctl)
        | Except.ok c => callCtl "report" c) = Except.ok c ∧ c.st = "report" := by
      intro log; exact ⟨_, rfl, rfl⟩
    obtain ⟨c, hc, hst⟩ := h4 log'
    exact ⟨c, by simp only [runSimulationCtl, h1, h2, h3]; exact hc, hst⟩
  · exact ⟨{ st := "population_creation", setupDone := true, created := true, frozen := true,
             log := ["setup_components", "emit:post_setup", "create"] }, by decide, rfl⟩

/-- on an `InteractiveContext`, whose `setup()` already creates the population, the wrapper's own
`initialize_simulants()` is an illegal self-transition: `run_simulation()` is refused there, after setup and
creation, resting in population_creation, from where stepping is legal. -/
theorem interactive_run_simulation_refused :
    (match runSimulation true 10 (init 0 1 3) with
     | .error (f, s) =>
       f == .transition && s.ctl.st == "population_creation" && s.clock == 0 &&
       s.ctl.log == ["setup_components", "emit:post_setup", "create"] &&
       (match call "step" s with | .ok s' => s'.ctl.st == "collect_metrics" && s'.clock == 1 | .error _ => false)
     | .ok _ => false) = true := by decide

/-- the interactive drives are step loops: from a running context `take_steps n`, `step(x)` and `run_until(t)`
only ever pass through the four step states and rest in collect_metrics (instances; the general statement is
`runCtl_reach`) -/
theorem interactive_drives_rest_in_loop :
    (match isetup (init 0 2 7) with
     | .ok s =>
       (match takeN 2 s with | .ok s' => s'.ctl.st == "collect_metrics" && s'.clock == 4 | .error _ => false) &&
       (match stepWithSize 5 s with | .ok s' => s'.ctl.st == "collect_metrics" && s'.clock == 5 && s'.step == 2 | .error _ => false) &&
       (match runUntil 100 5 s with | .ok s' => s'.ctl.st == "collect_metrics" && s'.clock == 6 && s'.stop == 7 | .error _ => false) &&
       (match runUntil 100 0 s with | .ok s' => s' == s | .error _ => false) &&
       (match takeN 0 s with | .ok s' => s' == s | .error _ => false)
     | .error _ => false) = true := by decide

/-- a component's `setup` or an initializer that raises leaves the context in the state the method had legally
entered (`setup` / `population_creation`); `setup()` / `initialize_simulants()` cannot be repeated. -/
theorem failure_in_setup_or_creation :
    (match callCtl "setup" { st := "initialization", failOn := "setup_components" } with
     | .error (f, c) => f == .other && c.st == "setup" && !c.setupDone && c.log == [] &&
         (match callCtl "setup" c with | .error (f', c') => f' == .transition && c' == c | .ok _ => false)
     | .ok _ => false) &&
    (match callCtl "initialize_simulants" { (coherent "post_setup" []) with failOn := "create" } with
     | .error (f, c) => f == .other && c.st == "population_creation" && c.log == [] &&
         (match callCtl "initialize_simulants" c with | .error (f', c') => f' == .transition && c' == c | .ok _ => false)
     | .ok _ => false) = true := by decide

-- non-vacuity of the new general statements
example : addPhase lifecycle ⟨"post", ["archive"], false⟩ =
    some (lifecycle ++ [⟨"post", ["archive"], false⟩]) := by decide
example : validNext (lifecycle ++ [⟨"post", ["archive"], false⟩]) "report" "archive" = true ∧
    validNext lifecycle "report" "archive" = false := by decide
example : Reach lifecycle "initialization" "post_setup" :=
  .step (t := "setup") (.step (t := "initialization") (.refl _) (by decide) (by decide)) (by decide) (by decide)
example : breaksOrder "time_step" (.call "step") = true ∧ breaksOrder "collect_metrics" (.call "step") = false := by decide

end Viv.Props.C06
