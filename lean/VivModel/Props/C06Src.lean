import VivModel.Model.Lifecycle
import VivModel.Gen.Src
import VivModel.Lemmas.PyAst
import VivModel.Lemmas.PyState
/-! C06, source tie: the Python source of `LifeCycleManager.set_state` and of `LifeCycleState.valid_next_state`
(`Gen/Src.lean`, regenerated from the tree under test on every run) evaluated by `Py.evalBlock` IS the model's
`LC.setState` / `LC.validNext` – for every lifecycle, every current state, every requested name. The manager's
`_current_state` is the state of a state monad UNDER the exception monad, so "a refused request leaves the current
state unchanged" is part of the statement. `set_state` reaches `valid_next_state` by a call into the translated source
of that method (interprocedural). The `_next` / `_loop_next` links of a state object are the model's `nextOf` /
`loopNextOf` (how `add_phase` wires them is tied by the generated phase table and by correspondence, not here). -/
namespace Viv.Props.C06Src
open Viv.Py Viv.LC

/-- the Python objects `LifeCycleManager.set_state` and `LifeCycleState.valid_next_state` touch -/
inductive LV where
  | none | bool (b : Bool) | int (i : Int) | str (s : String)
  | self | lifecycle | getStateFn
  /-- the `LifeCycleState` object of that name -/
  | state (s : String)
  | validNextFn (cur : String)
  | enterFn (s : String)
  | timings | timingList | appendFn
  | timeMod | timeFn | float
  | list (vs : List LV)

/-- Python's `is` on the objects that occur: `None` is `None`; two `LifeCycleState` objects are the same object iff they
carry the same name (names are unique in a lifecycle) -/
def LV.same : LV → LV → Bool
  | .none, .none => true
  | .state a, .state b => a == b
  | _, _ => false

/-- the manager's `_current_state` is the state of the monad; it survives a raised exception -/
abbrev M := ExceptT String (StateM String)

def optState : Option String → LV
  | some s => .state s
  | Option.none => .none

/-- everything except method calls into other translated functions -/
def lGetAttr (lc : LifeCycle) (o : LV) (a : String) : M LV := match o with
  | .self =>
    if a == "lifecycle" then pure .lifecycle
    else if a == "_current_state" then do let cur ← (get : M String); pure (.state cur)
    else if a == "_timings" then pure .timings
    else if a == "_current_state_start_time" then pure .float
    else throw "AttributeError"
  | .lifecycle => if a == "get_state" then pure .getStateFn else throw "AttributeError"
  | .state s =>
    if a == "_next" then pure (optState (nextOf (allStates lc) s))
    else if a == "_loop_next" then pure (optState (loopNextOf lc s))
    else if a == "valid_next_state" then pure (.validNextFn s)
    else if a == "enter" then pure (.enterFn s)
    else if a == "name" then pure (.str s)
    else throw "AttributeError"
  | .timingList => if a == "append" then pure .appendFn else throw "AttributeError"
  | .timeMod => if a == "time" then pure .timeFn else throw "AttributeError"
  | _ => throw "AttributeError"

def lSetAttr (o : LV) (a : String) (v : LV) : M Unit := match o, v with
  | .self, .state s => if a == "_current_state" then (set s : M Unit) else throw "AttributeError"
  | .self, .float => if a == "_current_state_start_time" then pure () else throw "AttributeError"
  | _, _ => throw "AttributeError"

def lPrim (lc : LifeCycle) (f : LV) (args : List LV) (kws : List (String × LV)) : M LV := match f, args, kws with
  | .getStateFn, [.str s], [] => if (allStates lc).contains s then pure (.state s) else throw "LifeCycleError"
  | .enterFn _, [], [] => pure .none
  | .appendFn, [.float], [] => pure .none
  | .timeFn, [], [] => pure .float
  | _, _, _ => throw "TypeError"

/-- `methods`: calls into other translated functions -/
def lworldWith (lc : LifeCycle) (methods : LV → List LV → List (String × LV) → Option (M LV)) : World M LV where
  none := .none
  bool := .bool
  int := .int
  str := .str
  list := .list
  newList vs := pure (.list vs)
  tuple := .list
  global n := if n == "time" then pure .timeMod else throw "NameError"
  truthy
    | .none => pure false
    | .bool b => pure b
    | _ => pure true
  getAttr := lGetAttr lc
  setAttr := lSetAttr
  call f args kws := match methods f args kws with
    | some r => r
    | Option.none => lPrim lc f args kws
  cmp op l r :=
    if op == "Is" then pure (.bool (l.same r))
    else if op == "IsNot" then pure (.bool (!l.same r))
    else throw "TypeError"
  bin op l r := match l, r with
    | .float, .float => if op == "Sub" then pure .float else throw "TypeError"
    | _, _ => throw "TypeError"
  neg _ := throw "TypeError"
  sub o k := match o, k with
    | .timings, .str _ => pure .timingList
    | _, _ => throw "TypeError"
  slice _ _ := .none
  setItem _ _ _ := throw "TypeError"
  iter _ := throw "TypeError"
  unstar _ := throw "TypeError"
  format _ := throw "TypeError"
  concat _ := throw "TypeError"
  dict _ := throw "TypeError"
  whileLoop _ _ _ := throw "Unsupported"
  other _ := throw "Unsupported"
  throw cls := throw cls
  rethrow := throw "reraise"
  catchAll body handler := tryCatch body (fun _ => handler)
  catchCls cls body handler := tryCatch body (fun e => if e == cls then handler else throw e)

/-- everything except method calls into other translated functions -/
def lworld0 (lc : LifeCycle) : World M LV := lworldWith lc fun _ _ _ => Option.none

theorem same_opt (tgt : String) (o : Option String) : (LV.state tgt).same (optState o) = (o == some tgt) := by
  cases o with
  | none => simp [optState, LV.same]
  | some s => simp [optState, LV.same]; exact BEq.comm

@[simp] theorem same_none (tgt : String) : (LV.state tgt).same LV.none = false := rfl

theorem validNext_refines (lc : LifeCycle) (cur tgt : String) :
    Gen.Src.lifecycleValidNext.run (lworld0 lc) [("self", .state cur), ("state", .state tgt)]
      = pure (LV.bool (validNext lc cur tgt)) := by
  simp [Func.run, Gen.Src.lifecycleValidNext, evalBlock, evalStmt, evalExpr, lworld0, lworldWith, lGetAttr, lPrim, validNext, same_opt, same_none]
  cases h1 : (nextOf (allStates lc) cur == some tgt) <;> simp <;> intro h <;> simp [h] at h1

/-- the full world: `self._current_state.valid_next_state(new_state)` is a call INTO the translated source of
`LifeCycleState.valid_next_state` -/
def lworld (lc : LifeCycle) : World M LV :=
  lworldWith lc fun f args kws => match f, args, kws with
    | .validNextFn cur, [.state new], [] =>
      some (Gen.Src.lifecycleValidNext.run (lworld0 lc) [("self", .state cur), ("state", .state new)])
    | _, _, _ => Option.none

/-- `LifeCycleManager.set_state(tgt)` with the manager in state `cur`: exactly the model's `setState` – an unknown name
raises `LifeCycleError`, an illegal successor raises `InvalidTransitionError`, and in both cases `_current_state` is
not assigned; a legal successor becomes the current state. -/
theorem setState_refines (lc : LifeCycle) (cur tgt : String) :
    ((Gen.Src.lifecycleSetState.run (lworld lc) [("self", .self), ("state", .str tgt)]).run.run cur)
      = match setState lc cur tgt with
        | .ok s => (.ok LV.none, s)
        | .error .unknown => (.error "LifeCycleError", cur)
        | .error .transition => (.error "InvalidTransitionError", cur) := by
  show runM (Gen.Src.lifecycleSetState.run (lworld lc) [("self", .self), ("state", .str tgt)]) cur = _
  rw [runM_func]
  simp only [Gen.Src.lifecycleSetState]
  -- what the method calls INTO: the translated `valid_next_state`, already proved to be the model's `validNext`
  -- the case distinctions first, then the statements one after the other, however many there are
  by_cases hmem : tgt ∈ allStates lc
  · cases hv : validNext lc cur tgt
    · repeat pystep [lworld, lworldWith, lGetAttr, lSetAttr, lPrim, validNext_refines, hmem, hv]
      simp [setState, hmem, hv, lworld, lworldWith]
    · repeat pystep [lworld, lworldWith, lGetAttr, lSetAttr, lPrim, validNext_refines, hmem, hv]
      simp [setState, hmem, hv, lworld, lworldWith]
  · repeat pystep [lworld, lworldWith, lGetAttr, lSetAttr, lPrim, validNext_refines, hmem]
    simp [setState, hmem, lworld, lworldWith]

/-- a request list replayed through the translated `set_state`: refused requests leave the state where it was, so the
final state is the model's `runReqs` -/
theorem setState_run (lc : LifeCycle) (cur : String) (reqs : List String) :
    reqs.foldl (fun c r => ((Gen.Src.lifecycleSetState.run (lworld lc) [("self", .self), ("state", .str r)]).run.run c).2) cur
      = (runReqs lc cur reqs).1 := by
  induction reqs generalizing cur with
  | nil => rfl
  | cons r rs ih =>
    simp only [setState_refines] at ih
    simp only [List.foldl_cons, setState_refines, runReqs]
    cases h : setState lc cur r with
    | ok s => simp [ih]
    | error e => cases e <;> simp [ih]

/-- non-vacuity: on the simulation's own lifecycle shape, `time_step__cleanup` may go to `collect_metrics` but not back to
`time_step__prepare` -/
example :
    let lc : LifeCycle := [⟨"setup", ["setup", "post_setup"], false⟩, ⟨"main_loop", ["a", "b", "c"], true⟩]
    ((Gen.Src.lifecycleSetState.run (lworld lc) [("self", .self), ("state", .str "c")]).run.run "b").2 = "c"
    ∧ ((Gen.Src.lifecycleSetState.run (lworld lc) [("self", .self), ("state", .str "a")]).run.run "b").2 = "b"
    ∧ ((Gen.Src.lifecycleSetState.run (lworld lc) [("self", .self), ("state", .str "a")]).run.run "c").2 = "a" := by
  simp only [setState_refines]; decide

end Viv.Props.C06Src
