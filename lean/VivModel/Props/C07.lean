import VivModel.Model.Context
import VivModel.Model.Services
/-! C07 — framework services are available exactly in the states that make sense.

The quantifier is the finite service × lifecycle-state matrix; the constraint table is regenerated
from every `add_constraint` call site of the working tree (`Viv.Gen.constraints`), so each theorem
is re-decided against what the code says now. -/
namespace Viv.Props.C07
open Viv.LC Viv.Ctx Viv.Gen Viv.Svc

def registrationServices : List (String × String) :=
  [("framework/event.py", "self.register_listener"),
   ("framework/values.py", "self.register_value_producer"),
   ("framework/values.py", "self.register_value_modifier"),
   ("framework/population/manager.py", "self.register_simulant_initializer"),
   ("framework/population/manager.py", "self.get_simulant_creator"),
   ("framework/randomness/manager.py", "self.get_randomness_stream"),
   ("framework/lookup/manager.py", "self.build_table"),
   ("framework/artifact/manager.py", "self.load")]

def readerServices : List (String × String) :=
  [("framework/population/manager.py", "view.get"),
   ("framework/values.py", "pipeline._call"),
   ("framework/randomness/manager.py", "stream.get_draw"),
   ("framework/randomness/manager.py", "stream.filter_for_probability"),
   ("framework/randomness/manager.py", "stream.filter_for_rate"),
   ("framework/randomness/manager.py", "stream.choice"),
   ("framework/lookup/manager.py", "table.call")]

def writerServices : List (String × String) :=
  [("framework/population/manager.py", "view.update"),
   ("framework/randomness/manager.py", "self.register_simulants"),
   ("framework/population/manager.py", "self._create_simulants")]

/-- every state named in a constraint is a declared lifecycle state (otherwise `add_constraint` raises) -/
theorem table_states_known :
    (Viv.Gen.constraints.all fun e => e.states.all fun s => states.contains s) = true := by decide

/-- no (file, method) pair is constrained at two call sites with different state lists -/
theorem table_sites_consistent :
    (Viv.Gen.constraints.all fun e => Viv.Gen.constraints.all fun e' =>
      !(e.file == e'.file && e.method == e'.method) || permitted e == permitted e') = true := by decide

/-- builder registration services work during `setup` and in no other state -/
theorem registration_only_setup :
    (registrationServices.all fun (f, m) => permittedAt f m == some ["setup"]) = true := by decide

/-- services that read simulation state are refused exactly in initialization, setup and post_setup -/
theorem readers_from_creation :
    (readerServices.all fun (f, m) =>
      permittedAt f m == some ["population_creation", "time_step__prepare", "time_step", "time_step__cleanup",
                               "collect_metrics", "simulation_end", "report"]) = true := by decide

/-- services that change simulation state are in addition refused once the simulation has ended -/
theorem writers_until_end :
    (writerServices.all fun (f, m) =>
      permittedAt f m == some ["population_creation", "time_step__prepare", "time_step", "time_step__cleanup",
                               "collect_metrics"]) = true := by decide

/-- the full service × state matrix in one statement: admitted ⇔ the property's rule for the class -/
theorem matrix :
    (states.all fun st =>
      (registrationServices.all fun (f, m) => ((permittedAt f m).any (·.contains st)) == (st == "setup")) &&
      (readerServices.all fun (f, m) => ((permittedAt f m).any (·.contains st)) ==
          !(["initialization", "setup", "post_setup"].contains st)) &&
      (writerServices.all fun (f, m) => ((permittedAt f m).any (·.contains st)) ==
          !(["initialization", "setup", "post_setup", "simulation_end", "report"].contains st))) = true := by decide

/-- `restrict_during` is complemented against the declared states: for every table entry and every
state, permitted ⇔ (allow-list contains it) resp. (restrict-list does not). -/
theorem restrict_is_complement :
    (Viv.Gen.constraints.all fun e => states.all fun st =>
      (permitted e).contains st == (match e.mode with
        | .allow => e.states.contains st
        | .restrict => !e.states.contains st)) = true := by decide

/-- model of the `ConstraintMaker` wrapper: the verdict is a function of the state at call time only
(no memory of the state in which the handle was obtained). -/
theorem wrapper_checks_current_state (m st : String) :
    admitted m st = match permittedOf m with
      | some ss => ss.contains st
      | none => true := rfl

/-- emitters are constrained to their own event's state by a run-time list at exactly one site -/
theorem emit_constrained_dynamically :
    Viv.Gen.dynamicConstraints.map (fun e => (e.1, e.2.2.1, e.2.2.2.1, e.2.2.2.2)) =
      [("framework/event.py", "channel.emit", .allow, "[name]")] := by decide

/-! ## The stateful model: `ConstraintMaker`, run-time `add_constraint`, handles (Model/Services.lean) -/

/-! ### A. `add_constraint` on arbitrary state lists -/

/-- both `allow_during` and `restrict_during` given: `ValueError`, nothing registered -/
theorem add_both_refused (r : Reg) (o n m : String) (b : Bool) (allow restrict : List String)
    (ha : allow ≠ []) (hr : restrict ≠ []) : addConstraint r o n m b allow restrict = .error .value := by
  cases allow with
  | nil => exact absurd rfl ha
  | cons a as =>
    cases restrict with
    | nil => exact absurd rfl hr
    | cons x xs => simp [addConstraint]

/-- neither list given (or both empty, e.g. `allow_during=()`): `ValueError` -/
theorem add_neither_refused (r : Reg) (o n m : String) (b : Bool) :
    addConstraint r o n m b [] [] = .error .value := by simp [addConstraint]

/-- a state that the lifecycle does not declare, in either list: `LifeCycleError` (checked before the method is looked at) -/
theorem add_unknown_state_refused (r : Reg) (o n m : String) (b : Bool) (allow restrict : List String)
    (hone : allow = [] ∨ restrict = []) (hsome : allow ≠ [] ∨ restrict ≠ [])
    (s : String) (hs : s ∈ allow ++ restrict) (hunk : s ∉ states) :
    addConstraint r o n m b allow restrict = .error .lifecycle := by
  have h1 : ((!allow.isEmpty && !restrict.isEmpty) || (allow.isEmpty && restrict.isEmpty)) = false := by
    rcases hone with h | h <;> rcases hsome with h' | h' <;> subst_vars <;> simp_all
  have h2 : ((allow ++ restrict).all fun s => states.contains s) = false := by
    rw [List.all_eq_false]
    exact ⟨s, hs, by simpa using hunk⟩
  unfold addConstraint
  simp only [h1, h2]
  simp

/-- the shape of a successful `add_constraint`: exactly one new wrapper, with the complemented list -/
theorem add_ok_shape {r r' : Reg} {o n m : String} {b : Bool} {allow restrict : List String}
    (h : addConstraint r o n m b allow restrict = .ok r') :
    r' = r ++ [⟨o, n, m, permittedList allow restrict⟩] ∧ b = true ∧ isDunder m = false ∧ guidTaken r n m = false ∧
      (allow = [] ∨ restrict = []) ∧ (allow ≠ [] ∨ restrict ≠ []) ∧ (∀ s ∈ allow ++ restrict, s ∈ states) := by
  unfold addConstraint at h
  split at h
  · cases h
  · split at h
    · cases h
    · split at h
      · cases h
      · split at h
        · cases h
        · split at h
          · cases h
          · rename_i h1 h2 h3 h4 h5
            injection h with h
            refine ⟨h.symm, ?_, ?_, ?_, ?_, ?_, ?_⟩
            · simpa using h3
            · simpa using h4
            · simpa using h5
            · cases allow <;> cases restrict <;> simp_all
            · cases allow <;> cases restrict <;> simp_all
            · intro s hs
              have h2' : ((allow ++ restrict).all fun s => states.contains s) = true := by simpa using h2
              rw [List.all_eq_true] at h2'
              simpa using h2' s hs


/-! ### B. wrappers are never replaced, removed or consulted for another object -/

/-- later wrappers never shadow an earlier one (`find?` takes the first) -/
theorem find_append_stable {r : Reg} {o m : String} {e : Entry} (h : find r o m = some e) (l : Reg) :
    find (r ++ l) o m = some e := by
  unfold find at *
  rw [List.find?_append, h]
  rfl

/-- the wrapper just appended is the one found when the method had none -/
theorem find_append_new {r : Reg} {o m : String} (h : find r o m = none) (n : String) (p : List String) :
    find (r ++ [⟨o, n, m, p⟩]) o m = some ⟨o, n, m, p⟩ := by
  unfold find at *
  rw [List.find?_append, h]
  simp [List.find?]

/-- a wrapper for one (object, method) pair is never found for another pair -/
theorem find_append_other (r : Reg) (o m o' m' n : String) (p : List String) (hne : ¬ (o' = o ∧ m' = m)) :
    find (r ++ [⟨o, n, m, p⟩]) o' m' = find r o' m' := by
  unfold find
  rw [List.find?_append]
  have : List.find? (fun e => e.obj == o' && e.method == m') [(⟨o, n, m, p⟩ : Entry)] = none := by
    simp only [List.find?]
    have : ((o == o') && (m == m')) = false := by
      cases h1 : (o == o') <;> cases h2 : (m == m') <;> simp_all
    simp [this]
  rw [this]
  cases List.find? (fun e => e.obj == o' && e.method == m') r <;> rfl

/-- a new object has no wrapper -/
theorem find_none_of_fresh {r : Reg} {o : String} (fresh : ∀ e ∈ r, e.obj ≠ o) (m : String) : find r o m = none := by
  unfold find
  rw [List.find?_eq_none]
  intro e he
  have := fresh e he
  simp [this]

/-- `allow_during`: admitted exactly in the listed states -/
theorem allow_exact {r r' : Reg} {o n m : String} {b : Bool} {allow : List String}
    (h : addConstraint r o n m b allow [] = .ok r') (hnew : find r o m = none) (st : String) :
    verdict r' o m st = allow.contains st := by
  obtain ⟨hr, -⟩ := add_ok_shape h
  subst hr
  unfold verdict
  rw [find_append_new hnew]
  simp [permittedList]

/-- `restrict_during` is complemented against the declared states: admitted exactly in the declared states
that are not listed -/
theorem restrict_complement {r r' : Reg} {o n m : String} {b : Bool} {restrict : List String}
    (h : addConstraint r o n m b [] restrict = .ok r') (hnew : find r o m = none) (st : String) :
    verdict r' o m st = (states.contains st && !restrict.contains st) := by
  obtain ⟨hr, -, -, -, -, hne, -⟩ := add_ok_shape h
  subst hr
  have hre : restrict.isEmpty = false := by
    cases restrict with
    | nil => simp at hne
    | cons _ _ => rfl
  unfold verdict
  rw [find_append_new hnew]
  simp only [permittedList, hre]
  cases hc : states.contains st <;> cases hd : restrict.contains st <;> simp_all [List.mem_filter]

/-- constraining one method leaves every other (object, method) pair as it was; a refused `add_constraint`
changes nothing at all (the `Except` carries no registry) -/
theorem add_frame {r r' : Reg} {o n m : String} {b : Bool} {allow restrict : List String}
    (h : addConstraint r o n m b allow restrict = .ok r') (o' m' : String) (hne : ¬ (o' = o ∧ m' = m)) (st : String) :
    verdict r' o' m' st = verdict r o' m' st := by
  obtain ⟨hr, -⟩ := add_ok_shape h
  subst hr
  unfold verdict
  rw [find_append_other r o m o' m' n _ hne]

/-- the second constraint on a method whose global id is taken is refused - whatever lists it brings, so a
constraint can be neither widened nor narrowed afterwards -/
theorem add_twice_refused {r r1 : Reg} {o n m : String} {b : Bool} {allow restrict : List String}
    (h : addConstraint r o n m b allow restrict = .ok r1) (l : Reg) (o2 : String) (b2 : Bool) (allow2 restrict2 : List String)
    (r2 : Reg) : addConstraint (r1 ++ l) o2 n m b2 allow2 restrict2 ≠ .ok r2 := by
  obtain ⟨hr, -⟩ := add_ok_shape h
  subst hr
  intro h2
  obtain ⟨-, -, -, hfree, -⟩ := add_ok_shape h2
  have ht : guidTaken (r ++ [⟨o, n, m, permittedList allow restrict⟩] ++ l) n m = true := by
    simp [guidTaken]
  rw [ht] at hfree
  cases hfree

/-- … and with otherwise valid arguments the refusal is the `ConstraintError` -/
theorem add_twice_constraint_error {r : Reg} {o n m : String} (allow restrict : List String)
    (htaken : guidTaken r n m = true) (hd : isDunder m = false)
    (hone : allow = [] ∨ restrict = []) (hsome : allow ≠ [] ∨ restrict ≠ []) (hknown : ∀ s ∈ allow ++ restrict, s ∈ states) :
    addConstraint r o n m true allow restrict = .error .constraint := by
  have h1 : ((!allow.isEmpty && !restrict.isEmpty) || (allow.isEmpty && restrict.isEmpty)) = false := by
    rcases hone with h | h <;> rcases hsome with h' | h' <;> subst_vars <;> simp_all
  have h2 : ((allow ++ restrict).all fun s => states.contains s) = true := by
    rw [List.all_eq_true]
    intro s hs
    simpa using hknown s hs
  unfold addConstraint
  simp only [h1, h2, hd, htaken]
  simp


/-! ### C. the registry only grows: whatever happens later, a wrapper stays what it was -/

/-- a framework call site appends to the registry (or leaves it alone) -/
theorem fwAdd_grows {r r' : Reg} {o m file target : String} (h : fwAdd r o m file target = .ok r') :
    ∃ l, r' = r ++ l := by
  unfold fwAdd at h
  split at h
  · injection h with h; exact ⟨[], by simp [h]⟩
  · split at h
    · exact ⟨_, (add_ok_shape h).1⟩
    · exact ⟨_, (add_ok_shape h).1⟩

/-- … and so do all the call sites of one handle, also when one of them is refused half-way -/
theorem fwAdds_grows (o file : String) : ∀ (ms : List (String × String)) (r : Reg), ∃ l, (fwAdds r o file ms).1 = r ++ l
  | [], r => ⟨[], by simp [fwAdds]⟩
  | (m, t) :: rest, r => by
    unfold fwAdds
    split
    · rename_i r' h
      obtain ⟨l1, h1⟩ := fwAdd_grows h
      obtain ⟨l2, h2⟩ := fwAdds_grows o file rest r'
      exact ⟨l1 ++ l2, by rw [h2, h1, List.append_assoc]⟩
    · exact ⟨[], by simp⟩

/-- bookkeeping: the registry after a handle creation is the one the call sites produced -/
theorem finishNew_reg (s : S) (id : String) (k : Kind) (res : Reg × Option AddErr) :
    (finishNew s id k res).1.reg = res.1 := by
  unfold finishNew
  split <;> rfl

/-- `get_view` only appends -/
theorem newView_grows (s : S) (id : String) : ∃ l, (newView s id).1.reg = s.reg ++ l := by
  unfold newView
  split
  · exact ⟨[], by simp⟩
  · rw [finishNew_reg]; exact fwAdds_grows _ _ _ _

/-- EVERY operation of the protocol only appends to the registry (case analysis over all 13 operations) -/
theorem exec_grows (s : S) (op : Op) : ∃ l, (exec s op).1.reg = s.reg ++ l := by
  cases op with
  | st x => simp only [exec, setSt]; split <;> exact ⟨[], by simp⟩
  | view id => simp only [exec]; exact newView_grows s id
  | subview id p => simp only [exec, newSubview]; split <;> exact ⟨[], by simp⟩
  | stream id =>
    simp only [exec]
    unfold newStream
    split
    · exact ⟨[], by simp⟩
    · rw [finishNew_reg]; exact fwAdds_grows _ _ _ _
  | value n => simp only [exec, getValue]; split <;> exact ⟨[], by simp⟩
  | modifier n =>
    simp only [exec]
    unfold registerModifier
    split
    · exact ⟨[], by simp⟩
    · unfold getValue; split <;> exact ⟨[], by simp⟩
  | producer n =>
    simp only [exec]
    unfold registerProducer
    have hv : (getValue s n).1.reg = s.reg := by unfold getValue; split <;> rfl
    split
    · exact ⟨[], by simp⟩
    · split
      · exact ⟨[], by simp⟩
      · simp only
        split
        · rename_i r h
          obtain ⟨l, hl⟩ := fwAdd_grows h
          exact ⟨l, by simp only [hl, hv]⟩
        · exact ⟨[], by simp [hv]⟩
  | table id k =>
    simp only [exec]
    unfold newTable
    split
    · exact ⟨[], by simp⟩
    · cases k with
      | false =>
        simp only [Bool.false_eq_true, ↓reduceIte]
        split
        · rename_i h; simp at h
        · rw [finishNew_reg]; exact fwAdds_grows _ _ _ _
      | true =>
        simp only [↓reduceIte]
        obtain ⟨l1, h1⟩ := newView_grows s (id ++ ".view")
        split
        · exact ⟨l1, h1⟩
        · rw [finishNew_reg]
          obtain ⟨l2, h2⟩ := fwAdds_grows id lkpFile [("call", "table.call")] (newView s (id ++ ".view")).1.reg
          exact ⟨l1 ++ l2, by rw [h2, h1, List.append_assoc]⟩
  | obj id => simp only [exec, newObj]; split <;> exact ⟨[], by simp⟩
  | add o n m b a r =>
    simp only [exec]
    unfold userAdd
    split
    · rename_i r' h; exact ⟨_, (add_ok_shape h).1⟩
    · exact ⟨[], by simp⟩
  | call o m e => exact ⟨[], by simp [exec]⟩
  | pcall n => exact ⟨[], by simp [exec]⟩
  | svc f t => exact ⟨[], by simp [exec]⟩
  | create n => simp only [exec, createSimulants]; split <;> exact ⟨[], by simp⟩

/-- … hence every program does (induction over the program) -/
theorem run_grows : ∀ (ops : List Op) (s : S), ∃ l, (Viv.Svc.run s ops).reg = s.reg ++ l
  | [], s => ⟨[], by simp [Viv.Svc.run]⟩
  | op :: rest, s => by
    obtain ⟨l1, h1⟩ := exec_grows s op
    obtain ⟨l2, h2⟩ := run_grows rest (exec s op).1
    exact ⟨l1 ++ l2, by simp only [Viv.Svc.run, h2, h1, List.append_assoc]⟩

/-- **once constrained, forever the same verdict**: after ANY further history - other handles, state changes, calls
that are admitted, refused or fail, attempts to constrain the method again, constraints on other methods - the
wrapper on `o.m` admits exactly the states it was made with. The verdict depends on the state at call time only. -/
theorem verdict_stable {s : S} {o m : String} {e : Entry} (h : find s.reg o m = some e) (ops : List Op) (st : String) :
    verdict (Viv.Svc.run s ops).reg o m st = e.perm.contains st := by
  obtain ⟨l, hl⟩ := run_grows ops s
  unfold verdict
  rw [hl, find_append_stable h]

/-- calls never change anything (no memory of earlier calls, of who called, of what was in progress) -/
theorem calls_are_pure (s : S) (o m : String) (e : Bool) (n f t : String) :
    (exec s (.call o m e)).1 = s ∧ (exec s (.pcall n)).1 = s ∧ (exec s (.svc f t)).1 = s := ⟨rfl, rfl, rfl⟩


/-! ### D. every handle a framework service hands out carries the constraint its call site declares -/

/-- the table lookup of Model/Context.lean and the one of Model/Services.lean are the same function -/
theorem permittedAt_eq (file target : String) : permittedAt file target = (tableEntry file target).map permitted := rfl

/-- a framework call site that succeeds on a method without wrapper installs exactly the list the table declares for it (allow lists as they are, restrict lists complemented) -/
theorem fwAdd_rule {r r' : Reg} {o m file target : String} {ps : List String}
    (h : fwAdd r o m file target = .ok r') (hnew : find r o m = none) (hp : permittedAt file target = some ps) :
    find r' o m = some ⟨o, o, m, ps⟩ := by
  rw [permittedAt_eq] at hp
  unfold fwAdd at h
  cases hc : tableEntry file target with
  | none => rw [hc] at hp; cases hp
  | some c =>
    rw [hc] at hp h
    simp only [Option.map_some, Option.some.injEq] at hp
    subst hp
    simp only at h
    cases hm : c.mode with
    | allow =>
      rw [hm] at h
      simp only at h
      obtain ⟨hr, -⟩ := add_ok_shape h
      subst hr
      rw [find_append_new hnew]
      simp [permittedList, permitted, hm]
    | restrict =>
      rw [hm] at h
      simp only at h
      obtain ⟨hr, -, -, -, -, hne, -⟩ := add_ok_shape h
      subst hr
      rw [find_append_new hnew]
      have hre : c.states.isEmpty = false := by
        cases hs : c.states with
        | nil => rw [hs] at hne; simp at hne
        | cons _ _ => rfl
      simp [permittedList, permitted, hm, hre]

/-- no wrapper is found for a method no entry of that object mentions -/
theorem find_none_of_methods {r : Reg} {o m : String} (h : ∀ e ∈ r, e.obj = o → e.method ≠ m) : find r o m = none := by
  unfold find
  rw [List.find?_eq_none]
  intro e he
  by_cases ho : e.obj = o
  · have := h e he ho
    simp [ho, this]
  · simp [ho]

/-- the entries after a framework call site are the old ones plus, at most, one for that very object and method -/
theorem fwAdd_entries {r r' : Reg} {o m file target : String} (h : fwAdd r o m file target = .ok r') :
    ∀ e ∈ r', e ∈ r ∨ (e.obj = o ∧ e.method = m) := by
  unfold fwAdd at h
  split at h
  · injection h with h; subst h; intro e he; exact Or.inl he
  · split at h <;>
    · obtain ⟨hr, -⟩ := add_ok_shape h
      subst hr
      intro e he
      rcases List.mem_append.mp he with h1 | h1
      · exact Or.inl h1
      · simp at h1; subst h1; exact Or.inr ⟨rfl, rfl⟩

/-- all the call sites of one handle (distinct methods, object new): after a successful run EACH method carries its declared list - induction over the sites -/
theorem fwAdds_rule (o file : String) : ∀ (ms : List (String × String)) (r r' : Reg),
    fwAdds r o file ms = (r', none) → (∀ e ∈ r, e.obj = o → e.method ∉ ms.map Prod.fst) → (ms.map Prod.fst).Nodup →
    ∀ m t, (m, t) ∈ ms → ∀ ps, permittedAt file t = some ps → find r' o m = some ⟨o, o, m, ps⟩
  | [], _, _ => by intro _ _ _ m t hm; cases hm
  | (m0, t0) :: rest, r, r' => by
    intro h hfree hnd m t hm ps hp
    unfold fwAdds at h
    split at h
    · rename_i r1 h1
      have hnd' : (rest.map Prod.fst).Nodup := (List.nodup_cons.mp (by simpa using hnd)).2
      have hm0 : m0 ∉ rest.map Prod.fst := (List.nodup_cons.mp (by simpa using hnd)).1
      have hfree1 : ∀ e ∈ r1, e.obj = o → e.method ∉ rest.map Prod.fst := by
        intro e he ho
        rcases fwAdd_entries h1 e he with h2 | ⟨_, h2⟩
        · intro hin
          exact hfree e h2 ho (by simp only [List.map_cons, List.mem_cons]; exact Or.inr hin)
        · rw [h2]; exact hm0
      rcases List.mem_cons.mp hm with heq | hin
      · injection heq with e1 e2
        subst e1; subst e2
        have hnew : find r o m = none := find_none_of_methods (fun e he ho => by
          intro hmm
          exact hfree e he ho (by simp [hmm]))
        have := fwAdd_rule h1 hnew hp
        obtain ⟨l, hl⟩ := fwAdds_grows o file rest r1
        rw [h] at hl
        simp only at hl
        rw [hl]
        exact find_append_stable this l
      · exact fwAdds_rule o file rest r1 r' h hfree1 hnd' m t hin ps hp
    · cases h

def readerStates : List String :=
  ["population_creation", "time_step__prepare", "time_step", "time_step__cleanup", "collect_metrics", "simulation_end", "report"]
def writerStates : List String :=
  ["population_creation", "time_step__prepare", "time_step", "time_step__cleanup", "collect_metrics"]

/-- a handle creation that answers `ok` ran all its call sites without refusal -/
theorem finishNew_ok {s s' : S} {id : String} {k : Kind} {res : Reg × Option AddErr}
    (h : finishNew s id k res = (s', "ok")) : res.2 = none ∧ s'.reg = res.1 := by
  unfold finishNew at h
  split at h
  · injection h with h1 _; subst h1; exact ⟨rfl, rfl⟩
  · rename_i r e
    injection h with _ h2
    cases e <;> simp [showErr] at h2


/-- what the working tree declares at the eight handle-level call sites -/
theorem handle_sites :
    permittedAt popFile "view.get" = some readerStates ∧ permittedAt popFile "view.update" = some writerStates ∧
    permittedAt rndFile "stream.get_draw" = some readerStates ∧
    permittedAt rndFile "stream.filter_for_probability" = some readerStates ∧
    permittedAt rndFile "stream.filter_for_rate" = some readerStates ∧ permittedAt rndFile "stream.choice" = some readerStates ∧
    permittedAt valFile "pipeline._call" = some readerStates ∧ permittedAt lkpFile "table.call" = some readerStates := by decide

/-- the two replies differ (used to discard the refused branch) -/
theorem not_ok_refused : ("refused" : String) ≠ "ok" := by decide

/-- a view from `get_view` (any route, any admitted state, any component): `get` carries the readers' list,
`update` the writers' -/
theorem new_view_finds {s s' : S} {id : String} (h : newView s id = (s', "ok")) (fresh : ∀ e ∈ s.reg, e.obj ≠ id) :
    find s'.reg id "get" = some ⟨id, id, "get", readerStates⟩ ∧
    find s'.reg id "update" = some ⟨id, id, "update", writerStates⟩ := by
  unfold newView at h
  split at h
  · injection h with _ h2; exact absurd h2 not_ok_refused
  · obtain ⟨h1, h2⟩ := finishNew_ok h
    have hf : fwAdds s.reg id popFile [("get", "view.get"), ("update", "view.update")] = (s'.reg, none) := by
      rw [h2, ← h1]
    have hfree : ∀ e ∈ s.reg, e.obj = id → e.method ∉ ([("get", "view.get"), ("update", "view.update")].map Prod.fst) :=
      fun e he ho => absurd ho (fresh e he)
    have R := fwAdds_rule id popFile _ _ _ hf hfree (by decide)
    exact ⟨R "get" "view.get" (by simp) _ handle_sites.1, R "update" "view.update" (by simp) _ handle_sites.2.1⟩

/-- a stream from `get_randomness_stream` (ordinary or CRN-initialising, any route): all four wrappers carry the readers' list -/
theorem new_stream_finds {s s' : S} {id : String} (h : newStream s id = (s', "ok")) (fresh : ∀ e ∈ s.reg, e.obj ≠ id) :
    ∀ m ∈ ["get_draw", "filter_for_probability", "filter_for_rate", "choice"],
      find s'.reg id m = some ⟨id, id, m, readerStates⟩ := by
  unfold newStream at h
  split at h
  · injection h with _ h2; exact absurd h2 not_ok_refused
  · obtain ⟨h1, h2⟩ := finishNew_ok h
    have hf : fwAdds s.reg id rndFile [("get_draw", "stream.get_draw"), ("filter_for_probability", "stream.filter_for_probability"),
        ("filter_for_rate", "stream.filter_for_rate"), ("choice", "stream.choice")] = (s'.reg, none) := by
      rw [h2, ← h1]
    have hfree : ∀ e ∈ s.reg, e.obj = id → e.method ∉ ([("get_draw", "stream.get_draw"),
        ("filter_for_probability", "stream.filter_for_probability"), ("filter_for_rate", "stream.filter_for_rate"),
        ("choice", "stream.choice")].map Prod.fst) := fun e he ho => absurd ho (fresh e he)
    have R := fwAdds_rule id rndFile _ _ _ hf hfree (by decide)
    obtain ⟨-, -, k1, k2, k3, k4, -, -⟩ := handle_sites
    intro m hm
    simp only [List.mem_cons, List.not_mem_nil, or_false] at hm
    rcases hm with rfl | rfl | rfl | rfl
    · exact R _ "stream.get_draw" (by simp) _ k1
    · exact R _ "stream.filter_for_probability" (by simp) _ k2
    · exact R _ "stream.filter_for_rate" (by simp) _ k3
    · exact R _ "stream.choice" (by simp) _ k4

/-- every way through a stream (nested constrained calls, the empty-population shortcut, `sample_from_distribution`)
ends in the readers' rule -/
theorem stream_chain_rule {r : Reg} {id : String}
    (hf : ∀ m ∈ ["get_draw", "filter_for_probability", "filter_for_rate", "choice"], find r id m = some ⟨id, id, m, readerStates⟩)
    (m : String) (hm : m ∈ ["get_draw", "filter_for_probability", "filter_for_rate", "choice", "sample_from_distribution"])
    (empty : Bool) (st : String) :
    ((streamChain m empty).all fun x => verdict r id x st) = readerStates.contains st := by
  have v : ∀ x ∈ ["get_draw", "filter_for_probability", "filter_for_rate", "choice"], verdict r id x st = readerStates.contains st := by
    intro x hx
    unfold verdict
    rw [hf x hx]
  have v1 := v "get_draw" (by simp)
  have v2 := v "filter_for_probability" (by simp)
  have v3 := v "filter_for_rate" (by simp)
  have v4 := v "choice" (by simp)
  simp only [List.mem_cons, List.not_mem_nil, or_false] at hm
  rcases hm with rfl | rfl | rfl | rfl | rfl <;> cases empty <;>
    simp [streamChain, v1, v2, v3, v4]


/-- a lookup table from `build_table` (scalar kinds): `call` carries the readers' list -/
theorem new_scalar_table_finds {s s' : S} {id : String} (h : newTable s id false = (s', "ok"))
    (fresh : ∀ e ∈ s.reg, e.obj ≠ id) : find s'.reg id "call" = some ⟨id, id, "call", readerStates⟩ := by
  unfold newTable at h
  split at h
  · injection h with _ h2; exact absurd h2 not_ok_refused
  · simp only [Bool.false_eq_true, ↓reduceIte] at h
    split at h
    · rename_i hh; simp at hh
    · obtain ⟨h1, h2⟩ := finishNew_ok h
      have hf : fwAdds s.reg id lkpFile [("call", "table.call")] = (s'.reg, none) := by rw [h2, ← h1]
      exact fwAdds_rule id lkpFile _ _ _ hf (fun e he ho => absurd ho (fresh e he)) (by decide) "call" "table.call" (by simp) _
        handle_sites.2.2.2.2.2.2.2

/-- `get_value` touches neither the registry, nor the state, nor the sources -/
theorem getValue_keeps (s : S) (n : String) :
    (getValue s n).1.reg = s.reg ∧ (getValue s n).1.st = s.st ∧ (getValue s n).1.sourced = s.sourced := by
  unfold getValue; split <;> exact ⟨rfl, rfl, rfl⟩

/-- `register_value_producer`: the pipeline object of that name gets its source and the readers' list on `_call` -/
theorem producer_finds {s s' : S} {n : String} (h : registerProducer s n = (s', "ok")) (hnew : find s.reg n "_call" = none) :
    find s'.reg n "_call" = some ⟨n, n, "_call", readerStates⟩ ∧ s'.sourced.contains n = true := by
  unfold registerProducer at h
  obtain ⟨g1, -, g3⟩ := getValue_keeps s n
  split at h
  · injection h with _ h2; exact absurd h2 not_ok_refused
  · split at h
    · injection h with _ h2; exact absurd h2 (by decide)
    · simp only at h
      split at h
      · rename_i r hr
        injection h with h1 _
        subst h1
        rw [g1] at hr
        exact ⟨fwAdd_rule hr hnew handle_sites.2.2.2.2.2.2.1, by simp [g3]⟩
      · rename_i e _
        injection h with _ h2
        cases e <;> simp [showErr] at h2

/-- fetching a pipeline twice is fetching it once -/
theorem getValue_idem (s : S) (n : String) : (getValue (getValue s n).1 n).1 = (getValue s n).1 := by
  unfold getValue
  split
  · rename_i h; simp
  · rename_i h
    have : (kindOf { s with handles := s.handles ++ [(n, Kind.pipe)] } n).isSome = true := by
      unfold kindOf
      simp only [List.find?_append]
      cases hh : List.find? (fun x => x.1 == n) s.handles <;> simp [List.find?]
    simp [this]

/-- a pipeline fetched with `get_value` BEFORE its source is registered is the object that `register_value_producer`
constrains: fetching first changes neither the registry, nor the source, nor the reply -/
theorem get_value_first_same (s : S) (n : String) :
    (registerProducer (getValue s n).1 n).1.reg = (registerProducer s n).1.reg ∧
    (registerProducer (getValue s n).1 n).1.sourced = (registerProducer s n).1.sourced ∧
    (registerProducer (getValue s n).1 n).2 = (registerProducer s n).2 := by
  obtain ⟨g1, g2, g3⟩ := getValue_keeps s n
  have hsvc : svcAdmitted (getValue s n).1 valFile "self.register_value_producer" =
      svcAdmitted s valFile "self.register_value_producer" := by simp [svcAdmitted, g1, g2]
  unfold registerProducer
  rw [hsvc, g3, getValue_idem]
  split
  · exact ⟨g1, g3, rfl⟩
  · split
    · exact ⟨g1, g3, rfl⟩
    · exact ⟨rfl, rfl, rfl⟩

/-- a pipeline that never got a source carries no constraint: it is "refused" by `DynamicValueError`, in every state -/
theorem unsourced_pipeline {s : S} {n : String} (hk : kindOf s n = some .pipe) (hs : s.sourced.contains n = false)
    (hc : find s.reg n "_call" = none) : pcall s n = "nosource" := by
  unfold pcall verdict
  have hs' : n ∉ s.sourced := by simpa using hs
  simp [hk, hs', hc]

/-- **F10 in model form**: a sub-view is created without any wrapper, so every call through it is admitted in every
state - reads in `setup` / `post_setup`, updates in `simulation_end` / `report` included -/
theorem subview_unconstrained {s s' : S} {id p : String} (h : newSubview s id p = (s', "ok"))
    (fresh : ∀ e ∈ s.reg, e.obj ≠ id) (m st : String) : verdict s'.reg id m st = true := by
  unfold newSubview at h
  split at h
  · injection h with _ h2; exact absurd h2 (by decide)
  · injection h with h1 _
    subst h1
    unfold verdict
    rw [find_none_of_fresh fresh]

def shows (b : Bool) : String := if b then "admitted" else "refused"

/-- a table and its inner view are different objects -/
theorem view_suffix_ne (id : String) : id ++ ".view" ≠ id := by
  intro h
  have := congrArg String.length h
  simp [String.length_append] at this

/-- `get_view` adds entries for the new view only -/
theorem newView_entries (s : S) (id : String) : ∀ e ∈ (newView s id).1.reg, e ∈ s.reg ∨ e.obj = id := by
  unfold newView
  split
  · intro e he; exact Or.inl he
  · rw [finishNew_reg]
    -- two framework call sites, both for the object `id`
    unfold fwAdds
    split
    · rename_i r1 h1
      unfold fwAdds
      split
      · rename_i r2 h2
        intro e he
        simp only [fwAdds] at he
        rcases fwAdd_entries h2 e he with h | ⟨h, _⟩
        · rcases fwAdd_entries h1 e h with h' | ⟨h', _⟩
          · exact Or.inl h'
          · exact Or.inr h'
        · exact Or.inr h
      · intro e he
        rcases fwAdd_entries h1 e he with h' | ⟨h', _⟩
        · exact Or.inl h'
        · exact Or.inr h'
    · intro e he; exact Or.inl he

/-- keyed / interpolated lookup tables read through a population view of their own (fetched inside `build_table`):
both wrappers on the way carry the readers' list, so the call follows the readers' rule -/
theorem new_keyed_table_finds {s s' : S} {id : String} (h : newTable s id true = (s', "ok"))
    (fresh : ∀ e ∈ s.reg, e.obj ≠ id ∧ e.obj ≠ id ++ ".view") :
    find s'.reg id "call" = some ⟨id, id, "call", readerStates⟩ ∧
    find s'.reg (id ++ ".view") "get" = some ⟨id ++ ".view", id ++ ".view", "get", readerStates⟩ := by
  unfold newTable at h
  split at h
  · injection h with _ h2; exact absurd h2 not_ok_refused
  · simp only [↓reduceIte] at h
    split at h
    · rename_i hne
      injection h with _ h2
      rw [h2] at hne
      simp at hne
    · rename_i hok
      have hv : (newView s (id ++ ".view")).2 = "ok" := by simpa using hok
      have hview : newView s (id ++ ".view") = ((newView s (id ++ ".view")).1, "ok") := by rw [← hv]
      obtain ⟨g1, -⟩ := new_view_finds hview (fun e he => (fresh e he).2)
      obtain ⟨h1, h2⟩ := finishNew_ok h
      have hfresh1 : ∀ e ∈ (newView s (id ++ ".view")).1.reg, e.obj ≠ id := by
        intro e he
        rcases newView_entries s (id ++ ".view") e he with h' | h'
        · exact (fresh e h').1
        · rw [h']; exact view_suffix_ne id

      have hf : fwAdds (newView s (id ++ ".view")).1.reg id lkpFile [("call", "table.call")] = (s'.reg, none) := by
        rw [h2, ← h1]
      have c1 := fwAdds_rule id lkpFile _ _ _ hf (fun e he ho => absurd ho (hfresh1 e he)) (by decide) "call" "table.call" (by simp) _
        handle_sites.2.2.2.2.2.2.2
      obtain ⟨l, hl⟩ := fwAdds_grows id lkpFile [("call", "table.call")] (newView s (id ++ ".view")).1.reg
      rw [hf] at hl
      simp only at hl
      exact ⟨c1, by rw [hl]; exact find_append_stable g1 l⟩

/-- the reply of a call through a view (incl. sub-views) is the wrapper's verdict in the current state -/
theorem call_of_view {s : S} {o m : String} (e : Bool) (hk : kindOf s o = some .view) :
    Viv.Svc.call s o m e = shows (verdict s.reg o m s.st) := by
  unfold Viv.Svc.call callVerdict callChain shows
  simp [hk]


/-! ### E. … and keeps it, whatever happens afterwards -/

/-- for handles obtained at any point by any component (any admitted state, any earlier history `s`), after ANY later
history `ops`: view reads follow the readers' rule and view updates the writers' rule in every state -/
theorem view_rule_forever {s s' : S} {id : String} (h : newView s id = (s', "ok")) (fresh : ∀ e ∈ s.reg, e.obj ≠ id)
    (ops : List Op) (st : String) :
    verdict (Viv.Svc.run s' ops).reg id "get" st = readerStates.contains st ∧
    verdict (Viv.Svc.run s' ops).reg id "update" st = writerStates.contains st := by
  obtain ⟨h1, h2⟩ := new_view_finds h fresh
  exact ⟨verdict_stable h1 ops st, verdict_stable h2 ops st⟩

/-- every route through a stream obtained at any point follows the readers' rule in every state after any later history -/
theorem stream_rule_forever {s s' : S} {id : String} (h : newStream s id = (s', "ok")) (fresh : ∀ e ∈ s.reg, e.obj ≠ id)
    (ops : List Op) (m : String)
    (hm : m ∈ ["get_draw", "filter_for_probability", "filter_for_rate", "choice", "sample_from_distribution"])
    (empty : Bool) (st : String) :
    ((streamChain m empty).all fun x => verdict (Viv.Svc.run s' ops).reg id x st) = readerStates.contains st := by
  have hf := new_stream_finds h fresh
  obtain ⟨l, hl⟩ := run_grows ops s'
  apply stream_chain_rule _ m hm
  intro x hx
  rw [hl]
  exact find_append_stable (hf x hx) l

/-- a sourced pipeline follows the readers' rule in every state after any later history -/
theorem pipeline_rule_forever {s s' : S} {n : String} (h : registerProducer s n = (s', "ok"))
    (hnew : find s.reg n "_call" = none) (ops : List Op) (st : String) :
    verdict (Viv.Svc.run s' ops).reg n "_call" st = readerStates.contains st :=
  verdict_stable (producer_finds h hnew).1 ops st

/-- a scalar lookup table follows the readers' rule in every state after any later history -/
theorem table_rule_forever {s s' : S} {id : String} (h : newTable s id false = (s', "ok"))
    (fresh : ∀ e ∈ s.reg, e.obj ≠ id) (ops : List Op) (st : String) :
    verdict (Viv.Svc.run s' ops).reg id "call" st = readerStates.contains st :=
  verdict_stable (new_scalar_table_finds h fresh) ops st

/-- a keyed / interpolated lookup table (its own wrapper and its inner view's) follows the readers' rule in every state after any later history -/
theorem keyed_table_rule_forever {s s' : S} {id : String} (h : newTable s id true = (s', "ok"))
    (fresh : ∀ e ∈ s.reg, e.obj ≠ id ∧ e.obj ≠ id ++ ".view") (ops : List Op) (st : String) :
    (verdict (Viv.Svc.run s' ops).reg id "call" st && verdict (Viv.Svc.run s' ops).reg (id ++ ".view") "get" st) =
      readerStates.contains st := by
  obtain ⟨h1, h2⟩ := new_keyed_table_finds h fresh
  rw [verdict_stable h1 ops st, verdict_stable h2 ops st]
  simp

/-- the manager-level services (registration, `register_simulants`, the context's `get_population`) are constrained
when the managers are set up and stay so: no later operation changes their verdict -/
theorem manager_services_forever (file target : String) (e : Entry) (h : find boot file target = some e)
    (ops : List Op) (st : String) : verdict (Viv.Svc.run ({} : S) ops).reg file target st = e.perm.contains st :=
  verdict_stable (s := ({} : S)) h ops st


/-! ### E'. the simulant creator (constrained since F35) -/

/-- the wrapper on the creator exists once the managers are set up, with the writers' list -/
theorem creator_constrained_at_boot :
    find boot popFile "self._create_simulants" = some ⟨popFile, popFile, "self._create_simulants", writerStates⟩ := by decide

/-- **the creator for ever**: whatever handles were obtained, constraints added or attempted, calls made (admitted, refused,
failing) and states passed since the managers were set up, the creator - through every route, they all reach the one re-bound
attribute - is admitted exactly in the writers' states … -/
theorem creator_rule_forever (ops : List Op) (st : String) :
    verdict (Viv.Svc.run ({} : S) ops).reg popFile "self._create_simulants" st = writerStates.contains st := by
  rw [verdict_stable (s := ({} : S)) creator_constrained_at_boot ops st]

/-- … that is, among the declared states it is refused exactly in initialization, setup, post_setup, simulation_end and report -/
theorem creator_refused_exactly (ops : List Op) (st : String) (hst : st ∈ states) :
    verdict (Viv.Svc.run ({} : S) ops).reg popFile "self._create_simulants" st = false ↔
      st ∈ ["initialization", "setup", "post_setup", "simulation_end", "report"] := by
  rw [creator_rule_forever]
  have hs : st ∈ ["initialization", "setup", "post_setup", "population_creation", "time_step__prepare", "time_step",
      "time_step__cleanup", "collect_metrics", "simulation_end", "report"] := by
    have : states = ["initialization", "setup", "post_setup", "population_creation", "time_step__prepare", "time_step",
      "time_step__cleanup", "collect_metrics", "simulation_end", "report"] := by decide
    rw [← this]; exact hst
  simp only [List.mem_cons, List.not_mem_nil, or_false] at hs
  rcases hs with rfl | rfl | rfl | rfl | rfl | rfl | rfl | rfl | rfl | rfl <;> decide

/-- in any model state: a creator call that the wrapper refuses returns the state unchanged -/
theorem create_refused {s : S} (count : Nat) (h : verdict s.reg popFile "self._create_simulants" s.st = false) :
    exec s (.create count) = (s, "refused") := by
  simp [exec, createSimulants, svcAdmitted, h]

/-- in any model state: a creator call that the wrapper admits adds the rows and touches nothing else -/
theorem create_admitted {s : S} (count : Nat) (h : verdict s.reg popFile "self._create_simulants" s.st = true) :
    exec s (.create count) = ({ s with pop := s.pop + count }, "admitted") := by
  simp [exec, createSimulants, svcAdmitted, h]

/-- **a refused creator call changes nothing** (the wrapper answers before `_create_simulants` extends the state table) -
after any history, in any state outside the writers' states, for any count -/
theorem creator_refused_changes_nothing (ops : List Op) (st : String) (count : Nat)
    (hst : writerStates.contains st = false) :
    exec { Viv.Svc.run ({} : S) ops with st := st } (.create count) = ({ Viv.Svc.run ({} : S) ops with st := st }, "refused") :=
  create_refused count (by show verdict _ _ _ st = false; rw [creator_rule_forever ops st, hst])

/-- … and an admitted one adds exactly `count` rows and nothing else -/
theorem creator_admitted_adds_rows (ops : List Op) (st : String) (count : Nat) (hst : writerStates.contains st = true) :
    exec { Viv.Svc.run ({} : S) ops with st := st } (.create count) =
      ({ Viv.Svc.run ({} : S) ops with st := st, pop := (Viv.Svc.run ({} : S) ops).pop + count }, "admitted") :=
  create_admitted count (by show verdict _ _ _ st = true; rw [creator_rule_forever ops st, hst])

/-! ### F. the managers' own services on the stateful model, and a whole program -/

/-- the wrappers that exist once the managers are set up are exactly what the table declares, in every state -/
theorem boot_matches_table :
    (Viv.Gen.constraints.all fun e => handleTargets.contains e.method ||
      states.all fun st => verdict boot e.file e.method st == (permitted e).contains st) = true := by decide

/-- registration services: `setup` only; `register_simulants` and the simulant creator: the writers' rule; the context's `get_population`
(also what `InteractiveContext.get_population` is re-bound over): the readers' rule -/
theorem boot_services_rule :
    (states.all fun st =>
      (registrationServices.all fun (f, m) => verdict boot f m st == (st == "setup")) &&
      verdict boot rndFile "self.register_simulants" st == writerStates.contains st &&
      verdict boot popFile "self._create_simulants" st == writerStates.contains st &&
      verdict boot "framework/engine.py" "self.get_population" st == readerStates.contains st) = true := by decide

/-- non-vacuity: a whole program - a pipeline fetched before its source exists, a view, a sub-view, a stream, keyed and
scalar tables, two user objects that share a name, an attempt to widen `view.get` - and the verdict of every kind of
call in every state -/
def demo : List Op :=
  [.st "setup", .value "w", .view "v", .subview "sv" "v", .stream "s", .producer "w", .table "t" true, .table "u" false,
   .obj "h", .obj "h2", .add "h" "nm" "m" true ["time_step"] [], .add "h2" "nm" "m" true ["report"] [],
   .add "v" "v" "get" true states [], .value "nosrc"]

set_option maxRecDepth 4000 in
example : (states.all fun st =>
    let s := { Viv.Svc.run ({} : S) demo with st := st }
    call s "v" "get" false == shows (readerStates.contains st) &&
    call s "v" "update" false == shows (writerStates.contains st) &&
    call s "sv" "get" false == "admitted" && call s "sv" "update" true == "admitted" &&
    call s "s" "filter_for_rate" false == shows (readerStates.contains st) &&
    call s "s" "sample_from_distribution" true == shows (readerStates.contains st) &&
    call s "t" "call" false == shows (readerStates.contains st) &&
    call s "u" "call" false == shows (readerStates.contains st) &&
    pcall s "w" == shows (readerStates.contains st) &&
    pcall s "nosrc" == "nosource" &&
    call s "h" "m" false == shows (st == "time_step") &&
    call s "h2" "m" false == "admitted" &&
    call s "zz" "m" false == "bad-op") = true := by decide

set_option maxRecDepth 4000 in
example :
    (exec (Viv.Svc.run ({} : S) demo) (.add "v" "v" "get" true states [])).2 = "err:constraint" ∧
    (exec (Viv.Svc.run ({} : S) demo) (.add "h2" "nm" "m" true ["report"] [])).2 = "err:constraint" ∧
    (exec (Viv.Svc.run ({} : S) demo) (.add "h2" "nm" "m2" true [] ["report", "nope"])).2 = "err:lifecycle" ∧
    (exec (Viv.Svc.run ({} : S) demo) (.add "sv" "sv" "get" true [] ["setup", "post_setup"])).2 = "ok" ∧
    (exec { Viv.Svc.run ({} : S) demo with st := "post_setup" } (.stream "late")).2 = "refused" ∧
    (exec { Viv.Svc.run ({} : S) demo with st := "post_setup" } (.view "late")).2 = "ok" := by decide

-- non-vacuity: the table is not empty and the three classes are all present in it
example : Viv.Gen.constraints.length ≥ 16 := by decide
example : permittedAt "framework/population/manager.py" "view.update" =
    some ["population_creation", "time_step__prepare", "time_step", "time_step__cleanup", "collect_metrics"] := by decide

end Viv.Props.C07
