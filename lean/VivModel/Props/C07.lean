import VivModel.Model.Context
/-! C07 — framework services are available exactly in the states that make sense.

The quantifier is the finite service × lifecycle-state matrix; the constraint table is regenerated
from every `add_constraint` call site of the working tree (`Viv.Gen.constraints`), so each theorem
is re-decided against what the code says now. -/
namespace Viv.Props.C07
open Viv.LC Viv.Ctx Viv.Gen

def registrationServices : List (String × String) :=
  [("framework/event.py", "self.register_listener"),
   ("framework/values.py", "self.register_value_producer"),
   ("framework/values.py", "self.register_value_modifier"),
   ("framework/population/manager.py", "self.register_simulant_initializer"),
   ("framework/population/manager.py", "self.get_simulant_creator"),
   ("framework/randomness/manager.py", "self.get_randomness_stream"),
   ("framework/lookup/manager.py", "self.build_table")]

def readerServices : List (String × String) :=
  [("framework/population/manager.py", "view.get"),
   ("framework/values.py", "pipeline._call"),
   ("framework/randomness/manager.py", "stream.get_draw"),
   ("framework/randomness/manager.py", "stream.filter_for_probability"),
   ("framework/randomness/manager.py", "stream.filter_for_rate"),
   ("framework/randomness/manager.py", "stream.choice"),
   ("framework/lookup/manager.py", "table.call")]

def writerServices : List (String × String) :=
  [("framework/population/manager.py", "view.update"),
   ("framework/randomness/manager.py", "self.register_simulants")]

/-- every state named in a constraint is a declared lifecycle state (otherwise `add_constraint` raises) -/
theorem table_states_known :
    (Viv.Gen.constraints.all fun e => e.states.all fun s => states.contains s) = true := by decide

/-- no (file, method) pair is constrained at two call sites with different state lists -/
theorem table_sites_consistent :
    (Viv.Gen.constraints.all fun e => Viv.Gen.constraints.all fun e' =>
      !(e.file == e'.file && e.method == e'.method) || permitted e == permitted e') = true := by decide

/-- builder registration services work during `setup` and in no other state -/
theorem registration_only_setup :
    (registrationServices.all fun (f, m) => permittedAt f m == some ["setup"]) = true := by decide

/-- services that read simulation state are refused exactly in initialization, setup and post_setup -/
theorem readers_from_creation :
    (readerServices.all fun (f, m) =>
      permittedAt f m == some ["population_creation", "time_step__prepare", "time_step", "time_step__cleanup",
                               "collect_metrics", "simulation_end", "report"]) = true := by decide

/-- services that change simulation state are in addition refused once the simulation has ended -/
theorem writers_until_end :
    (writerServices.all fun (f, m) =>
      permittedAt f m == some ["population_creation", "time_step__prepare", "time_step", "time_step__cleanup",
                               "collect_metrics"]) = true := by decide

/-- the full service × state matrix in one statement: admitted ⇔ the property's rule for the class -/
theorem matrix :
    (states.all fun st =>
      (registrationServices.all fun (f, m) => ((permittedAt f m).any (·.contains st)) == (st == "setup")) &&
      (readerServices.all fun (f, m) => ((permittedAt f m).any (·.contains st)) ==
          !(["initialization", "setup", "post_setup"].contains st)) &&
      (writerServices.all fun (f, m) => ((permittedAt f m).any (·.contains st)) ==
          !(["initialization", "setup", "post_setup", "simulation_end", "report"].contains st))) = true := by decide

/-- `restrict_during` is complemented against the declared states: for every table entry and every
state, permitted ⇔ (allow-list contains it) resp. (restrict-list does not). -/
theorem restrict_is_complement :
    (Viv.Gen.constraints.all fun e => states.all fun st =>
      (permitted e).contains st == (match e.mode with
        | .allow => e.states.contains st
        | .restrict => !e.states.contains st)) = true := by decide

/-- model of the `ConstraintMaker` wrapper: the verdict is a function of the state at call time only
(no memory of the state in which the handle was obtained). -/
theorem wrapper_checks_current_state (m st : String) :
    admitted m st = match permittedOf m with
      | some ss => ss.contains st
      | none => true := rfl

/-- emitters are constrained to their own event's state by a run-time list at exactly one site -/
theorem emit_constrained_dynamically :
    Viv.Gen.dynamicConstraints.map (fun e => (e.1, e.2.2.1, e.2.2.2.1, e.2.2.2.2)) =
      [("framework/event.py", "channel.emit", .allow, "[name]")] := by decide

-- non-vacuity: the table is not empty and the three classes are all present in it
example : Viv.Gen.constraints.length ≥ 16 := by decide
example : permittedAt "framework/population/manager.py" "view.update" =
    some ["population_creation", "time_step__prepare", "time_step", "time_step__cleanup", "collect_metrics"] := by decide

end Viv.Props.C07
