import VivModel.Model.Lifecycle
import VivModel.Gen.Src
import VivModel.Lemmas.PyAst
import VivModel.Lemmas.PyState
/-! C07, source tie: the Python sources of `ConstraintMaker.check_valid_state` and of the closure `_wrapped` that
`constrain_normal_method` puts in the place of every constrained service (`Gen/Src.lean`, regenerated from the tree under
test on every run; the closure's free variables `self`, `method`, `permitted_states` are locals of the translation)
evaluated by `Py.evalBlock`: in a permitted state the service itself is called exactly once with the caller's own
arguments and its result handed back; in any other state `ConstraintError` is raised BEFORE the service is touched. The
wrapper is evaluated with NO state of its own (only the lifecycle's current state and the service's call counter are
state), so nothing a previous call did - a service that raised, a nested call - can change the verdict of the next one:
a "currently validated" marker as in seeded C07-5 has nowhere to live and breaks the obligation. Which states each
service is permitted in is the generated table `Gen.constraints` (C07 `verdict_*`). -/
namespace Viv.Props.C07Src
open Viv.Py

/-- the Python objects the constraint wrapper touches -/
inductive CVv where
  | none | bool (b : Bool) | int (i : Int) | str (s : String)
  | self | manager | method | func | args | kwargs | checkFn
  /-- a lifecycle state, by name -/
  | state (s : String)
  | states (ss : List String)
  | result (r : Nat)
  | list (vs : List CVv)

/-- state: the lifecycle's current state and the log of calls of the constrained service that got through -/
structure St where
  cur : String
  calls : Nat

abbrev M := SM St

def cGetAttr : CVv → String → M CVv
  | .self, a =>
    if a == "lifecycle_manager" then pure .manager
    else if a == "check_valid_state" then pure .checkFn
    else throw "AttributeError"
  | .manager, a => if a == "current_state" then do let st ← (get : M St); pure (.state st.cur) else throw "AttributeError"
  | .method, a => if a == "__func__" then pure .func else throw "AttributeError"
  | _, _ => throw "AttributeError"

/-- `service n` = what the constrained service returns on its `n`-th admitted call; `checker` = what
`self.check_valid_state(method, permitted)` does (a call into the translated `check_valid_state`) -/
def cworldWith (service : Nat → Nat) (checker : List String → M CVv) : World M CVv where
  none := .none
  bool := .bool
  int := .int
  str := .str
  list := .list
  newList vs := pure (.list vs)
  tuple := .list
  global _ := throw "NameError"
  truthy
    | .none => pure false
    | .bool b => pure b
    | _ => pure true
  getAttr := cGetAttr
  setAttr _ _ _ := throw "AttributeError"
  call f args kws := match f, args, kws with
    | .checkFn, [.method, .states ps], [] => checker ps
    | .func, [.args], [(_, .kwargs)] => do
      let st ← (get : M St)
      set { st with calls := st.calls + 1 }
      pure (.result (service st.calls))
    | _, _, _ => throw "TypeError"
  cmp op l r := match l, r with
    | .state s, .states ps =>
      if op == "NotIn" then pure (.bool (!ps.contains s)) else if op == "In" then pure (.bool (ps.contains s)) else throw "TypeError"
    | _, _ => throw "TypeError"
  bin _ _ _ := throw "TypeError"
  neg _ := throw "TypeError"
  sub _ _ := throw "TypeError"
  slice _ _ := .none
  setItem _ _ _ := throw "TypeError"
  iter _ := throw "TypeError"
  unstar
    | .args => pure [.args]
    | _ => throw "TypeError"
  format _ := pure (.str "")
  concat _ := pure (.str "")
  dict _ := throw "TypeError"
  whileLoop _ _ _ := throw "Unsupported"
  other _ := throw "Unsupported"
  throw cls := throw cls
  rethrow := throw "reraise"
  catchAll body handler := tryCatch body (fun _ => handler)
  catchCls cls body handler := tryCatch body (fun e => if e == cls then handler else throw e)

def cworld0 (service : Nat → Nat) : World M CVv := cworldWith service fun _ => throw "TypeError"

/-- `ConstraintMaker.check_valid_state(method, permitted)`: `ConstraintError` iff the current state is not permitted;
nothing is changed either way -/
theorem check_refines (service : Nat → Nat) (permitted : List String) (st : St) :
    runM (Gen.Src.constraintCheck.run (cworld0 service) [("self", .self), ("method", .method), ("permitted_states", .states permitted)]) st
      = (if st.cur ∈ permitted then .ok CVv.none else .error "ConstraintError", st) := by
  rw [runM_func]
  simp only [Gen.Src.constraintCheck]
  by_cases h : st.cur ∈ permitted
  · repeat pystep [cworld0, cworldWith, cGetAttr, h]
    simp [h, cworld0, cworldWith]
  · repeat pystep [cworld0, cworldWith, cGetAttr, h]
    simp [h]

/-- the full world: the wrapper's `self.check_valid_state(...)` is a call into the translated check -/
def cworld (service : Nat → Nat) : World M CVv :=
  cworldWith service fun ps =>
    Gen.Src.constraintCheck.run (cworld0 service) [("self", .self), ("method", .method), ("permitted_states", .states ps)]

/-- the wrapper every constrained service is replaced by: in a permitted state the service itself is called exactly
once, with the caller's own arguments, and its result handed back; in any other state `ConstraintError` is raised BEFORE
the service is touched (no call is made, nothing changes) - in every state, at every call, whatever happened before -/
theorem wrapped_refines (service : Nat → Nat) (permitted : List String) (st : St) :
    runM (Gen.Src.constraintWrapped.run (cworld service)
        [("self", .self), ("method", .method), ("permitted_states", .states permitted), ("args", .args), ("kwargs", .kwargs)]) st
      = if st.cur ∈ permitted then (.ok (CVv.result (service st.calls)), { st with calls := st.calls + 1 })
        else (.error "ConstraintError", st) := by
  rw [runM_func]
  simp only [Gen.Src.constraintWrapped]
  have hchk : ∀ s, runM (Gen.Src.constraintCheck.run (cworld0 service)
      [("self", .self), ("method", .method), ("permitted_states", .states permitted)]) s
      = (if s.cur ∈ permitted then .ok CVv.none else .error "ConstraintError", s) := check_refines service permitted
  by_cases h : st.cur ∈ permitted
  · repeat pystep [cworld, cworldWith, cGetAttr, hchk, h]
    simp [h]
  · repeat pystep [cworld, cworldWith, cGetAttr, hchk, h]
    simp [h]

end Viv.Props.C07Src
