import VivModel.Model.Events
/-! C08 — each step emits its four events once, in order, to every listener by priority.

`emit_*`: for every registration list and bucket count (induction). `run_*`: for every start, stop and
positive step (integer clock). `step_*`, `fencepost`, `end_once`, `gen_*`: over the context-method
skeletons and event constants regenerated from `engine.py` / `event.py` on every run. -/
namespace Viv.Props.C08
open Viv.Ev Viv.Ctx

/-! ### delivery order -/

theorem filter_lt_succ_perm (regs : List Reg) (k : Nat) :
    (regs.filter (fun r => decide (r.1 < k + 1))).Perm
      (regs.filter (fun r => decide (r.1 < k)) ++ regs.filter (fun r => r.1 == k)) := by
  induction regs with
  | nil => simp
  | cons r rs ih =>
    by_cases h1 : r.1 < k
    · have a : decide (r.1 < k + 1) = true := by simp; omega
      have b : decide (r.1 < k) = true := by simp [h1]
      have c : (r.1 == k) = false := by simp; omega
      simp only [List.filter_cons, a, b, c, if_true, Bool.false_eq_true, if_false, List.cons_append]
      exact List.Perm.cons r ih
    · by_cases h3 : r.1 = k
      · have a : decide (r.1 < k + 1) = true := by simp; omega
        have b : decide (r.1 < k) = false := by simp; omega
        have c : (r.1 == k) = true := by simp [h3]
        simp only [List.filter_cons, a, b, c, if_true, Bool.false_eq_true, if_false]
        exact (List.Perm.cons r ih).trans List.perm_middle.symm
      · have a : decide (r.1 < k + 1) = false := by simp; omega
        have b : decide (r.1 < k) = false := by simp; omega
        have c : (r.1 == k) = false := by simp [h3]
        simp only [List.filter_cons, a, b, c, Bool.false_eq_true, if_false]
        exact ih

theorem pairwise_of_const (l : List Reg) (k : Nat) (h : ∀ a ∈ l, a.1 = k) :
    l.Pairwise (fun a b => a.1 ≤ b.1) := by
  induction l with
  | nil => exact List.Pairwise.nil
  | cons x xs ih =>
    refine List.Pairwise.cons (fun b hb => ?_) (ih (fun a ha => h a (List.mem_cons_of_mem _ ha)))
    rw [h x List.mem_cons_self, h b (List.mem_cons_of_mem _ hb)]; exact Nat.le_refl _

theorem emitOrder_succ (regs : List Reg) (k : Nat) :
    emitOrder (k + 1) regs = emitOrder k regs ++ regs.filter (fun r => r.1 == k) := by
  simp [emitOrder, List.range_succ, List.flatMap_append]

theorem emitOrder_perm_lt (regs : List Reg) (k : Nat) :
    (emitOrder k regs).Perm (regs.filter (fun r => decide (r.1 < k))) := by
  induction k with
  | zero => simp [emitOrder]
  | succ k ih =>
    rw [emitOrder_succ]
    exact (List.Perm.append_right _ ih).trans (filter_lt_succ_perm regs k).symm

/-- every listener registered with a priority below the bucket count is called exactly once: the call
list is a permutation of the registrations. -/
theorem emit_perm (nb : Nat) (regs : List Reg) (h : ∀ r ∈ regs, r.1 < nb) :
    (emitOrder nb regs).Perm regs := by
  have := emitOrder_perm_lt regs nb
  rwa [List.filter_eq_self.mpr (by intro r hr; simpa using h r hr)] at this

/-- … in non-decreasing priority order -/
theorem emit_sorted (nb : Nat) (regs : List Reg) :
    (emitOrder nb regs).Pairwise (fun a b => a.1 ≤ b.1) := by
  induction nb with
  | zero => simp [emitOrder]
  | succ k ih =>
    rw [emitOrder_succ, List.pairwise_append]
    refine ⟨ih, ?_, ?_⟩
    · exact pairwise_of_const _ k (fun a ha => by simpa using (List.mem_filter.mp ha).2)
    · intro a ha b hb
      have ha' := (emitOrder_perm_lt regs k).subset ha
      simp only [List.mem_filter, decide_eq_true_eq, beq_iff_eq] at ha' hb
      omega

/-- … and registration order is kept inside one priority level -/
theorem emit_stable (nb : Nat) (regs : List Reg) (p : Nat) (hp : p < nb) :
    (emitOrder nb regs).filter (fun r => r.1 == p) = regs.filter (fun r => r.1 == p) := by
  induction nb with
  | zero => omega
  | succ k ih =>
    rw [emitOrder_succ, List.filter_append]
    by_cases hk : p < k
    · rw [ih hk]
      have : (regs.filter (fun r => r.1 == k)).filter (fun r => r.1 == p) = [] := by
        rw [List.filter_filter, List.filter_eq_nil_iff]
        intro a _; simp; omega
      rw [this, List.append_nil]
    · have hpk : p = k := by omega
      subst hpk
      have : (emitOrder p regs).filter (fun r => r.1 == p) = [] := by
        rw [List.filter_eq_nil_iff]
        intro a ha
        have := (emitOrder_perm_lt regs p).subset ha
        simp only [List.mem_filter, decide_eq_true_eq] at this
        simp; omega
      rw [this, List.nil_append, List.filter_filter]
      congr 1; funext r; simp

/-- every listener call carries `time = clock + step` and `step_size = step`, on its own channel -/
theorem deliver_fields (nb : Nat) (regs : List CReg) (ch : String) (clock step : Int) :
    ∀ c ∈ deliver nb regs ch clock step, c.ch = ch ∧ c.clock = clock ∧ c.time = clock + step ∧ c.step = step := by
  intro c hc
  simp only [deliver, List.mem_map] at hc
  obtain ⟨r, _, rfl⟩ := hc
  exact ⟨rfl, rfl, rfl, rfl⟩

/-- the listeners called for one emitted event are exactly the registrations on that channel, once each -/
theorem deliver_perm (nb : Nat) (regs : List CReg) (ch : String) (clock step : Int)
    (h : ∀ r ∈ regs, r.2.1 < nb) :
    ((deliver nb regs ch clock step).map (fun c => (c.prio, c.id))).Perm (onChannel regs ch) := by
  have : (deliver nb regs ch clock step).map (fun c => (c.prio, c.id)) = emitOrder nb (onChannel regs ch) := by
    simp [deliver, List.map_map, Function.comp_def]
  rw [this]
  apply emit_perm
  intro r hr
  simp only [onChannel, List.mem_map, List.mem_filter] at hr
  obtain ⟨cr, ⟨hm, _⟩, rfl⟩ := hr
  exact h cr hm

/-! ### the run loop -/

theorem takeSteps_eq (h : Int) (n : Nat) (t : Int) : takeSteps h n t = t + n * h := by
  induction n generalizing t with
  | zero => simp [takeSteps]
  | succ n ih => rw [takeSteps, ih, Int.natCast_succ, Int.add_mul, Int.one_mul]; omega

/-- if `n` is the first index with `t + n*h ≥ stop`, the loop takes exactly `n` steps -/
theorem runLoop_spec (stop h : Int) (n : Nat) :
    ∀ (fuel : Nat) (t : Int), n ≤ fuel → (∀ k : Nat, k < n → t + k * h < stop) → stop ≤ t + n * h →
      runLoop stop h fuel t = (n, t + n * h) := by
  induction n with
  | zero =>
    intro fuel t _ _ hge
    have : ¬ t < stop := by simp at hge; omega
    cases fuel with
    | zero => simp [runLoop]
    | succ f => simp [runLoop, this]
  | succ n ih =>
    intro fuel t hf hlt hge
    cases fuel with
    | zero => omega
    | succ f =>
      have h0 : t < stop := by have := hlt 0 (by omega); simpa using this
      have hrec := ih f (t + h) (by omega)
        (fun k hk => by
          have := hlt (k + 1) (by omega)
          rw [Int.natCast_succ, Int.add_mul, Int.one_mul] at this; omega)
        (by rw [Int.natCast_succ, Int.add_mul, Int.one_mul] at hge; omega)
      simp only [runLoop, h0, if_true, hrec]
      rw [Int.natCast_succ, Int.add_mul, Int.one_mul]
      congr 1; omega

/-- for `h > 0` and `start < stop`, `n = ⌈(stop-start)/h⌉` is that first index -/
theorem ceil_is_first (start stop h : Int) (hh : 0 < h) (hs : start < stop) :
    let n := (ceilDiv (stop - start) h).toNat
    (∀ k : Nat, k < n → start + k * h < stop) ∧ stop ≤ start + n * h := by
  intro n
  have hq : 0 ≤ (stop - start + h - 1) / h := Int.ediv_nonneg (by omega) (by omega)
  have hn : (n : Int) = (stop - start + h - 1) / h := Int.toNat_of_nonneg hq
  have h1 : (stop - start + h - 1) / h * h ≤ stop - start + h - 1 := Int.ediv_mul_le _ (by omega)
  have h2 : stop - start + h - 1 < ((stop - start + h - 1) / h + 1) * h := Int.lt_ediv_add_one_mul_self _ hh
  constructor
  · intro k hk
    have hk' : (k : Int) + 1 ≤ (stop - start + h - 1) / h := by omega
    have : ((k : Int) + 1) * h ≤ (stop - start + h - 1) / h * h := Int.mul_le_mul_of_nonneg_right hk' (by omega)
    rw [Int.add_mul, Int.one_mul] at this
    omega
  · rw [hn]
    rw [Int.add_mul, Int.one_mul] at h2
    omega

/-- `run()` from `start` takes exactly ⌈(stop-start)/h⌉ steps and ends on the clock `take_steps n`
reaches; that clock satisfies `stop ≤ t < stop + h`. -/
theorem run_steps_count (start stop h : Int) (hh : 0 < h) (hs : start < stop) (fuel : Nat)
    (hf : (ceilDiv (stop - start) h).toNat ≤ fuel) :
    runLoop stop h fuel start =
      ((ceilDiv (stop - start) h).toNat, takeSteps h (ceilDiv (stop - start) h).toNat start) ∧
    stop ≤ takeSteps h (ceilDiv (stop - start) h).toNat start ∧
    takeSteps h (ceilDiv (stop - start) h).toNat start < stop + h := by
  obtain ⟨a, b⟩ := ceil_is_first start stop h hh hs
  rw [takeSteps_eq]
  refine ⟨runLoop_spec stop h _ fuel start hf a b, b, ?_⟩
  -- the last step started before `stop`
  have hpos : 0 < (ceilDiv (stop - start) h).toNat := by
    rcases Nat.eq_zero_or_pos (ceilDiv (stop - start) h).toNat with h0 | h0
    · rw [h0] at b; simp at b; omega
    · exact h0
  have := a ((ceilDiv (stop - start) h).toNat - 1) (by omega)
  have e : (((ceilDiv (stop - start) h).toNat - 1 : Nat) : Int) = ((ceilDiv (stop - start) h).toNat : Int) - 1 := by omega
  rw [e, Int.sub_mul, Int.one_mul] at this
  omega

/-- a run that starts at or after the end time takes no step -/
theorem run_nothing_to_do (start stop h : Int) (hs : stop ≤ start) (fuel : Nat) :
    runLoop stop h fuel start = (0, start) := by
  cases fuel with
  | zero => rfl
  | succ f => simp [runLoop]; omega

/-! ### context skeleton (regenerated from engine.py) -/

/-- the loop condition of `run()` is `time < stop` -/
theorem gen_run_cmp : Viv.Gen.runLoopCmp = "Lt" := by decide

/-- ten priority buckets walked in list order; `Event(time = clock + step, step_size = step)` -/
theorem gen_event_tables :
    Viv.Gen.nBuckets = 10 ∧ Viv.Gen.defaultPriority = 5 ∧ Viv.Gen.bucketsWalkedForward = true ∧
    Viv.Gen.eventTimeIsClockPlusStep = true ∧ Viv.Gen.eventStepIsStep = true := by decide

/-- one `step()` from either state in which it is legal emits the four events once each, in order,
and nothing else, and ends in collect_metrics (for every earlier log) -/
theorem step_emits_four (log : List String) (fr : Bool) (st : String)
    (h : st = "population_creation" ∨ st = "collect_metrics") :
    callCtl "step" { st := st, setupDone := true, created := true, frozen := fr, log := log } =
      .ok { st := "collect_metrics", setupDone := true, created := true, frozen := fr,
            log := log ++ ["emit:time_step__prepare"] ++ ["emit:time_step"] ++ ["emit:time_step__cleanup"] ++
                   ["emit:collect_metrics"] } := by
  rcases h with rfl | rfl <;> rfl

/-- the clock effect of the `step` skeleton: advance by exactly one step, after the four events -/
theorem step_clock (clock step : Int) :
    (expand (skeletonOf "step")).foldl (fun c a => clockEffect a c step) clock = clock + step ∧
    ((expand (skeletonOf "step")).dropWhile (fun a => a ≠ .emit "collect_metrics")).any (· == .stepFwd) = true ∧
    ((expand (skeletonOf "step")).takeWhile (fun a => a ≠ .emit "collect_metrics")).all (fun a => clockEffect a 0 1 == 0) = true := by
  refine ⟨?_, by decide, by decide⟩
  simp [expand, expandAux, skeletonOf, Viv.Gen.skeleton, instBody, phaseStates, Viv.Gen.phases, clockEffect]

/-- fencepost: the initial population is created with the clock rewound by one step, and the clock is
then restored -/
theorem fencepost (clock step : Int) :
    let acts := expand (skeletonOf "initialize_simulants")
    (acts.takeWhile (· ≠ .create)).foldl (fun c a => clockEffect a c step) clock = clock - step ∧
    acts.foldl (fun c a => clockEffect a c step) clock = clock := by
  simp [expand, expandAux, skeletonOf, Viv.Gen.skeleton, clockEffect]

/-- `simulation_end` is emitted by `finalize` exactly once and by no other context method; `step`
emits nothing but its four events -/
theorem end_once :
    (expand (skeletonOf "finalize")).count (.emit "simulation_end") = 1 ∧
    (["setup", "initialize_simulants", "step", "report"].all fun m =>
      (expand (skeletonOf m)).count (.emit "simulation_end") == 0) = true ∧
    (expand (skeletonOf "step")).filter (fun a => match a with | .emit _ => true | _ => false) =
      [.emit "time_step__prepare", .emit "time_step", .emit "time_step__cleanup", .emit "collect_metrics"] := by
  decide

/-- a context that is legally inside the main loop -/
def Running (s : Sim) : Prop :=
  (s.ctl.st = "population_creation" ∨ s.ctl.st = "collect_metrics") ∧ s.ctl.setupDone = true ∧ s.ctl.created = true ∧
  s.ctl.failOn = ""     -- no listener failure injected

/-- Sim-level `step()`: succeeds from a running context, advances the clock by exactly the step,
stays running, and leaves step size and stop time alone -/
theorem call_step_running (s : Sim) (h : Running s) :
    ∃ s', call "step" s = .ok s' ∧ Running s' ∧ s'.clock = s.clock + s.step ∧ s'.step = s.step ∧ s'.stop = s.stop := by
  obtain ⟨⟨st, sd, cr, fr, log, fo⟩, clock, step, stop, tlog⟩ := s
  obtain ⟨hst, hsd, hcr, hfo⟩ := h
  simp only at hst hsd hcr hfo
  subst hsd hcr hfo
  rcases hst with rfl | rfl
  · exact ⟨_, rfl, ⟨Or.inr rfl, rfl, rfl, rfl⟩, rfl, rfl, rfl⟩
  · exact ⟨_, rfl, ⟨Or.inr rfl, rfl, rfl, rfl⟩, rfl, rfl, rfl⟩

/-- the engine's `run()` (skeleton model) follows the abstract run loop: same final clock, for every
fuel, start, stop and step -/
theorem ctx_run_clock (fuel : Nat) (s : Sim) (h : Running s) :
    ∃ s', Viv.Ctx.run fuel s = .ok s' ∧ s'.clock = (runLoop s.stop s.step fuel s.clock).2 ∧ s'.step = s.step ∧ s'.stop = s.stop := by
  induction fuel generalizing s with
  | zero => exact ⟨s, rfl, rfl, rfl, rfl⟩
  | succ n ih =>
    have hsd : s.ctl.setupDone = true := h.2.1
    by_cases hlt : s.clock < s.stop
    · obtain ⟨s1, hc, hr, hclk, hstep, hstop⟩ := call_step_running s h
      obtain ⟨s2, hrun, h2clk, h2step, h2stop⟩ := ih s1 hr
      refine ⟨s2, ?_, ?_, by rw [h2step, hstep], by rw [h2stop, hstop]⟩
      · simp only [Viv.Ctx.run, hsd, cmpHolds, gen_run_cmp]
        simp [hlt, hc, hrun]
      · rw [h2clk, hclk, hstep, hstop]
        simp only [runLoop, hlt, if_true]
    · refine ⟨s, ?_, ?_, rfl, rfl⟩
      · simp only [Viv.Ctx.run, hsd, cmpHolds, gen_run_cmp]
        simp [hlt]
      · simp only [runLoop, hlt, if_false]

-- non-vacuity / concrete instances
example : emitOrder 10 [(5, 1), (0, 2), (9, 3), (5, 4), (0, 5)] = [(0, 2), (0, 5), (5, 1), (5, 4), (9, 3)] := by decide
example : runLoop 10 3 100 0 = (4, 12) := by decide
example : (ceilDiv (10 - 0) 3).toNat = 4 := by decide

/-! ## LESSONS audit: explicit step sizes, the whole `simulate` operation, split runs -/

/-- Sim-level `step()` with the log: the four events are appended in order, each stamped with the clock the step
started from, and nothing else is logged -/
theorem call_step_running_log (s : Sim) (h : Running s) :
    ∃ s', call "step" s = .ok s' ∧ Running s' ∧ s'.ctl.st = "collect_metrics" ∧ s'.clock = s.clock + s.step ∧
      s'.step = s.step ∧ s'.stop = s.stop ∧
      s'.ctl.log = s.ctl.log ++ ["emit:time_step__prepare"] ++ ["emit:time_step"] ++ ["emit:time_step__cleanup"] ++
                   ["emit:collect_metrics"] ∧
      s'.tlog = s.tlog ++ [s.clock] ++ [s.clock] ++ [s.clock] ++ [s.clock] := by
  obtain ⟨⟨st, sd, cr, fr, log, fo⟩, clock, step, stop, tlog⟩ := s
  obtain ⟨hst, hsd, hcr, hfo⟩ := h
  simp only at hst hsd hcr hfo
  subst hsd hcr hfo
  rcases hst with rfl | rfl
  · exact ⟨_, rfl, ⟨Or.inr rfl, rfl, rfl, rfl⟩, rfl, rfl, rfl, rfl, rfl, rfl⟩
  · exact ⟨_, rfl, ⟨Or.inr rfl, rfl, rfl, rfl⟩, rfl, rfl, rfl, rfl, rfl, rfl⟩

/-- the events one step adds, with their clocks (the log and its clock column have the same length in every
state the model reaches) -/
theorem newEvents_of_append (s s' : Sim) (evs : List String) (cs : List Int)
    (hlen : s.tlog.length = s.ctl.log.length)
    (hl : s'.ctl.log = s.ctl.log ++ evs) (ht : s'.tlog = s.tlog ++ cs) :
    newEvents s s' = evs.zip cs := by
  unfold newEvents
  rw [hl, ht, List.zip_append hlen.symm]
  have : (s.ctl.log.zip s.tlog).length = s.ctl.log.length := by simp [List.length_zip, hlen]
  rw [← this, List.drop_left]

theorem step_events (s s' : Sim) (h : Running s) (hlen : s.tlog.length = s.ctl.log.length)
    (hc : call "step" s = .ok s') :
    newEvents s s' = [("emit:time_step__prepare", s.clock), ("emit:time_step", s.clock),
                      ("emit:time_step__cleanup", s.clock), ("emit:collect_metrics", s.clock)] ∧
    s'.tlog.length = s'.ctl.log.length := by
  obtain ⟨s1, hc1, _, _, _, _, _, hl, ht⟩ := call_step_running_log s h
  rw [hc] at hc1; cases hc1
  constructor
  · rw [newEvents_of_append s s' ["emit:time_step__prepare", "emit:time_step", "emit:time_step__cleanup", "emit:collect_metrics"]
      [s.clock, s.clock, s.clock, s.clock] hlen (by rw [hl]; simp) (by rw [ht]; simp)]
    rfl
  · rw [hl, ht]; simp [hlen]

/-- `InteractiveContext.step(x)` (no per-simulant clocks) from a running context: the four events are emitted at
the clock the step started from, the clock advances by exactly `x`, and the old global step is back afterwards -/
theorem explicit_step_running (x : Int) (s : Sim) (h : Running s) (hlen : s.tlog.length = s.ctl.log.length) :
    ∃ s', stepWithSize x s = .ok s' ∧ Running s' ∧ s'.clock = s.clock + x ∧ s'.step = s.step ∧ s'.stop = s.stop ∧
      newEvents s s' = [("emit:time_step__prepare", s.clock), ("emit:time_step", s.clock),
                        ("emit:time_step__cleanup", s.clock), ("emit:collect_metrics", s.clock)] ∧
      s'.tlog.length = s'.ctl.log.length := by
  have hr : Running { s with step := x } := h
  obtain ⟨s1, hc1, hr1, _, hclk, _, hstop, _, _⟩ := call_step_running_log { s with step := x } hr
  obtain ⟨hev, hlen1⟩ := step_events { s with step := x } s1 hr hlen hc1
  refine ⟨{ s1 with step := s.step }, ?_, hr1, hclk, rfl, hstop, hev, hlen1⟩
  have hsd : s.ctl.setupDone = true := h.2.1
  simp only [stepWithSize, hsd, Bool.not_true, Bool.false_and, Bool.false_eq_true, if_false, hc1]

/-- every listener call made for events emitted under the global step `x` carries `step_size = x` and
`time = clock + x`, on the clock of one of those events -/
theorem expandEvents_fields (nb : Nat) (regs : List CReg) (x : Int) (evs : List (String × Int)) :
    ∀ c ∈ expandEvents nb regs x evs, c.step = x ∧ c.time = c.clock + x ∧ ∃ e ∈ evs, c.clock = e.2 := by
  intro c hc
  simp only [expandEvents, List.mem_flatMap] at hc
  obtain ⟨⟨e, t⟩, he, hc⟩ := hc
  split at hc
  · obtain ⟨_, h2, h3, h4⟩ := deliver_fields nb regs _ t x c hc
    exact ⟨h4, by rw [h3, h2], ⟨(e, t), he, h2⟩⟩
  · cases hc

/-- an explicit step of ANY size: every listener call of it carries the size passed, a time equal to the clock the
step started from plus that size, and that clock -/
theorem explicit_step_calls (nb : Nat) (regs : List CReg) (x : Int) (s s' : Sim) (h : Running s)
    (hlen : s.tlog.length = s.ctl.log.length) (hs : stepWithSize x s = .ok s') :
    ∀ c ∈ expandEvents nb regs x (newEvents s s'), c.step = x ∧ c.time = s.clock + x ∧ c.clock = s.clock := by
  obtain ⟨s1, hs1, _, _, _, _, hev, _⟩ := explicit_step_running x s h hlen
  rw [hs] at hs1; cases hs1
  intro c hc
  obtain ⟨h1, h2, e, he, h3⟩ := expandEvents_fields nb regs x _ c hc
  rw [hev] at he
  have : e.2 = s.clock := by
    simp only [List.mem_cons, List.mem_nil_iff, or_false] at he
    rcases he with rfl | rfl | rfl | rfl <;> rfl
  rw [this] at h3
  exact ⟨h1, by rw [h2, h3], h3⟩

/-- `run()` keeps the context running and, when it takes at least one step, rests in collect_metrics -/
theorem ctx_run_running (fuel : Nat) (s : Sim) (h : Running s) :
    ∃ s', Viv.Ctx.run fuel s = .ok s' ∧ Running s' ∧ s'.clock = (runLoop s.stop s.step fuel s.clock).2 ∧
      s'.step = s.step ∧ s'.stop = s.stop ∧
      (0 < (runLoop s.stop s.step fuel s.clock).1 → s'.ctl.st = "collect_metrics") := by
  induction fuel generalizing s with
  | zero => exact ⟨s, rfl, h, rfl, rfl, rfl, by intro h0; simp [runLoop] at h0⟩
  | succ n ih =>
    have hsd : s.ctl.setupDone = true := h.2.1
    by_cases hlt : s.clock < s.stop
    · obtain ⟨s1, hc, hr, hst, hclk, hstep, hstop, _, _⟩ := call_step_running_log s h
      obtain ⟨s2, hrun, hr2, h2clk, h2step, h2stop, h2st⟩ := ih s1 hr
      refine ⟨s2, ?_, hr2, ?_, by rw [h2step, hstep], by rw [h2stop, hstop], ?_⟩
      · simp only [Viv.Ctx.run, hsd, cmpHolds, gen_run_cmp]
        simp [hlt, hc, hrun]
      · rw [h2clk, hclk, hstep, hstop]
        simp only [runLoop, hlt, if_true]
      · intro _
        by_cases h0 : 0 < (runLoop s1.stop s1.step n s1.clock).1
        · exact h2st h0
        · -- no further step: `run n s1` returned `s1` itself … which rests in collect_metrics
          have hz : (runLoop s1.stop s1.step n s1.clock).1 = 0 := by omega
          have : s2 = s1 := by
            cases n with
            | zero => simp only [Viv.Ctx.run] at hrun; cases hrun; rfl
            | succ m =>
              have hsd1 : s1.ctl.setupDone = true := hr.2.1
              by_cases hlt1 : s1.clock < s1.stop
              · simp only [runLoop, hlt1, if_true] at hz; omega
              · simp only [Viv.Ctx.run, hsd1, cmpHolds, gen_run_cmp] at hrun
                simp [hlt1] at hrun
                exact hrun.symm
          rw [this]; exact hst
    · refine ⟨s, ?_, h, ?_, rfl, rfl, ?_⟩
      · simp only [Viv.Ctx.run, hsd, cmpHolds, gen_run_cmp]
        simp [hlt]
      · simp only [runLoop, hlt, if_false]
      · intro h0; simp only [runLoop, hlt, if_false] at h0; omega

/-- `finalize()` then `report()` from a context resting in collect_metrics: simulation_end and report are emitted
once each, the clock does not move -/
theorem finalize_report (s : Sim) (hst : s.ctl.st = "collect_metrics") (hr : Running s) :
    ∃ s1 s2, call "finalize" s = .ok s1 ∧ call "report" s1 = .ok s2 ∧ s2.ctl.st = "report" ∧ s2.clock = s.clock ∧
      s2.ctl.log = s.ctl.log ++ ["emit:simulation_end"] ++ ["emit:report"] := by
  obtain ⟨⟨st, sd, cr, fr, log, fo⟩, clock, step, stop, tlog⟩ := s
  obtain ⟨_, hsd, hcr, hfo⟩ := hr
  simp only at hst hsd hcr hfo
  subst hst hsd hcr hfo
  exact ⟨_, _, rfl, rfl, rfl, rfl, rfl⟩

/-- the context right after `setup()` / after `initialize_simulants()` on symbolic clocks -/
def afterSetup (start step stop : Int) : Sim :=
  { ctl := { st := "post_setup", setupDone := true, frozen := true, log := ["setup_components", "emit:post_setup"] },
    clock := start, step := step, stop := stop, tlog := [start, start] }

def afterInit (start step stop : Int) : Sim :=
  { ctl := { st := "population_creation", setupDone := true, created := true, frozen := true,
             log := ["setup_components", "emit:post_setup", "create"] },
    clock := start - step + step, step := step, stop := stop, tlog := [start, start, start - step] }

theorem setup_init (start step stop : Int) :
    call "setup" (Ctx.init start step stop) = .ok (afterSetup start step stop) ∧
    call "initialize_simulants" (afterSetup start step stop) = .ok (afterInit start step stop) ∧
    Running (afterInit start step stop) :=
  ⟨rfl, rfl, ⟨Or.inl rfl, rfl, rfl, rfl⟩⟩

/-- THE WHOLE OPERATION the correspondence runs (`sim` of Driver/C08.lean): for every registration list, every start,
every positive step and every later end, `simulate` completes in `report` with the clock on
`start + ⌈(stop-start)/step⌉·step`, which is the first clock value at or beyond the end. -/
theorem simulate_final (nb : Nat) (regs : List CReg) (start step stop : Int) (hh : 0 < step) (hs : start < stop)
    (fuel : Nat) (hf : (ceilDiv (stop - start) step).toNat ≤ fuel) :
    ∃ s calls, simulate nb regs start step stop fuel = .ok (s, calls) ∧ s.ctl.st = "report" ∧
      s.clock = start + (ceilDiv (stop - start) step).toNat * step ∧ stop ≤ s.clock ∧ s.clock < stop + step := by
  obtain ⟨h1, h2, hr0⟩ := setup_init start step stop
  obtain ⟨s2, hrun, hr2, hclk, hstep, hstop, hst⟩ := ctx_run_running fuel _ hr0
  have hcancel : start - step + step = start := by omega
  simp only [afterInit] at hclk hstep hstop hst
  rw [hcancel] at hclk hst
  obtain ⟨hloop, hge, hlt⟩ := run_steps_count start stop step hh hs fuel hf
  rw [hloop] at hclk hst
  simp only at hclk hst
  have hpos : 0 < (ceilDiv (stop - start) step).toNat := by
    rcases Nat.eq_zero_or_pos (ceilDiv (stop - start) step).toNat with h0 | h0
    · rw [h0, takeSteps] at hge; omega
    · exact h0
  obtain ⟨s3, s4, hfin, hrep, hst4, hclk4, _⟩ := finalize_report s2 (hst hpos) hr2
  refine ⟨s4, (s4.ctl.log.zip s4.tlog).flatMap (fun (e, c) =>
      if e.startsWith "emit:" then deliver nb regs (e.drop 5).toString c s4.step else []), ?_, hst4, ?_, ?_, ?_⟩
  · simp only [simulate, h1, h2, hrun, hfin, hrep, bind, Except.bind, pure, Except.pure]
  · rw [hclk4, hclk, takeSteps_eq]
  · rw [hclk4, hclk]; exact hge
  · rw [hclk4, hclk]; exact hlt

/-- … and with nothing to do (the end is not after the start) the operation is refused at `finalize`, resting in
population_creation: a run of zero steps cannot be finalised (simulation_end does not follow population_creation). -/
theorem simulate_zero_steps_refused (nb : Nat) (regs : List CReg) (start step stop : Int) (hs : stop ≤ start)
    (fuel : Nat) :
    ∃ s, simulate nb regs start step stop fuel = .error (.transition, s) ∧ s.ctl.st = "population_creation" ∧
      s.clock = start - step + step := by
  obtain ⟨h1, h2, _⟩ := setup_init start step stop
  have hnot : ¬ (start - step + step < stop) := by omega
  have hrun : Viv.Ctx.run fuel (afterInit start step stop) = .ok (afterInit start step stop) := by
    cases fuel with
    | zero => rfl
    | succ n =>
      simp only [Viv.Ctx.run, cmpHolds, gen_run_cmp, afterInit]
      simp
      intro hlt; omega
  refine ⟨afterInit start step stop, ?_, rfl, rfl⟩
  simp only [simulate, h1, h2, hrun, bind, Except.bind]
  rfl

/-- split runs (`run_until(a)`, `run_for(d)`, `run()`): the three counts add up to the number of steps a single loop
to the last bound takes, whenever the intermediate bounds do not pass the end -/
theorem runLoop_clock (stop h : Int) (fuel : Nat) (t : Int) :
    (runLoop stop h fuel t).2 = t + (runLoop stop h fuel t).1 * h := by
  induction fuel generalizing t with
  | zero => simp [runLoop]
  | succ n ih =>
    simp only [runLoop]
    split
    · simp only []
      rw [ih (t + h), Int.natCast_succ, Int.add_mul, Int.one_mul]; omega
    · simp

theorem splitRun_final (stop h a d : Int) (fuel : Nat) (t : Int) :
    let r := splitRun stop h a d fuel t
    r.2.2.2 = t + ((r.1 + r.2.1 + r.2.2.1 : Nat) : Int) * h := by
  simp only [splitRun]
  rw [runLoop_clock stop h fuel, runLoop_clock _ h fuel (runLoop a h fuel t).2, runLoop_clock a h fuel t]
  simp only [Int.natCast_add, Int.add_mul]
  omega

example : splitRun 9 2 3 1 100 0 = (2, 1, 2, 10) := by decide
example : (match simulateSizes 10 [("time_step", 3, 1)] 0 2 9 [3, 1] 100 with
    | .ok (s, _) => s.clock == 10 && s.step == 2 && s.ctl.st == "report"
    | .error _ => false) = true := by decide
example : deliver 10 [("time_step", 3, 1), ("time_step", 0, 2)] "time_step" 4 3 =
    [⟨"time_step", 2, 0, 4, 7, 3⟩, ⟨"time_step", 1, 3, 4, 7, 3⟩] := by decide

end Viv.Props.C08
