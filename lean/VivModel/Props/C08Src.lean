import VivModel.Model.Events
import VivModel.Gen.Src
import VivModel.Lemmas.PyAst
/-! C08, source tie: the Python source of `EventChannel.emit` (`Gen/Src.lean`, regenerated from the tree under test on
every run) evaluated by `Py.evalBlock` makes exactly the listener calls of the model's `Ev.deliver` – every listener of
the channel once, buckets in ascending priority, registration order inside a bucket, each handed the same event whose
time is `clock + step` and whose step size is `step` – for every number of buckets, every registration list, both forms
of `user_data`. The effect of a listener call is an entry appended to a log (state monad), so "once, in this order" is a
statement about the sequencing of effects. -/
namespace Viv.Props.C08Src
open Viv.Py Viv.Ev

/-- the Python objects `EventChannel.emit` touches -/
inductive EV where
  | none | bool (b : Bool) | int (i : Int) | str (s : String)
  | self | manager | clockFn | stepFn
  | time (t : Int)
  | index
  | userData (given : Bool)
  | eventCls
  /-- the builtins `list` / `tuple` (a copy of a list iterates like the list) -/
  | copyFn
  /-- `Event(index, user_data, time, step_size)` -/
  | event (time step : Int)
  | listener (r : Reg)
  | list (vs : List EV)

abbrev M := StateT (List Call) (Except String)

/-- `self.listeners`: one list per priority level, each holding that level's listeners in registration order -/
def buckets (nb : Nat) (regs : List Reg) : List EV :=
  (List.range nb).map fun p => EV.list ((regs.filter (fun r => r.1 == p)).map EV.listener)

def eworld (nb : Nat) (regs : List Reg) (ch : String) (clock step : Int) : World M EV where
  none := .none
  bool := .bool
  int := .int
  str := .str
  list := .list
  newList vs := pure (.list vs)
  tuple := .list
  global n := if n == "Event" then pure .eventCls else if n == "list" || n == "tuple" then pure .copyFn else throw "NameError"
  truthy
    | .none => pure false
    | .bool b => pure b
    | .userData given => pure given
    | .list vs => pure (!vs.isEmpty)
    | _ => pure true
  getAttr o a := match o with
    | .self =>
      if a == "manager" then pure .manager
      else if a == "listeners" then pure (.list (buckets nb regs))
      else throw "AttributeError"
    | .manager =>
      if a == "clock" then pure .clockFn
      else if a == "step_size" then pure .stepFn
      else throw "AttributeError"
    | _ => throw "AttributeError"
  setAttr _ _ _ := throw "AttributeError"
  call f args kws := match f, args, kws with
    | .clockFn, [], [] => pure (.time clock)
    | .stepFn, [], [] => pure (.time step)
    | .eventCls, [.index, .userData _, .time t, .time s], [] => pure (.event t s)
    | .copyFn, [.list vs], [] => pure (.list vs)
    | .listener r, [.event t s], [] => do modify (· ++ [⟨ch, r.2, r.1, clock, t, s⟩]); pure .none
    | _, _, _ => throw "TypeError"
  cmp _ _ _ := throw "TypeError"
  bin op l r := match l, r with
    | .time a, .time b => if op == "Add" then pure (.time (a + b)) else throw "TypeError"
    | _, _ => throw "TypeError"
  neg _ := throw "TypeError"
  sub _ _ := throw "TypeError"
  slice _ _ := .none
  setItem _ _ _ := throw "TypeError"
  iter
    | .list vs => pure vs
    | _ => throw "TypeError"
  unstar _ := throw "TypeError"
  format _ := throw "TypeError"
  concat _ := throw "TypeError"
  dict _ := throw "TypeError"
  whileLoop _ _ _ := throw "Unsupported"
  other s := if s == "{}" then pure (.userData false) else throw "Unsupported"
  throw cls := throw cls
  rethrow := throw "reraise"
  catchAll body handler := tryCatch body (fun _ => handler)
  catchCls cls body handler := tryCatch body (fun e => if e == cls then handler else throw e)

@[simp] theorem throw_bind {α β : Type} (e : String) (f : α → M β) : ((throw e : M α) >>= f) = throw e := by
  apply StateT.ext; intro s; rfl

theorem modify_modify (f g : List Call → List Call) :
    ((modify f : M Unit) >>= fun _ => (modify g : M Unit)) = modify (g ∘ f) := by
  apply StateT.ext; intro s; simp [modify, modifyGet, MonadStateOf.modifyGet, StateT.modifyGet, StateT.run, bind, StateT.bind, Except.bind, pure, Except.pure]

theorem modify_id : (modify (fun l => l ++ []) : M Unit) = pure () := by
  apply StateT.ext; intro s; simp [modify, modifyGet, MonadStateOf.modifyGet, StateT.modifyGet, StateT.run, pure, StateT.pure, Except.pure]

/-- appending one batch of calls per element = appending all batches at once -/
theorem foldl_batches {α : Type} (h : α → List Call) (xs : List α) :
    (xs.foldlM (fun (_ : Unit) x => (modify (· ++ h x) : M Unit)) ()) = modify (· ++ xs.flatMap h) := by
  induction xs with
  | nil => simpa using modify_id.symm
  | cons x xs ih =>
    rw [List.foldlM_cons]
    show ((modify (· ++ h x) : M Unit) >>= fun _ => List.foldlM _ () xs) = _
    rw [ih, modify_modify]
    congr 1; funext l; simp

theorem flatMap_single {α β : Type} (g : α → β) (xs : List α) : xs.flatMap (fun x => [g x]) = xs.map g := by
  induction xs with
  | nil => rfl
  | cons x xs ih => simp [List.flatMap_cons, ih]

theorem foldl_log (g : Reg → Call) (xs : List Reg) :
    (xs.foldlM (fun (_ : Unit) x => (modify (· ++ [g x]) : M Unit)) ()) = modify (· ++ xs.map g) := by
  rw [foldl_batches (fun x => [g x]) xs, flatMap_single]

/-- what one listener call does -/
def callOf (ch : String) (clock time step : Int) (r : Reg) : Call := ⟨ch, r.2, r.1, clock, time, step⟩

theorem eventEmit_refines (nb : Nat) (regs : List Reg) (ch : String) (clock step : Int) (given : Bool) :
    Gen.Src.eventEmit.run (eworld nb regs ch clock step)
        [("self", .self), ("index", .index), ("user_data", .userData given)]
      = (do modify (· ++ (emitOrder nb regs).map (callOf ch clock (clock + step) step))
            pure (EV.event (clock + step) step) : M EV) := by
  cases given <;>
  simp [Func.run, Gen.Src.eventEmit, evalBlock, evalStmt, evalExpr, evalArgs, evalKws, assignTo, eworld] <;>
  ( refine Eq.trans (forLoop_foldlM (m := M) (V := EV) (σ := Unit) (β := EV)
      (Inv := fun _ loc => loc.get "e" = some (EV.event (clock + step) step))
      (f := fun _ b => match b with
        | EV.list ls => ls.foldlM (fun _ l => match l with
            | EV.listener r => (modify (· ++ [callOf ch clock (clock + step) step r]) : M Unit)
            | _ => throw "TypeError") ()
        | _ => throw "TypeError")
      (s := ()) (k' := fun _ => pure (EV.event (clock + step) step)) (xs := _) (loc := _) (k := _) (body := _)
      (hbody := ?hbody) (hinv := ?hinv) (hk := ?hk)) ?_
    case hinv => simp
    case hk =>
      intro s' loc' h'
      simp [h']
    case hbody =>
      intro s loc x k1 k1' hinv hk1
      cases x
      case list vs =>
       simp only [bind_assoc, pure_bind]
       refine forLoop_foldlM (m := M) (V := EV) (σ := Unit)
        (Inv := fun _ loc => loc.get "e" = some (EV.event (clock + step) step)) (s := ()) (hinv := by simpa using hinv) (hk := ?hk2) (hbody := ?hb2) ..
       case hk2 =>
         intro s' loc' h'
         simpa using hk1 s' loc' h'
       case hb2 =>
         intro s2 loc2 y k2 k2' hinv2 hk2
         simp only [hinv2]
         cases y <;> simp [callOf]
         refine bind_congr fun _ => ?_
         exact hk2 () _ (by simpa using hinv2)
      all_goals simp
    · simp only [buckets, List.foldlM_map, foldl_log, emitOrder]
      rw [foldl_batches (fun p => List.map (callOf ch clock (clock + step) step) (regs.filter fun r => r.1 == p))]
      simp [List.map_flatMap] )

/-- the same in the vocabulary of the model: the calls `emit` makes are `Ev.deliver`'s -/
theorem eventEmit_deliver (nb : Nat) (cregs : List CReg) (ch : String) (clock step : Int) (given : Bool) (log : List Call) :
    (Gen.Src.eventEmit.run (eworld nb (onChannel cregs ch) ch clock step)
        [("self", .self), ("index", .index), ("user_data", .userData given)]).run log
      = .ok (EV.event (clock + step) step, log ++ deliver nb cregs ch clock step) := by
  rw [eventEmit_refines]
  rfl

/-- non-vacuity: three listeners, priorities 7, 0, 7 on a ten-bucket channel -/
example : (Gen.Src.eventEmit.run (eworld 10 [(7, 1), (0, 2), (7, 3)] "time_step" 5 2)
      [("self", .self), ("index", .index), ("user_data", .userData false)]).run []
    = .ok (EV.event 7 2, [⟨"time_step", 2, 0, 5, 7, 2⟩, ⟨"time_step", 1, 7, 5, 7, 2⟩, ⟨"time_step", 3, 7, 5, 7, 2⟩]) := by
  rw [eventEmit_refines]; rfl

end Viv.Props.C08Src
