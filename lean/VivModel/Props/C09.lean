import VivModel.Gen.Tables
import VivModel.Lemmas.Topo
/-! C09 — simulant initializers run in dependency order or not at all.

* `checkOrder_*`, `path_before`, `cycle_no_order`: the certified checker the driver evaluates.
* `kahn_*`, `refuses_iff_*`, `acyclic_has_order`: the model's sort is sound and complete; it refuses
  exactly when no valid order exists, i.e. exactly when there is a cycle (`acyclic_has_order` closed:
  pigeonhole on backward walks, no `_partial` left).
* `observed_*`: the check applied to the order the REAL initializers were seen to run in – every
  initializer once, and the order is the restriction of a certified order of the whole graph, hence
  respects every dependency chain however long and through whatever kind of resource.
* `toGraph_wf`, `edge_iff_requirement`, `requirement_chain_is_path`, `dup_producer_rejected`,
  `producers_unique`, `initializers_once`, `iteration_*`: `ResourceManager` for every registration history.
* `late_registration_ignored`, `graph_idempotent`: the cached graph – registrations after the first sort do not
  change the order births are created in (what the code does, modelled as it is).
* `*_declares`, `tracked_implicit`, `stream_depends_on_key_columns`, `value_depends_on_*`,
  `postSetup_declares`, `modifier_registers`, `modifier_resource_is_value_dependency`,
  `pipeline_object_*`: the implicit dependencies the registration services add (pipeline ← source and
  every modifier under names that line up, stream ← key columns, initializer ← `tracked`). -/
namespace Viv.Props.C09
open Viv.Topo

/-- well formed: no node twice, every edge between nodes -/
def WF (g : Graph) : Prop := g.nodes.Nodup ∧ ∀ e ∈ g.edges, e.1 ∈ g.nodes ∧ e.2 ∈ g.nodes

/-! ### the certified checker -/

/-- `checkOrder g o = true` ⇒ `o` is a permutation of the nodes and every edge goes forward -/
theorem checkOrder_sound (g : Graph) (o : List Nat) (h : checkOrder g o = true) :
    o.Nodup ∧ (∀ v, v ∈ g.nodes ↔ v ∈ o) ∧ ∀ u v, (u, v) ∈ g.edges → idx o u < idx o v :=
  checkOrder_spec g o h

/-- … and conversely: the checker accepts every such order (it is exactly the specification) -/
theorem checkOrder_complete (g : Graph) (o : List Nat) (h1 : o.Nodup) (h2 : ∀ v, v ∈ g.nodes ↔ v ∈ o)
    (h3 : ∀ u v, (u, v) ∈ g.edges → idx o u < idx o v) : checkOrder g o = true :=
  checkOrder_of_spec g o h1 h2 h3

/-- the transitive clause: a dependency chain of any length is respected -/
theorem path_before (g : Graph) (o : List Nat) (h : checkOrder g o = true) {u v : Nat}
    (p : Path g u v) : idx o u < idx o v := path_lt g o h p

/-- a cycle admits no valid order: refusing is the only correct outcome -/
theorem cycle_no_order (g : Graph) (o : List Nat) {u : Nat} (p : Path g u u) : checkOrder g o = false := by
  cases h : checkOrder g o with
  | false => rfl
  | true => exact absurd (path_before g o h p) (Nat.lt_irrefl _)

/-! ### the model's sort -/

/-- whenever the model sort returns an order, the certified checker accepts it -/
theorem kahn_sound (g : Graph) (hg : WF g) (o : List Nat) (h : topoSort g = some o) :
    checkOrder g o = true := topoSort_sound g hg.1 hg.2 o h

/-- the model refuses every cyclic graph -/
theorem kahn_cycle_none (g : Graph) (hg : WF g) {u : Nat} (p : Path g u u) : topoSort g = none := by
  cases h : topoSort g with
  | none => rfl
  | some o =>
    have := kahn_sound g hg o h
    rw [cycle_no_order g o p] at this
    cases this

/-- if ANY dependency-respecting order exists, the model sort returns one -/
theorem kahn_complete (g : Graph) (o : List Nat) (h : checkOrder g o = true) : ∃ o', topoSort g = some o' := by
  have hs := (checkOrder_sound g o h).2.2
  exact kahn_total g (fun rem hne _ => ready_ne_nil_of_rank g (idx o) (fun e he => hs e.1 e.2 he) rem hne)
    _ _ _ (List.Sublist.refl _) (Nat.lt_succ_self _)

/-- the sort refuses exactly when no valid order exists -/
theorem refuses_iff_no_order (g : Graph) (hg : WF g) : topoSort g = none ↔ ∀ o, checkOrder g o = false := by
  constructor
  · intro hn o
    cases h : checkOrder g o with
    | false => rfl
    | true =>
      obtain ⟨o', ho'⟩ := kahn_complete g o h
      rw [hn] at ho'; cases ho'
  · intro hall
    cases h : topoSort g with
    | none => rfl
    | some o => have := kahn_sound g hg o h; rw [hall o] at this; cases this

/-- no cycle ⇒ some valid order exists (the classical step: a backward walk longer than the node list
must repeat a node) -/
theorem acyclic_has_order (g : Graph) (hg : WF g) (hac : ¬ ∃ u, Path g u u) : ∃ o, checkOrder g o = true := by
  obtain ⟨o, ho⟩ := kahn_total g (fun rem hne _ => ready_ne_nil_of_acyclic g hac rem hne)
    (g.nodes.length + 1) g.nodes [] (List.Sublist.refl _) (Nat.lt_succ_self _)
  exact ⟨o, kahn_sound g hg o ho⟩

/-- "or not at all": the sort refuses exactly the graphs that contain a cycle -/
theorem refuses_iff_cycle (g : Graph) (hg : WF g) : topoSort g = none ↔ ∃ u, Path g u u := by
  constructor
  · intro hn
    apply Classical.byContradiction
    intro hac
    obtain ⟨o, ho⟩ := acyclic_has_order g hg hac
    obtain ⟨o', ho'⟩ := kahn_complete g o ho
    rw [hn] at ho'; cases ho'
  · rintro ⟨u, p⟩; exact kahn_cycle_none g hg p

/-! ### the check of an observed initializer order -/

/-- an accepted observed order contains every initializer exactly once -/
theorem observed_once (g : Graph) (inits o : List Nat) (h : checkObserved g inits o = true) :
    o.Nodup ∧ ∀ v, v ∈ o ↔ v ∈ inits := by
  simp only [checkObserved, Bool.and_eq_true, decide_eq_true_eq] at h
  exact ⟨h.1.1, fun v => ⟨h.1.2.2 v, h.1.2.1 v⟩⟩

/-- an accepted observed order is the restriction of a certified order of the whole graph -/
theorem observed_extends (g : Graph) (hg : WF g) (inits o : List Nat) (hI : ∀ v ∈ inits, v ∈ g.nodes)
    (h : checkObserved g inits o = true) :
    ∃ full, extend g o = some full ∧ checkOrder g full = true ∧
      ∀ u v, u ∈ o → v ∈ o → (idx o u < idx o v ↔ idx full u < idx full v) := by
  have hperm := observed_once g inits o h
  simp only [checkObserved, Bool.and_eq_true, Option.isSome_iff_exists] at h
  obtain ⟨full, hfull⟩ := h.2
  have ho : ∀ v ∈ o, v ∈ g.nodes := fun v hv => hI v ((hperm.2 v).mp hv)
  have hc := kahn_sound (withChain g o) (withChain_wf g hg o ho) full hfull
  have hcs := checkOrder_sound _ _ hc
  have hg' : checkOrder g full = true :=
    checkOrder_complete g full hcs.1 hcs.2.1 (fun u v he => hcs.2.2 u v (by simp [withChain, he]))
  have fwd : ∀ u v, u ∈ o → v ∈ o → idx o u < idx o v → idx full u < idx full v := by
    intro u v hu hv hlt
    have p := chain_path g.nodes o hu hv hlt
    exact path_before _ full hc (Path.mono (g' := withChain g o) (by intro e he; simp [withChain]; exact Or.inr he) p)
  refine ⟨full, hfull, hg', fun u v hu hv => ⟨fwd u v hu hv, fun hlt => ?_⟩⟩
  rcases Nat.lt_trichotomy (idx o u) (idx o v) with h1 | h1 | h1
  · exact h1
  · have := idx_inj o hu hv h1; subst this; omega
  · have := fwd v u hv hu h1; omega

/-- … hence respects every dependency chain between initializers, of any length, through sources,
modifiers, pipelines and streams (which are nodes of the graph but are never called) -/
theorem observed_sound (g : Graph) (hg : WF g) (inits o : List Nat) (hI : ∀ v ∈ inits, v ∈ g.nodes)
    (h : checkObserved g inits o = true) {u v : Nat} (hu : u ∈ inits) (hv : v ∈ inits) (p : Path g u v) :
    idx o u < idx o v := by
  obtain ⟨full, _, hfull, hemb⟩ := observed_extends g hg inits o hI h
  have hperm := observed_once g inits o h
  exact (hemb u v ((hperm.2 u).mpr hu) ((hperm.2 v).mpr hv)).mpr (path_before g full hfull p)

/-- the check rejects nothing it should accept: any order of the initializers that is the restriction
of some certified order passes -/
theorem observed_complete (g : Graph) (inits o full : List Nat) (h1 : o.Nodup) (h2 : ∀ v, v ∈ o ↔ v ∈ inits)
    (hfull : checkOrder g full = true)
    (hemb : ∀ u v, u ∈ o → v ∈ o → idx o u < idx o v → idx full u < idx full v) :
    checkObserved g inits o = true := by
  have hs := checkOrder_sound g full hfull
  have hc : checkOrder (withChain g o) full = true := by
    refine checkOrder_complete _ full hs.1 hs.2.1 (fun u v he => ?_)
    simp only [withChain, List.mem_append] at he
    rcases he with he | he
    · exact hs.2.2 u v he
    · have hm := chain_mem o (u, v) he
      exact hemb u v hm.1 hm.2 (chain_idx_lt o h1 (u, v) he)
  obtain ⟨o', ho'⟩ := kahn_complete (withChain g o) full hc
  simp only [checkObserved, Bool.and_eq_true, decide_eq_true_eq, extend, ho', Option.isSome_some, and_true]
  exact ⟨h1, fun v hv => (h2 v).mpr hv, fun v hv => (h2 v).mp hv⟩

/-! ### ResourceManager -/

/-- whatever was registered (accepted, refused, partially inserted): the graph is well formed -/
theorem toGraph_wf (m : Manager) : WF (toGraph m) := toGraph_wf' m

/-- `n` declared a dependency that group `p` produces -/
def Requires (m : Manager) (n p : Nat) : Prop :=
  n ∈ nodesOf m ∧ ∃ d ∈ (groupOf m n).deps, lookup m d = some p

/-- the edges are exactly the declared dependencies that have a producer, directed producer → consumer -/
theorem edge_iff_requirement (m : Manager) (p n : Nat) : (p, n) ∈ (toGraph m).edges ↔ Requires m n p :=
  mem_edges_iff m p n

/-- `n` requires `p` through a chain of declarations -/
inductive RequiresT (m : Manager) : Nat → Nat → Prop
  | base {n p} : Requires m n p → RequiresT m n p
  | step {n q p} : Requires m n q → RequiresT m q p → RequiresT m n p

theorem requirement_chain_is_path (m : Manager) {n p : Nat} (h : RequiresT m n p) : Path (toGraph m) p n := by
  induction h with
  | base h => exact Path.edge ((edge_iff_requirement m _ _).mpr h)
  | step h _ ih => exact Path.trans ih (Path.edge ((edge_iff_requirement m _ _).mpr h))

/-- the property, at the level of the model: an observed order that passes the check has every
initializer exactly once and each after everything it transitively requires -/
theorem observed_respects_requirements (m : Manager) (o : List Nat)
    (h : checkObserved (toGraph m) (initNodes m (toGraph m)) o = true) :
    (o.Nodup ∧ ∀ v, v ∈ o ↔ v ∈ initNodes m (toGraph m)) ∧
    ∀ n p, n ∈ initNodes m (toGraph m) → p ∈ initNodes m (toGraph m) → RequiresT m n p → idx o p < idx o n := by
  refine ⟨observed_once _ _ o h, fun n p hn hp hr => ?_⟩
  exact observed_sound (toGraph m) (toGraph_wf m) _ o (fun v hv => (List.mem_filter.mp hv).1) h hp hn
    (requirement_chain_is_path m hr)

/-- two producers of one resource (or one producer naming it twice): `add_resources` refuses -/
theorem dup_producer_rejected (m : Manager) (rtype : String) (names : List String) (producer : String)
    (deps : List String) (ht : resourceTypes.contains rtype = true) (hne : names ≠ [])
    (hdup : ¬ names.Nodup ∨ ∃ n ∈ names, (lookup m (rtype ++ "." ++ n)).isSome) :
    ∃ m', addResources m rtype names producer deps = .error (.dupResource, m') := by
  have hemp : names.isEmpty = false := by cases names with | nil => exact absurd rfl hne | cons _ _ => rfl
  have hd : ¬ (longNames rtype names).Nodup ∨ ∃ r ∈ longNames rtype names, r ∈ m.map.map (·.1) := by
    rcases hdup with h | ⟨n, hn, hl⟩
    · exact Or.inl (fun hnd => h (nodup_of_map _ _ hnd))
    · refine Or.inr ⟨rtype ++ "." ++ n, List.mem_map.mpr ⟨n, hn, rfl⟩, ?_⟩
      rw [← lookup_isSome_iff]; exact hl
  obtain ⟨map', hmap'⟩ := insertNames_dup m.groups.length _ m.map hd
  simp only [addResources, ht, Bool.not_true, Bool.false_eq_true, if_false, getResourceGroup, hemp, hmap']
  exact ⟨_, rfl⟩

/-- an unknown resource type is refused and changes nothing -/
theorem bad_type_rejected (m : Manager) (rtype : String) (names : List String) (producer : String)
    (deps : List String) (ht : resourceTypes.contains rtype = false) :
    addResources m rtype names producer deps = .error (.badType, m) := by
  unfold addResources; rw [ht]; rfl

/-- an accepted registration: every name was free, the group is appended with exactly the declared
producer and dependencies -/
theorem accepted_registration (m m' : Manager) (rtype : String) (names : List String) (producer : String)
    (deps : List String) (h : addResources m rtype names producer deps = .ok m') :
    m'.groups = m.groups ++ [(getResourceGroup m.nullCount rtype names producer deps).1] ∧
    (groupOf m' m.groups.length).deps = deps ∧ (groupOf m' m.groups.length).producer = producer ∧
    m'.map = m.map ++ (getResourceGroup m.nullCount rtype names producer deps).1.names.map (fun r => (r, m.groups.length)) ∧
    ∀ r ∈ (getResourceGroup m.nullCount rtype names producer deps).1.names, (lookup m r) = none := by
  simp only [addResources] at h
  split at h
  · cases h
  · split at h
    · rename_i map' hins
      cases h
      obtain ⟨h1, _, h3⟩ := insertNames_ok _ _ _ _ hins
      have hg : ∀ (g : Group), (m.groups ++ [g]).getD m.groups.length default = g := by
        intro g; simp [List.getD]
      refine ⟨rfl, ?_, ?_, h1, fun r hr => ?_⟩
      · simp only [groupOf, hg]; unfold getResourceGroup; split <;> rfl
      · simp only [groupOf, hg]; unfold getResourceGroup; split <;> rfl
      · have := h3 r hr
        rw [← lookup_isSome_iff] at this
        exact Option.not_isSome_iff_eq_none.mp this
    · cases h

/-- registrations in any number and order, refused ones skipped as a catching caller would -/
def addAll (m : Manager) : List (String × List String × String × List String) → Manager
  | [] => m
  | (t, ns, p, ds) :: rest =>
    match addResources m t ns p ds with
    | .ok m' => addAll m' rest
    | .error (_, m') => addAll m' rest

/-- for every registration history every resource name has exactly one producing group -/
theorem producers_unique (l : List (String × List String × String × List String)) (m : Manager)
    (h : (m.map.map (·.1)).Nodup) : ((addAll m l).map.map (·.1)).Nodup := by
  induction l generalizing m with
  | nil => exact h
  | cons a rest ih =>
    obtain ⟨t, ns, p, ds⟩ := a
    simp only [addAll]
    have key := insertNames_nodup m.groups.length (getResourceGroup m.nullCount t ns p ds).1.names m.map h
    cases hres : addResources m t ns p ds with
    | ok m' =>
      apply ih
      simp only [addResources] at hres
      split at hres
      · cases hres
      · split at hres
        · rename_i mp hins
          cases hres
          rw [hins] at key; exact key
        · cases hres
    | error em =>
      obtain ⟨e, m'⟩ := em
      apply ih
      simp only [addResources] at hres
      split at hres
      · cases hres; exact h
      · split at hres
        · cases hres
        · rename_i mp hins
          cases hres
          rw [hins] at key; exact key

/-- the iterated list contains each initializer node exactly once (and nothing else) -/
theorem initializers_once (m : Manager) (l : List Nat) (h : iterNodes m (toGraph m) = some l) :
    l.Nodup ∧ ∀ n, n ∈ l ↔ n ∈ initNodes m (toGraph m) := by
  simp only [iterNodes, Option.map_eq_some_iff] at h
  obtain ⟨o, ho, rfl⟩ := h
  have hs := checkOrder_sound _ o (kahn_sound _ (toGraph_wf m) o ho)
  refine ⟨hs.1.sublist List.filter_sublist, fun n => ?_⟩
  simp only [initNodes, List.mem_filter, hs.2.1 n]

/-- … in an order in which each comes after everything it transitively requires -/
theorem iteration_respects_requirements (m : Manager) (l : List Nat) (h : iterNodes m (toGraph m) = some l)
    {n p : Nat} (hn : n ∈ l) (hp : p ∈ l) (hr : RequiresT m n p) : idx l p < idx l n := by
  have hmem := (initializers_once m l h).2
  simp only [iterNodes, Option.map_eq_some_iff] at h
  obtain ⟨o, ho, rfl⟩ := h
  have hc := kahn_sound _ (toGraph_wf m) o ho
  have hlt := path_before _ o hc (requirement_chain_is_path m hr)
  have hn' := List.mem_filter.mp hn
  have hp' := List.mem_filter.mp hp
  exact idx_filter_lt _ o hp'.1 hn'.1 hp'.2 hn'.2 hlt

/-- … or not at all: iteration is refused exactly when the declarations contain a cycle -/
theorem iteration_refused_iff_cycle (m : Manager) :
    iterNodes m (toGraph m) = none ↔ ∃ u, Path (toGraph m) u u := by
  rw [← refuses_iff_cycle _ (toGraph_wf m)]
  simp [iterNodes]

/-! ### the graph is built once (initial creation and births share one order) -/

theorem addResources_cache (m m' : Manager) (rtype : String) (names : List String) (producer : String)
    (deps : List String) :
    (addResources m rtype names producer deps = .ok m' → m'.cache = m.cache) ∧
    (∀ e, addResources m rtype names producer deps = .error (e, m') → m'.cache = m.cache) := by
  constructor
  · intro h
    simp only [addResources] at h
    split at h
    · cases h
    · split at h
      · cases h; rfl
      · cases h
  · intro e h
    simp only [addResources] at h
    split at h
    · cases h; rfl
    · split at h
      · cases h
      · cases h; rfl

theorem graph_of_cached (m0 : Manager) (g : Graph) (h : m0.cache = some g) : (graph m0).2 = g := by
  unfold graph; rw [h]

/-- the order is computed once: after the first access of `graph` (the initial creation) every later
registration – accepted or refused – leaves the graph the births are sorted by unchanged -/
theorem late_registration_ignored (m : Manager) (l : List (String × List String × String × List String)) :
    (graph (addAll (graph m).1 l)).2 = (graph m).2 := by
  have hc : ∃ g, (graph m).1.cache = some g ∧ (graph m).2 = g := by
    unfold graph
    cases h : m.cache with
    | some g => exact ⟨g, by simp [h], rfl⟩
    | none => exact ⟨toGraph m, rfl, rfl⟩
  obtain ⟨g, hg, hg2⟩ := hc
  rw [hg2]
  have key : ∀ (l : List (String × List String × String × List String)) (m0 : Manager),
      m0.cache = some g → (addAll m0 l).cache = some g := by
    intro l
    induction l with
    | nil => intro m0 h; exact h
    | cons a rest ih =>
      intro m0 h
      obtain ⟨t, ns, p, ds⟩ := a
      simp only [addAll]
      cases hres : addResources m0 t ns p ds with
      | ok m1 => exact ih m1 (((addResources_cache m0 m1 t ns p ds).1 hres).trans h)
      | error em =>
        obtain ⟨e, m1⟩ := em
        exact ih m1 (((addResources_cache m0 m1 t ns p ds).2 e hres).trans h)
  exact graph_of_cached _ g (key l (graph m).1 hg)

/-- … and a second access returns the very same graph (initial creation and births see one order) -/
theorem graph_idempotent (m : Manager) : (graph (graph m).1).2 = (graph m).2 := by
  have := late_registration_ignored m []
  simpa [addAll] using this

/-! ### what the registration services declare (the implicit dependencies) -/

/-- `register_simulant_initializer` registers one group whose producer is the initializer and whose
dependencies are the declared columns, values and streams plus the implicit `column.tracked` -/
theorem initializer_declares (s s' : Sim) (comp label : String) (creates rc rv rs : List String)
    (h : registerInitializer s comp label creates rc rv rs = .ok s') :
    (groupOf s'.rm s.rm.groups.length).producer = label ∧
    (groupOf s'.rm s.rm.groups.length).deps = initDeps creates rc rv rs := by
  unfold registerInitializer at h
  split at h
  · cases h
  · split at h
    · cases h
    · obtain ⟨m, hm, rfl⟩ := liftRm_ok h
      have := accepted_registration _ _ _ _ _ _ hm
      exact ⟨this.2.2.1, this.2.1⟩

theorem tracked_implicit (creates rc rv rs : List String) (h : creates.contains "tracked" = false) :
    "column.tracked" ∈ initDeps creates rc rv rs := by
  simp only [initDeps, h]; simp

theorem declared_requirements_kept (creates rc rv rs : List String) :
    (∀ c ∈ rc, "column." ++ c ∈ initDeps creates rc rv rs) ∧ (∀ v ∈ rv, "value." ++ v ∈ initDeps creates rc rv rs) ∧
    (∀ x ∈ rs, "stream." ++ x ∈ initDeps creates rc rv rs) := by
  refine ⟨fun c hc => ?_, fun v hv => ?_, fun x hx => ?_⟩ <;>
    simp only [initDeps, reqNames, longNames, List.mem_append, List.mem_map]
  · exact Or.inl (Or.inl (Or.inl ⟨c, hc, rfl⟩))
  · exact Or.inl (Or.inl (Or.inr ⟨v, hv, rfl⟩))
  · exact Or.inl (Or.inr ⟨x, hx, rfl⟩)

/-- the same initializer, registered twice for one component or for an already produced column, is
refused before the resource manager is even asked -/
theorem second_initializer_rejected (s : Sim) (comp label : String) (creates rc rv rs : List String)
    (h : s.initComponents.contains comp = true) :
    registerInitializer s comp label creates rc rv rs = .error .dupInitializer := by
  simp only [registerInitializer, h, if_true]

/-- a randomness stream (one that does not initialize CRN attributes) depends on every key column -/
theorem stream_depends_on_key_columns (s s' : Sim) (name : String) (h : getStream s name false = .ok s') :
    (groupOf s'.rm s.rm.groups.length).deps = longNames "column" s.keyColumns := by
  unfold getStream at h
  split at h
  · cases h
  · simp only [Bool.false_eq_true, if_false] at h
    obtain ⟨m, hm, rfl⟩ := liftRm_ok h
    exact (accepted_registration _ _ _ _ _ _ hm).2.1

/-- the pipeline value depends on its source … -/
theorem value_depends_on_source (s : Sim) (p : Pipe) (h : p.hasSource = true) :
    "value_source." ++ p.key ∈ valueDeps s p := by
  simp [valueDeps, h]

/-- … and on every modifier, under the number it got when it was registered -/
theorem value_depends_on_modifier (s : Sim) (p : Pipe) (k : Nat) (c : Callable) (h : p.mutators[k]? = some c) :
    "value_modifier." ++ p.key ++ "." ++ toString (1 + k) ++ "." ++ modifierName s c ∈ valueDeps s p := by
  simp only [valueDeps, List.mem_append, List.mem_map]
  exact Or.inr ⟨(1 + k, c), mem_enumFrom _ 1 k c h, rfl⟩

/-- the group `on_post_setup` registers for pipeline `p` -/
def valueGroup (s : Sim) (p : Pipe) : Group :=
  ⟨"value", ["value." ++ p.key], "pipeline." ++ p.key, valueDeps s p⟩

theorem postSetup_fold (s0 : Sim) : ∀ (ps : List Pipe) (s s' : Sim),
    ps.foldlM (fun s' p => liftRm s' (addResources s'.rm "value" [p.key] ("pipeline." ++ p.key) (valueDeps s0 p))) s = .ok s' →
      s'.rm.groups = s.rm.groups ++ ps.map (valueGroup s0) := by
  intro ps
  induction ps with
  | nil => intro s s' h; simp only [List.foldlM_nil, pure, Except.pure, Except.ok.injEq] at h; simp [h]
  | cons p ps ih =>
    intro s s' h
    simp only [List.foldlM_cons, bind, Except.bind] at h
    split at h
    · cases h
    · rename_i s1 h1
      obtain ⟨m, hm, rfl⟩ := liftRm_ok h1
      have hg := (accepted_registration _ _ _ _ _ _ hm).1
      have := ih _ _ h
      rw [this]
      simp only [hg, List.map_cons, List.append_assoc, List.singleton_append]
      rfl

/-- `on_post_setup` registers, for every pipeline, the value with its source and all its modifiers as
dependencies -/
theorem postSetup_declares (s s' : Sim) (h : postSetup s = .ok s') :
    s'.rm.groups = s.rm.groups ++ s.pipes.map (valueGroup s) := postSetup_fold s s.pipes s s' h

theorem accepted_group (m m' : Manager) (rtype : String) (names : List String) (producer : String)
    (deps : List String) (h : addResources m rtype names producer deps = .ok m') :
    groupOf m' m.groups.length = (getResourceGroup m.nullCount rtype names producer deps).1 := by
  have := (accepted_registration m m' rtype names producer deps h).1
  simp [groupOf, this, List.getD]

theorem touchPipe_rm (s : Sim) (key : String) : (touchPipe s key).rm = s.rm := by
  unfold touchPipe; split <;> rfl

/-- `register_value_modifier` appends the modifier to the pipeline and registers it under the pipeline's
key, its position and its name -/
theorem modifier_registers (s s' : Sim) (key : String) (c : Callable) (rc rv rs : List String)
    (h : registerModifier s key c rc rv rs = .ok s') :
    ∃ p', findPipe s' key = some p' ∧ p'.mutators.getLast? = some c ∧
      (groupOf s'.rm s.rm.groups.length).names =
        ["value_modifier." ++ key ++ "." ++ toString p'.mutators.length ++ "." ++ modifierName s c] := by
  obtain ⟨p, hp, _⟩ := findPipe_touch s key
  have hup := findPipe_update (touchPipe s key) key
    (fun p => { p with named := true, mutators := p.mutators ++ [c] }) (fun _ => rfl) p hp
  unfold registerModifier at h
  simp only [hup, Option.map_some, Option.getD_some] at h
  obtain ⟨m, hm, rfl⟩ := liftRm_ok h
  refine ⟨_, hup, by simp, ?_⟩
  have hrm : (updatePipe (touchPipe s key) key
      (fun p => { p with named := true, mutators := p.mutators ++ [c] })).rm = s.rm := by
    simp [updatePipe, touchPipe_rm]
  rw [hrm] at hm
  have := accepted_group _ _ _ _ _ _ hm
  simp only [this]
  simp [getResourceGroup, longNames, String.append_assoc]



/-- the name of a callable that is not a `Pipeline` object does not depend on the registration state -/
theorem modifierName_plain (s s' : Sim) (c : Callable) (hc : ∀ k, c ≠ .pipeline k) :
    modifierName s' c = modifierName s c := by
  cases c with
  | pipeline k => exact absurd rfl (hc k)
  | named n => rfl
  | method o f => rfl
  | func n => rfl
  | object c => rfl

/-- the names line up: the resource a modifier is registered under is among the dependencies
`on_post_setup` computes for that pipeline (so the edge modifier → value exists); for a `Pipeline` object
this needs its name to be the same at both moments – what finding F17 violated and `pipeline_object_named`
now guarantees -/
theorem modifier_resource_is_value_dependency (s s' : Sim) (key : String) (c : Callable) (rc rv rs : List String)
    (h : registerModifier s key c rc rv rs = .ok s') (hc : modifierName s' c = modifierName s c) :
    ∃ p', findPipe s' key = some p' ∧ ∀ r ∈ (groupOf s'.rm s.rm.groups.length).names, r ∈ valueDeps s' p' := by
  obtain ⟨p', hp', hlast, hnames⟩ := modifier_registers s s' key c rc rv rs h
  refine ⟨p', hp', fun r hr => ?_⟩
  rw [hnames, List.mem_singleton] at hr
  have hkey : p'.key = key := by
    have := List.find?_some hp'
    simpa using this
  have hlen : p'.mutators ≠ [] := by intro h0; rw [h0] at hlast; simp at hlast
  have hk : p'.mutators[p'.mutators.length - 1]? = some c := by
    rw [List.getLast?_eq_getElem?] at hlast; exact hlast
  have := value_depends_on_modifier s' p' (p'.mutators.length - 1) c hk
  have hl : 1 + (p'.mutators.length - 1) = p'.mutators.length := by
    have := List.length_pos_iff.mpr hlen; omega
  rw [hl, hc, hkey] at this
  rw [hr]; exact this

/-- a `Pipeline` object handed out by `get_value` knows its key (the repair of finding F17), so using it
as a source or modifier declares the dependency `value.<key>` whatever the supply order -/
theorem pipeline_object_named (s : Sim) (key : String) : pipeName (getValue s key) key = key := by
  obtain ⟨p, hp, hk⟩ := findPipe_touch s key
  have := findPipe_update (touchPipe s key) key (fun p => { p with named := true }) (fun _ => rfl) p hp
  simp only [pipeName, getValue, this, hk, if_true]

theorem pipeline_object_declares (s : Sim) (key : String) (rc rv rs : List String) :
    convertDeps (getValue s key) (.pipeline key) rc rv rs = ["value." ++ key] := by
  simp only [convertDeps, pipeline_object_named]

/-! ### non-vacuity: the depth-adversarial program of the design round, built through the services -/

/-- W ← X ← Y ← Z (columns), pipeline `v` with a plain source and a modifier that needs `z`, initializer A
needs `v`. `withMod := false` drops the modifier's requirement (what the mutant did). -/
def adversarial (withMod : Bool) : R := do
  let s ← frameworkSetup [] "clock"
  let s ← registerInitializer s "A" "A" ["a"] [] ["v"] []
  let s ← registerProducer s "v" "P.src" (.func "src") [] [] []
  let s ← registerModifier s "v" (.method "P" "mod") (if withMod then ["z"] else []) [] []
  let s ← registerInitializer s "Z" "Z" ["z"] ["y"] [] []
  let s ← registerInitializer s "Y" "Y" ["y"] ["x"] [] []
  let s ← registerInitializer s "X" "X" ["x"] ["w"] [] []
  let s ← registerInitializer s "W" "W" ["w"] [] [] []
  postSetup s

def producersInOrder (r : R) : Option (List String) :=
  match r with
  | .ok s => (iterNodes s.rm (toGraph s.rm)).map (fun o => o.map (fun n => (groupOf s.rm n).producer))
  | .error _ => none

example : producersInOrder (adversarial true) = some ["population_manager", "clock", "W", "X", "Y", "Z", "A"] := by decide
example : producersInOrder (adversarial false) = some ["population_manager", "clock", "W", "A", "X", "Y", "Z"] := by decide

-- hypotheses inhabited: a certified order, an accepted and a refused observed order, a cycle, a duplicate
def g4 : Graph := ⟨[1, 2, 3, 4], [(3, 1), (1, 2), (4, 2)]⟩
example : WF g4 := ⟨by decide, by decide⟩
example : topoSort g4 = some [3, 4, 1, 2] ∧ checkOrder g4 [3, 4, 1, 2] = true := by decide
example : checkObserved g4 [3, 2] [3, 2] = true ∧ checkObserved g4 [3, 2] [2, 3] = false := by decide
example : Path ⟨[1, 2], [(1, 2), (2, 1)]⟩ 1 1 := Path.trans (v := 2) (Path.edge (by decide)) (Path.edge (by decide))
example : topoSort ⟨[1, 2], [(1, 2), (2, 1)]⟩ = none := by decide
example : (match addResources {} "column" ["a", "a"] "p" [] with | .error (.dupResource, _) => true | _ => false) = true := by decide

/-- the resource types the model accepts are exactly `RESOURCE_TYPES` of the working tree's
framework/resource.py (regenerated on every run), and the null type is `NULL_RESOURCE_TYPE` -/
theorem gen_resource_types :
    (Viv.Topo.resourceTypes.all Viv.Gen.resourceTypes.contains &&
     Viv.Gen.resourceTypes.all Viv.Topo.resourceTypes.contains) = true ∧
    Viv.Topo.nullType = Viv.Gen.nullResourceType := by decide

end Viv.Props.C09
