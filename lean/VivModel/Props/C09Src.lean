import VivModel.Model.Topo
import VivModel.Gen.Src
import VivModel.Lemmas.PyAst
import VivModel.Lemmas.PyState
/-! C09, source tie: the Python source of `ResourceManager.sorted_nodes` (`Gen/Src.lean`, regenerated from the tree under
test on every run) evaluated by `Py.evalBlock`, with the memo `_sorted_nodes` as monadic state that survives a raise and
`networkx.topological_sort` as ANY function from the graph to "an order or `NetworkXUnfeasible`": a remembered order is
handed out again; otherwise the graph is sorted once, the order remembered and handed out; a cyclic graph is refused with
`ResourceError` and nothing is remembered - so it is refused EVERY time (`cycle_refused_every_time`), also after a caller
caught the first refusal. (That the order networkx returns respects every edge is checked per run by the proved checker
`C09.checkOrder_sound`; which edges there are is `toGraph`.) -/
namespace Viv.Props.C09Src
open Viv.Py Viv.Topo

/-- the Python objects `ResourceManager.sorted_nodes` touches -/
inductive RV where
  | none | bool (b : Bool) | int (i : Int) | str (s : String)
  | self | modNx | modAlg | graphV
  | topoFn | listFn
  /-- an order of the graph's nodes (the iterator `topological_sort` returns, or the list made of it) -/
  | order (o : List Nat)
  | list (vs : List RV)

/-- the memo `_sorted_nodes` is the state; it survives a raised exception -/
abbrev M := SM (Option (List Nat))

def rGetAttr : RV → String → M RV
  | .self, a =>
    if a == "_sorted_nodes" then do
      let memo ← (get : M (Option (List Nat)))
      pure (match memo with | some o => .order o | Option.none => .none)
    else if a == "graph" then pure .graphV
    else throw "AttributeError"
  | .modNx, a => if a == "algorithms" then pure .modAlg else if a == "topological_sort" then pure .topoFn else throw "AttributeError"
  | .modAlg, a => if a == "topological_sort" then pure .topoFn else throw "AttributeError"
  | _, _ => throw "AttributeError"

def rSetAttr : RV → String → RV → M Unit
  | .self, a, .order o => if a == "_sorted_nodes" then (set (σ := Option (List Nat)) (some o) : M Unit) else throw "AttributeError"
  | _, _, _ => throw "AttributeError"

/-- `topo g`: what `networkx.topological_sort` yields for the graph - some order of all nodes, or `none` for a cyclic
graph (`NetworkXUnfeasible`, raised when the iterator is consumed by `list(...)`); ANY such function -/
def rworld (topo : Option (List Nat)) : World M RV where
  none := .none
  bool := .bool
  int := .int
  str := .str
  list := .list
  newList vs := pure (.list vs)
  tuple := .list
  global n := if n == "nx" then pure .modNx else if n == "list" then pure .listFn else throw "NameError"
  truthy
    | .none => pure false
    | .bool b => pure b
    | _ => pure true
  getAttr := rGetAttr
  setAttr := rSetAttr
  call f args kws := match f, args, kws with
    | .topoFn, [.graphV], [] => match topo with
      | some o => pure (.order o)
      | Option.none => throw "NetworkXUnfeasible"
    | .listFn, [.order o], [] => pure (.order o)
    | _, _, _ => throw "TypeError"
  cmp op l r := match r with
    | .none => if op == "Is" then pure (.bool (match l with | .none => true | _ => false)) else throw "TypeError"
    | _ => throw "TypeError"
  bin _ _ _ := throw "TypeError"
  neg _ := throw "TypeError"
  sub _ _ := throw "TypeError"
  slice _ _ := .none
  setItem _ _ _ := throw "TypeError"
  iter _ := throw "TypeError"
  unstar _ := throw "TypeError"
  format _ := throw "TypeError"
  concat _ := throw "TypeError"
  dict _ := throw "TypeError"
  whileLoop _ _ _ := throw "Unsupported"
  other _ := throw "Unsupported"
  throw cls := throw cls
  rethrow := throw "reraise"
  catchAll body handler := tryCatch body (fun _ => handler)
  catchCls cls body handler := tryCatch body (fun e => if e == cls then handler else throw e)

/-- the model of the memoised order: a remembered order is handed out again; otherwise the graph is sorted - an order is
remembered and handed out, a cycle is refused with `ResourceError` and NOTHING is remembered -/
def sortedNodes (topo : Option (List Nat)) (memo : Option (List Nat)) : Except String (List Nat) × Option (List Nat) :=
  match memo with
  | some o => (.ok o, some o)
  | Option.none => match topo with
    | some o => (.ok o, some o)
    | Option.none => (.error "ResourceError", Option.none)

theorem sortedNodes_refines (topo memo : Option (List Nat)) :
    runM (Gen.Src.resourceSortedNodes.run (rworld topo) [("self", .self)]) memo
      = ((sortedNodes topo memo).1.map RV.order, (sortedNodes topo memo).2) := by
  rw [runM_func]
  simp only [Gen.Src.resourceSortedNodes]
  cases memo with
  | some o =>
    repeat pystep [rworld, rGetAttr, rSetAttr]
    simp [sortedNodes, Except.map]
  | none =>
    cases topo with
    | some o =>
      repeat pystep [rworld, rGetAttr, rSetAttr]
      simp [sortedNodes, Except.map]
    | none =>
      repeat pystep [rworld, rGetAttr, rSetAttr]
      simp [sortedNodes, Except.map]

/-- a cyclic graph is refused EVERY time the order is asked for: the first refusal leaves nothing behind that a later
request could hand out -/
theorem cycle_refused_every_time (n : Nat) :
    (Nat.repeat (fun memo => (runM (Gen.Src.resourceSortedNodes.run (rworld Option.none) [("self", .self)]) memo).2) n Option.none)
      = Option.none
    ∧ (runM (Gen.Src.resourceSortedNodes.run (rworld Option.none) [("self", .self)]) Option.none).1 = .error "ResourceError" := by
  constructor
  · induction n with
    | zero => rfl
    | succ k ih =>
      simp only [Nat.repeat]
      rw [ih]
      simp [sortedNodes_refines, sortedNodes]
  · simp [sortedNodes_refines, sortedNodes, Except.map]

end Viv.Props.C09Src
