import VivModel.Model.Clock
import VivModel.Lemmas.Clock
/-! C10 — per-simulant clocks: nobody is skipped, nobody is updated early.

Model: `Viv.Clock` (`time.py` `SimulationClock.step_forward / get_active_simulants /
move_simulants_to_end / step_size_post_processor / on_initialize_simulants`, `engine.py`
`initialize_simulants / step / run`). All statements are for EVERY clock configuration, population,
schedule of modifier outputs (`mods : Nat → List (Option Nat)`, one arbitrary function per clock update),
births and move-to-end requests. -/
namespace Viv.Props.C10
open Viv.Clock

/-! ### 1. The step of a simulant -/

/-- the value the post-processor works on is the smallest step requested for the simulant by any
modifier, or the standard step when no modifier covers the simulant -/
theorem requested_is_min (std : Int) (mods : List (Option Nat)) :
    ((∀ o ∈ mods, o = none) ∧ requested std mods = std) ∨
    ((∃ v : Nat, some v ∈ mods ∧ requested std mods = (v : Int)) ∧
      ∀ v : Nat, some v ∈ mods → requested std mods ≤ (v : Int)) := by
  unfold requested
  cases h : minOpt ((mods.filterMap id).map Int.ofNat) with
  | none =>
    left
    have hnil := minOpt_eq_none h
    simp only [List.map_eq_nil_iff] at hnil
    refine ⟨?_, rfl⟩
    intro o ho
    cases o with
    | none => rfl
    | some v =>
      have : v ∈ mods.filterMap id := by
        simp only [List.mem_filterMap, id]; exact ⟨some v, ho, rfl⟩
      rw [hnil] at this; cases this
  | some m =>
    right
    obtain ⟨hm, hle⟩ := minOpt_spec h
    obtain ⟨v, hv, rfl⟩ := List.mem_map.mp hm
    simp only [List.mem_filterMap, id] at hv
    obtain ⟨o, ho, rfl⟩ := hv
    refine ⟨⟨v, ho, rfl⟩, ?_⟩
    intro w hw
    apply hle
    apply List.mem_map.mpr
    refine ⟨w, ?_, rfl⟩
    simp only [List.mem_filterMap, id]; exact ⟨some w, hw, rfl⟩

/-- `postProcess_spec`: the step is the requested step rounded down to a whole multiple of the
minimum step, and never below the minimum step. -/
theorem postProcess_spec (minStep std : Int) (mods : List (Option Nat)) (hm : 0 < minStep) (hstd : 0 ≤ std) :
    postProcess minStep std mods = max minStep (requested std mods / minStep * minStep) := by
  unfold postProcess
  simp only
  have hq : 0 ≤ requested std mods / minStep :=
    Int.ediv_nonneg (requested_nonneg std mods hstd) (Int.le_of_lt hm)
  split
  · rename_i h
    rw [h]; simp [Int.max_def]; omega
  · rename_i h
    have h1 : 1 ≤ requested std mods / minStep := by omega
    have : minStep ≤ requested std mods / minStep * minStep :=
      calc minStep = 1 * minStep := by simp
        _ ≤ _ := Int.mul_le_mul_of_nonneg_right h1 (Int.le_of_lt hm)
    rw [Int.max_def]; simp [this]

/-- "rounded down to a whole multiple": when at least the minimum step is requested the result is the
unique multiple `k·minStep` with `k·minStep ≤ requested < (k+1)·minStep`. -/
theorem postProcess_floor (minStep std : Int) (mods : List (Option Nat)) (hm : 0 < minStep)
    (hr : minStep ≤ requested std mods) :
    (∃ k : Int, 1 ≤ k ∧ postProcess minStep std mods = k * minStep) ∧
    postProcess minStep std mods ≤ requested std mods ∧
    requested std mods < postProcess minStep std mods + minStep := by
  have hq1 : 1 ≤ requested std mods / minStep := by
    have := Int.ediv_le_ediv hm hr
    rwa [Int.ediv_self (Int.ne_of_gt hm)] at this
  have hne : requested std mods / minStep ≠ 0 := by omega
  have hpp : postProcess minStep std mods = requested std mods / minStep * minStep := by
    unfold postProcess; simp only [hne, ↓reduceIte]
  have h1 := Int.emod_add_mul_ediv (requested std mods) minStep
  have h2 := Int.emod_nonneg (requested std mods) (Int.ne_of_gt hm)
  have h3 := Int.emod_lt_of_pos (requested std mods) hm
  rw [Int.mul_comm] at h1
  rw [hpp]
  refine ⟨⟨_, hq1, rfl⟩, ?_, ?_⟩ <;> omega

/-- … and a request below the minimum step (including zero) is raised to the minimum step. -/
theorem postProcess_below_min (minStep std : Int) (mods : List (Option Nat))
    (h0 : 0 ≤ requested std mods) (hr : requested std mods < minStep) :
    postProcess minStep std mods = minStep := by
  unfold postProcess
  simp only [Int.ediv_eq_zero_of_lt h0 hr, ↓reduceIte, Int.one_mul]

/-! ### 2. The invariant -/

/-- `J`: nobody's next-event time is behind the next event time of the global clock, somebody sits
exactly on it, and the global step is positive. -/
def J (c : Clock) : Prop :=
  (∀ s ∈ c.sims, c.now + c.step ≤ s.next) ∧
  (c.sims ≠ [] → ∃ s ∈ c.sims, s.next = c.now + c.step) ∧ 0 < c.step

/-- static sanity of the configuration (what `DateTimeClock.setup` produces from positive settings) -/
def Cfg (c : Clock) : Prop := 0 < c.minStep ∧ 0 ≤ c.stdStep

/-- after an update every simulant's next-event time is strictly ahead of the clock, provided the
clock landed before the parking time `stop + minStep` -/
theorem updSim_next_gt (c : Clock) (now' : Int) (mods : Nat → List (Option Nat)) (s : SimClk)
    (hc : Cfg c) (hland : now' < c.stop + c.minStep) : now' < (updSim c now' mods s).next := by
  unfold updSim
  split
  · simp only
    split
    · omega
    · have := postProcess_ge c.minStep c.stdStep (mods s.id) hc.1 hc.2
      have := hc.1
      omega
  · rename_i h
    simp only [needsUpdate, due, Bool.or_eq_true, decide_eq_true_eq, not_or] at h
    omega

/-- `stepForward_J`: the clock update re-establishes the invariant, for every output of the modifiers,
whenever the step lands before the parking time (hypothesis stated as in DESIGN.md: it holds for every
step the `while time < stop` loop takes except a last landing at or beyond `stop + minStep`, after
which the loop has ended). -/
theorem stepForward_J (c : Clock) (mods : Nat → List (Option Nat)) (hc : Cfg c) (hJ : J c)
    (hland : c.now + c.step < c.stop + c.minStep) : J (stepForward c mods) := by
  by_cases he : c.sims = []
  · rw [stepForward_empty c mods he]
    refine ⟨?_, ?_, hJ.2.2⟩
    · intro s hs; simp [he] at hs
    · intro h; exact absurd he h
  · obtain ⟨m, hsome, heq⟩ := stepForward_nonempty c mods he
    rw [heq]
    obtain ⟨hmem, hle⟩ := minOpt_spec hsome
    obtain ⟨smin, hsmin, hnext⟩ := List.mem_map.mp hmem
    obtain ⟨s0, _, hs0⟩ := List.mem_map.mp hsmin
    refine ⟨?_, ?_, ?_⟩
    · intro s hs'
      have := hle s.next (List.mem_map_of_mem hs')
      simp only; omega
    · intro _
      exact ⟨smin, hsmin, by simp only; omega⟩
    · have := updSim_next_gt c (c.now + c.step) mods s0 hc hland
      rw [hs0, hnext] at this
      simp only; omega

/-- without a pending move-to-end request the landing hypothesis is not needed at all -/
theorem stepForward_J_no_pending (c : Clock) (mods : Nat → List (Option Nat)) (hc : Cfg c) (hJ : J c)
    (hp : c.snooze = []) : J (stepForward c mods) := by
  by_cases he : c.sims = []
  · rw [stepForward_empty c mods he]
    exact ⟨by intro s hs; simp [he] at hs, fun h => absurd he h, hJ.2.2⟩
  · obtain ⟨m, hsome, heq⟩ := stepForward_nonempty c mods he
    rw [heq]
    obtain ⟨hmem, hle⟩ := minOpt_spec hsome
    obtain ⟨smin, hsmin, hnext⟩ := List.mem_map.mp hmem
    obtain ⟨s0, _, hs0⟩ := List.mem_map.mp hsmin
    refine ⟨?_, ?_, ?_⟩
    · intro s hs'
      have := hle s.next (List.mem_map_of_mem hs')
      simp only; omega
    · intro _
      exact ⟨smin, hsmin, by simp only; omega⟩
    · have : c.now + c.step < (updSim c (c.now + c.step) mods s0).next := by
        unfold updSim
        split
        · simp only [hp, List.contains_nil, Bool.false_eq_true, ↓reduceIte]
          have := postProcess_ge c.minStep c.stdStep (mods s0.id) hc.1 hc.2
          have := hc.1
          omega
        · rename_i h
          simp only [needsUpdate, due, Bool.or_eq_true, decide_eq_true_eq, not_or] at h
          omega
      rw [hs0, hnext] at this
      simp only; omega

/-- births keep the invariant: a newborn's first event is the event in progress -/
theorem create_J (c : Clock) (k : Nat) (hJ : J c) : J (create c k) := by
  refine ⟨?_, ?_, hJ.2.2⟩
  · intro s hs
    rcases (mem_create c k s).mp hs with h | ⟨j, _, rfl⟩
    · exact hJ.1 s h
    · simp [create, eventTime]
  · intro hne
    by_cases he : c.sims = []
    · cases k with
      | zero => simp [create, he] at hne
      | succ k =>
        refine ⟨⟨c.sims.length + 0, eventTime c, c.step⟩, (mem_create c (k + 1) _).mpr (Or.inr ⟨0, by omega, rfl⟩), ?_⟩
        simp [create, eventTime]
    · obtain ⟨s, hs, hn⟩ := hJ.2.1 he
      exact ⟨s, (mem_create c k s).mpr (Or.inl hs), by simpa [create] using hn⟩

/-- move-to-end requests only touch the pending set -/
theorem moveToEnd_J (c : Clock) (ids : List Nat) (hJ : J c) : J (moveToEnd c ids) := by
  unfold moveToEnd; split
  · exact hJ
  · exact hJ

theorem act_J (c : Clock) (a : Act) (hJ : J c) : J (act c a) := by
  cases a with
  | birth k => exact create_J c k hJ
  | toEnd ids => exact moveToEnd_J c ids hJ

/-- everything a simulation can do to its clock after `initialize_simulants`: listeners create
simulants and request moves to the end in any order and number; the main loop updates the clock
(with arbitrary modifier outputs) only while `time < stop`. -/
inductive Steps : Clock → Clock → Prop
  | refl (c : Clock) : Steps c c
  | act {c c' : Clock} (a : Act) : Steps c c' → Steps c (act c' a)
  | step {c c' : Clock} (mods : Nat → List (Option Nat)) : Steps c c' → c'.now < c'.stop →
      Steps c (stepForward c' mods)

/-- the inductive invariant of the main loop -/
def Inv (c : Clock) : Prop := Cfg c ∧ (c.now < c.stop → J c)

theorem steps_Inv {c c' : Clock} (h : Steps c c') (hi : Inv c) :
    Inv c' ∧ c'.stop = c.stop ∧ c'.minStep = c.minStep ∧ c'.stdStep = c.stdStep := by
  induction h with
  | refl => exact ⟨hi, rfl, rfl, rfl⟩
  | act a _ ih =>
    obtain ⟨⟨hc, hj⟩, h1, h2, h3⟩ := ih
    refine ⟨⟨?_, ?_⟩, by simp [h1], by simp [h2], by simp [h3]⟩
    · simpa [Cfg] using hc
    · intro hrun
      simp only [act_now, act_stop] at hrun
      exact act_J _ a (hj hrun)
  | step mods _ hrun ih =>
    obtain ⟨⟨hc, hj⟩, h1, h2, h3⟩ := ih
    refine ⟨⟨?_, ?_⟩, by simp [h1], by simp [h2], by simp [h3]⟩
    · simpa [Cfg] using hc
    · intro hrun'
      simp only [stepForward_now, stepForward_stop] at hrun'
      exact stepForward_J _ mods hc (hj hrun) (by have := hc.1; omega)

/-- the state `initialize_simulants` leaves behind satisfies the invariant -/
theorem initSims_Inv (start stop minStep std : Int) (n : Nat) (mods : Nat → List (Option Nat))
    (hm : 0 < minStep) (hstd : 0 ≤ std) : Inv (initSims (configure start stop minStep std) n mods) := by
  have hcfg : Cfg (create (stepBackward (configure start stop minStep std)) n) := by
    simp only [Cfg, create, stepBackward, configure]
    refine ⟨hm, ?_⟩
    split <;> omega
  have hJ0 : J (create (stepBackward (configure start stop minStep std)) n) := by
    apply create_J
    refine ⟨?_, ?_, ?_⟩
    · intro s hs; simp [stepBackward, configure] at hs
    · intro h; simp [stepBackward, configure] at h
    · simpa [stepBackward, configure] using hm
  refine ⟨?_, ?_⟩
  · simpa [Cfg, initSims] using hcfg
  · intro hrun
    unfold initSims at hrun ⊢
    simp only [stepForward_now, stepForward_stop] at hrun
    exact stepForward_J _ mods hcfg hJ0 (by have := hcfg.1; omega)

/-- `reachable_J`: in every state the main loop can be in when it emits an event (clock before the
stop time), reached from `initialize_simulants` through ANY schedule of modifier outputs, births and
move-to-end requests, the invariant holds. -/
theorem reachable_J (start stop minStep std : Int) (n : Nat) (mods0 : Nat → List (Option Nat)) (c : Clock)
    (hm : 0 < minStep) (hstd : 0 ≤ std)
    (h : Steps (initSims (configure start stop minStep std) n mods0) c) (hrun : c.now < c.stop) : J c :=
  (steps_Inv h (initSims_Inv start stop minStep std n mods0 hm hstd)).1.2 hrun

/-! ### 3. What the invariant says about events and updates -/

/-- `advance_to_earliest`: the clock update moves the global clock exactly to the earliest pending
next-event time. -/
theorem advance_to_earliest (c : Clock) (mods : Nat → List (Option Nat)) (hJ : J c) (hne : c.sims ≠ []) :
    minOpt (c.sims.map (·.next)) = some (stepForward c mods).now := by
  obtain ⟨s, hs, hn⟩ := hJ.2.1 hne
  rw [stepForward_now]
  apply minOpt_unique
  · exact List.mem_map.mpr ⟨s, hs, hn⟩
  · intro y hy
    obtain ⟨t, ht, rfl⟩ := List.mem_map.mp hy
    exact hJ.1 t ht

/-- … and the new global step points at the earliest pending next-event time again (this half needs
no hypothesis: it is how `step_forward` computes the step). -/
theorem next_event_is_earliest (c : Clock) (mods : Nat → List (Option Nat)) (hne : c.sims ≠ []) :
    minOpt ((stepForward c mods).sims.map (·.next)) = some (eventTime (stepForward c mods)) := by
  obtain ⟨m, hsome, heq⟩ := stepForward_nonempty c mods hne
  rw [heq]
  simp only [eventTime, hsome]
  congr 1; omega

/-- `active_exact`: the index of a main-loop event is exactly the set of simulants whose next-event
time equals the event time (nobody early, nobody skipped). -/
theorem active_exact (c : Clock) (hJ : J c) (i : Nat) :
    i ∈ active c ↔ ∃ s ∈ c.sims, s.id = i ∧ s.next = eventTime c := by
  simp only [active, activeAt, List.mem_map, List.mem_filter, due, decide_eq_true_eq, eventTime]
  constructor
  · rintro ⟨s, ⟨hs, hd⟩, rfl⟩
    exact ⟨s, hs, rfl, by have := hJ.1 s hs; omega⟩
  · rintro ⟨s, hs, rfl, hn⟩
    exact ⟨s, ⟨hs, by omega⟩, rfl⟩

/-- no next-event time is ever passed: when the clock moves, it moves to a time that no simulant's
next-event time precedes, and the simulants it reaches are exactly those of the event just emitted. -/
theorem never_passed (c : Clock) (mods : Nat → List (Option Nat)) (hJ : J c) (s : SimClk) (hs : s ∈ c.sims) :
    (stepForward c mods).now ≤ s.next ∧ ((stepForward c mods).now = s.next ↔ s.id ∈ active c ∧ s.next = eventTime c) := by
  rw [stepForward_now]
  refine ⟨hJ.1 s hs, ?_⟩
  constructor
  · intro h
    exact ⟨(active_exact c hJ s.id).mpr ⟨s, hs, rfl, by simp [eventTime]; omega⟩, by simp [eventTime]; omega⟩
  · rintro ⟨_, h⟩; simp [eventTime] at h; omega

/-- the middle sentence of the property in one statement, for EVERY state in which the main loop emits
an event (reached from `initialize_simulants` through any schedule): the event includes exactly the
simulants whose next-event time equals the event time, nobody's next-event time is earlier, the event
time is the earliest pending next-event time, and the clock update that follows moves the clock exactly
there. -/
theorem reachable_event_exact (start stop minStep std : Int) (n : Nat) (mods0 : Nat → List (Option Nat)) (c : Clock)
    (hm : 0 < minStep) (hstd : 0 ≤ std)
    (h : Steps (initSims (configure start stop minStep std) n mods0) c) (hrun : c.now < c.stop) :
    (∀ i, i ∈ active c ↔ ∃ s ∈ c.sims, s.id = i ∧ s.next = eventTime c) ∧
    (∀ s ∈ c.sims, eventTime c ≤ s.next) ∧
    (c.sims ≠ [] → minOpt (c.sims.map (·.next)) = some (eventTime c)) ∧
    (∀ mods, (stepForward c mods).now = eventTime c) := by
  have hJ := reachable_J start stop minStep std n mods0 c hm hstd h hrun
  refine ⟨active_exact c hJ, hJ.1, ?_, fun mods => by simp [eventTime]⟩
  intro hne
  have := advance_to_earliest c (fun _ => []) hJ hne
  simpa [eventTime] using this

/-- … and after the update everybody's next-event time is strictly in the future again. -/
theorem all_ahead_after_update (c : Clock) (mods : Nat → List (Option Nat)) (hc : Cfg c)
    (hland : c.now + c.step < c.stop + c.minStep) :
    ∀ s ∈ (stepForward c mods).sims, (stepForward c mods).now < s.next := by
  intro s hs
  rw [stepForward_sims] at hs
  obtain ⟨s0, _, rfl⟩ := List.mem_map.mp hs
  rw [stepForward_now]
  exact updSim_next_gt c _ mods s0 hc hland

/-- `included_moves_forward`: a simulant included in the event (and not asked to move to the end)
gets the step the rule of section 1 gives for the current modifier outputs, and its next-event time
moves forward to the new clock plus that step. -/
theorem included_moves_forward (c : Clock) (mods : Nat → List (Option Nat)) (s : SimClk) (hs : s ∈ c.sims)
    (hdue : s.next ≤ eventTime c) (hp : s.id ∉ c.snooze) :
    ∃ s' ∈ (stepForward c mods).sims, s'.id = s.id ∧
      s'.step = postProcess c.minStep c.stdStep (mods s.id) ∧
      s'.next = (stepForward c mods).now + s'.step := by
  refine ⟨updSim c (c.now + c.step) mods s, ?_, by simp, ?_⟩
  · rw [stepForward_sims]; exact List.mem_map_of_mem hs
  · have hn : needsUpdate c (c.now + c.step) s = true := by
      simp [needsUpdate, due]; left; simpa [eventTime] using hdue
    unfold updSim
    simp [hn, hp]

/-- `untouched_keep_next`: a simulant that is not due and has no pending move-to-end request is not
touched by the update (same next-event time, same step). -/
theorem untouched_keep_next (c : Clock) (mods : Nat → List (Option Nat)) (s : SimClk) (hs : s ∈ c.sims)
    (hnot : eventTime c < s.next) (hp : s.id ∉ c.snooze) : s ∈ (stepForward c mods).sims := by
  rw [stepForward_sims]
  have : updSim c (c.now + c.step) mods s = s := by
    have hn : needsUpdate c (c.now + c.step) s = false := by
      simp only [needsUpdate, due, Bool.or_eq_false_iff, decide_eq_false_iff_not]
      exact ⟨by simp [eventTime] at hnot; omega, by simpa using hp⟩
    unfold updSim; simp [hn]
  exact List.mem_map.mpr ⟨s, hs, this⟩

/-- the update neither creates nor loses simulants -/
theorem stepForward_ids (c : Clock) (mods : Nat → List (Option Nat)) :
    (stepForward c mods).sims.map (·.id) = c.sims.map (·.id) := by
  rw [stepForward_sims, List.map_map]
  apply List.map_congr_left
  intro s _; simp

/-! ### 4. Moving simulants to the end -/

/-- a non-empty request is recorded, whatever labels it names – `{0}` included (F1) – and stays
pending through later listener actions until the clock update -/
theorem moveToEnd_pending (c : Clock) (ids : List Nat) (i : Nat) (hi : i ∈ ids) : i ∈ (moveToEnd c ids).snooze := by
  unfold moveToEnd
  split
  · rename_i h; simp at h; subst h; cases hi
  · simp only [List.mem_append, List.mem_filter]
    by_cases h : i ∈ c.snooze
    · exact Or.inl h
    · exact Or.inr ⟨hi, by simpa using h⟩

theorem acts_keep_pending (c : Clock) (acts : List Act) (i : Nat) (hi : i ∈ c.snooze) :
    i ∈ (acts.foldl act c).snooze := by
  induction acts generalizing c with
  | nil => exact hi
  | cons a as ih =>
    apply ih
    cases a with
    | birth k => exact hi
    | toEnd ids =>
      simp only [act, moveToEnd]
      split
      · exact hi
      · exact List.mem_append_left _ hi

/-- `i` is parked: every row carrying label `i` has next-event time `stop + minStep` -/
def Parked (c : Clock) (i : Nat) : Prop := ∀ s ∈ c.sims, s.id = i → s.next = c.stop + c.minStep

/-- `moved_to_end_parked`: the clock update parks every simulant with a pending request – due or not
(F2) – at `stop + minStep`. -/
theorem moved_to_end_parked (c : Clock) (mods : Nat → List (Option Nat)) (i : Nat) (hi : i ∈ c.snooze) :
    Parked (stepForward c mods) i := by
  intro s' hs' hid
  rw [stepForward_sims] at hs'
  obtain ⟨s, _, rfl⟩ := List.mem_map.mp hs'
  simp only [updSim_id] at hid
  have hmem : s.id ∈ c.snooze := hid ▸ hi
  have hn : needsUpdate c (c.now + c.step) s = true := by simp [needsUpdate, hmem]
  unfold updSim
  simp only [hn, List.contains_eq_mem, hmem, decide_true, ↓reduceIte, stepForward_stop, stepForward_minStep]
  omega

/-- a parked simulant is in no event whose event time is at or before the stop time -/
theorem parked_not_active (c : Clock) (i : Nat) (hm : 0 < c.minStep) (hp : Parked c i)
    (hev : eventTime c ≤ c.stop) : i ∉ active c := by
  intro h
  simp only [active, activeAt, List.mem_map, List.mem_filter, due, decide_eq_true_eq] at h
  obtain ⟨s, ⟨hs, hd⟩, hid⟩ := h
  have := hp s hs hid
  omega

/-- labels are `0, 1, 2, …` in creation order (so a newborn never takes the label of a parked simulant) -/
def IdsOk (c : Clock) : Prop := c.sims.map (·.id) = List.range c.sims.length

theorem create_IdsOk (c : Clock) (k : Nat) (h : IdsOk c) : IdsOk (create c k) := by
  unfold IdsOk at *
  simp only [create, List.map_append, List.map_map, List.length_append, List.length_map, List.length_range]
  rw [List.range_add, h]
  congr 1

theorem act_IdsOk (c : Clock) (a : Act) (h : IdsOk c) : IdsOk (act c a) := by
  cases a with
  | birth k => exact create_IdsOk c k h
  | toEnd ids => simpa [IdsOk, act] using h

theorem stepForward_IdsOk (c : Clock) (mods : Nat → List (Option Nat)) (h : IdsOk c) : IdsOk (stepForward c mods) := by
  unfold IdsOk at *
  rw [stepForward_ids, h, stepForward_sims, List.length_map]

theorem initSims_IdsOk (c : Clock) (n : Nat) (mods : Nat → List (Option Nat)) (h : c.sims = []) :
    IdsOk (initSims c n mods) := by
  apply stepForward_IdsOk
  apply create_IdsOk
  simp [IdsOk, stepBackward, h]

/-- with canonical labels, `i < population size` says exactly that `i` is a simulant -/
theorem IdsOk_mem (c : Clock) (i : Nat) (h : IdsOk c) : i < c.sims.length ↔ ∃ s ∈ c.sims, s.id = i := by
  have : i ∈ c.sims.map (·.id) ↔ i < c.sims.length := by rw [h]; exact List.mem_range
  rw [← this, List.mem_map]

/-- labels stay canonical along every continuation -/
theorem steps_IdsOk {c c' : Clock} (h : Steps c c') (hi : IdsOk c) : IdsOk c' := by
  induction h with
  | refl => exact hi
  | act a _ ih => exact act_IdsOk _ a ih
  | step m _ _ ih => exact stepForward_IdsOk _ m ih

/-- a parked simulant stays parked through births, further requests and every clock update that lands
before the parking time -/
theorem parked_step (c : Clock) (mods : Nat → List (Option Nat)) (i : Nat) (hp : Parked c i)
    (hland : c.now + c.step < c.stop + c.minStep) : Parked (stepForward c mods) i := by
  by_cases hi : i ∈ c.snooze
  · exact moved_to_end_parked c mods i hi
  · intro s' hs' hid
    rw [stepForward_sims] at hs'
    obtain ⟨s, hs, rfl⟩ := List.mem_map.mp hs'
    simp only [updSim_id] at hid
    have hnext := hp s hs hid
    have hn : needsUpdate c (c.now + c.step) s = false := by
      simp only [needsUpdate, due, Bool.or_eq_false_iff, decide_eq_false_iff_not]
      exact ⟨by omega, by simpa [hid] using hi⟩
    unfold updSim
    simp only [hn, Bool.false_eq_true, ↓reduceIte, stepForward_stop, stepForward_minStep]
    exact hnext

theorem parked_act (c : Clock) (a : Act) (i : Nat) (hk : i < c.sims.length) (hp : Parked c i) :
    Parked (act c a) i := by
  cases a with
  | toEnd ids =>
    intro s hs hid
    simp only [act, moveToEnd_sims] at hs
    simp only [act_stop, act_minStep]
    exact hp s hs hid
  | birth k =>
    intro s hs hid
    rcases (mem_create c k s).mp hs with h | ⟨j, _, rfl⟩
    · simpa [act, create] using hp s h hid
    · simp at hid; omega

/-- `moved_to_end_excluded`: once the clock update has processed a request for simulant `i`, then along
EVERY continuation of the simulation (any births, requests, modifier outputs), no main-loop event with
event time at or before the stop time includes `i`. -/
theorem moved_to_end_excluded (c c' : Clock) (mods : Nat → List (Option Nat)) (i : Nat)
    (hc : Cfg c) (hk : i < c.sims.length) (hi : i ∈ c.snooze)
    (h : Steps (stepForward c mods) c') (hrun : c'.now < c'.stop) (hev : eventTime c' ≤ c'.stop) :
    i ∉ active c' := by
  have key : ∀ d, Steps (stepForward c mods) d →
      (d.stop = c.stop ∧ d.minStep = c.minStep ∧ i < d.sims.length) ∧ (d.now < d.stop → Parked d i) := by
    intro d hd
    induction hd with
    | refl =>
      refine ⟨⟨by simp, by simp, ?_⟩, fun _ => moved_to_end_parked c mods i hi⟩
      rw [stepForward_sims, List.length_map]; exact hk
    | act a _ ih =>
      obtain ⟨⟨h1, h2, h4⟩, h5⟩ := ih
      refine ⟨⟨by simp [h1], by simp [h2], ?_⟩, ?_⟩
      · cases a with
        | birth k => simp only [act, create, List.length_append]; omega
        | toEnd ids => simpa [act] using h4
      · intro hr
        simp only [act_now, act_stop] at hr
        exact parked_act _ a i h4 (h5 hr)
    | step m _ hr ih =>
      obtain ⟨⟨h1, h2, h4⟩, h5⟩ := ih
      refine ⟨⟨by simp [h1], by simp [h2], ?_⟩, ?_⟩
      · rw [stepForward_sims, List.length_map]; exact h4
      · intro hr'
        simp only [stepForward_now, stepForward_stop] at hr'
        have hm : 0 < c.minStep := hc.1
        exact parked_step _ m i (h5 hr) (by omega)
  obtain ⟨⟨_, h2, _⟩, h5⟩ := key c' h
  exact parked_not_active c' i (by rw [h2]; exact hc.1) (h5 hrun) hev

/-! ### 5. The executable main loop -/

/-- the states in which `runLoop` emits its events -/
def loopStates (c : Clock) : List (List Act × (Nat → List (Option Nat))) → List Clock
  | [] => []
  | (acts, mods) :: rest => if c.now < c.stop then c :: loopStates (iterate c acts mods) rest else []

theorem runLoop_log (c : Clock) (sched : List (List Act × (Nat → List (Option Nat)))) :
    (runLoop c sched).2 = (loopStates c sched).map fun d => (d.now, eventTime d, active d) := by
  induction sched generalizing c with
  | nil => rfl
  | cons x rest ih =>
    obtain ⟨acts, mods⟩ := x
    unfold runLoop loopStates
    split
    · simp [ih]
    · rfl

theorem acts_Steps (c0 c : Clock) (acts : List Act) (h : Steps c0 c) : Steps c0 (acts.foldl act c) := by
  induction acts generalizing c with
  | nil => exact h
  | cons a as ih => exact ih _ (Steps.act a h)

theorem Steps.trans {a b c : Clock} (h1 : Steps a b) (h2 : Steps b c) : Steps a c := by
  induction h2 with
  | refl => exact h1
  | act x _ ih => exact Steps.act x ih
  | step m _ hr ih => exact Steps.step m ih hr

theorem acts_now_stop (c : Clock) (acts : List Act) :
    (acts.foldl act c).now = c.now ∧ (acts.foldl act c).stop = c.stop := by
  induction acts generalizing c with
  | nil => exact ⟨rfl, rfl⟩
  | cons a as ih => simp only [List.foldl_cons]; rw [(ih (act c a)).1, (ih (act c a)).2]; simp

/-- one iteration of the loop is a legal continuation -/
theorem iterate_Steps (c : Clock) (acts : List Act) (mods : Nat → List (Option Nat)) (hrun : c.now < c.stop) :
    Steps c (iterate c acts mods) := by
  unfold iterate
  refine Steps.step mods (acts_Steps c c acts (Steps.refl c)) ?_
  rw [(acts_now_stop c acts).1, (acts_now_stop c acts).2]; exact hrun

/-- every event the executable loop emits, under every schedule, is emitted from a state that satisfies
the invariant – so `active_exact`, `advance_to_earliest`, `never_passed` apply to every entry of the log
of `runLoop`. -/
theorem runLoop_events_J (c : Clock) (sched : List (List Act × (Nat → List (Option Nat)))) (hi : Inv c) :
    ∀ d ∈ loopStates c sched, Steps c d ∧ d.now < d.stop ∧ J d := by
  induction sched generalizing c with
  | nil => intro d hd; cases hd
  | cons x rest ih =>
    obtain ⟨acts, mods⟩ := x
    intro d hd
    unfold loopStates at hd
    split at hd
    · rename_i hrun
      rcases List.mem_cons.mp hd with rfl | hd
      · exact ⟨Steps.refl _, hrun, hi.2 hrun⟩
      · have hst := iterate_Steps c acts mods hrun
        obtain ⟨h1, h2, h3⟩ := ih (iterate c acts mods) (steps_Inv hst hi).1 d hd
        exact ⟨hst.trans h1, h2, h3⟩
    · cases hd

/-! ### 6. Interactive stepping with an explicit step size; the clock without modifiers -/

/-- `InteractiveContext.step()` without a step size is exactly the engine's step (F3 fix): everything
above applies to interactive stepping, `take_steps`, `run_until`, `run_for` and `run` unchanged. -/
theorem interactive_default_is_engine (c : Clock) (acts : List Act) (mods : Nat → List (Option Nat)) :
    interactiveIterate c none acts mods = iterate c acts mods := rfl

theorem acts_consts (c : Clock) (acts : List Act) :
    (acts.foldl act c).step = c.step ∧ (acts.foldl act c).minStep = c.minStep ∧
    (acts.foldl act c).stdStep = c.stdStep := by
  induction acts generalizing c with
  | nil => exact ⟨rfl, rfl, rfl⟩
  | cons a as ih =>
    simp only [List.foldl_cons]
    rw [(ih (act c a)).1, (ih (act c a)).2.1, (ih (act c a)).2.2]; simp

theorem stepForward_sims_nil (c : Clock) (mods : Nat → List (Option Nat)) :
    (stepForward c mods).sims = [] ↔ c.sims = [] := by
  rw [stepForward_sims, List.map_eq_nil_iff]

/-- the update establishes `J` from scratch for a non-empty population (nothing is assumed about the state
before – in particular not about the global step, which may have been overridden) -/
theorem stepForward_J_nonempty (c : Clock) (mods : Nat → List (Option Nat)) (hc : Cfg c) (hne : c.sims ≠ [])
    (hland : c.now + c.step < c.stop + c.minStep) : J (stepForward c mods) := by
  obtain ⟨m, hsome, heq⟩ := stepForward_nonempty c mods hne
  rw [heq]
  obtain ⟨hmem, hle⟩ := minOpt_spec hsome
  obtain ⟨smin, hsmin, hnext⟩ := List.mem_map.mp hmem
  obtain ⟨s0, _, hs0⟩ := List.mem_map.mp hsmin
  refine ⟨?_, ?_, ?_⟩
  · intro s hs'
    have := hle s.next (List.mem_map_of_mem hs')
    simp only; omega
  · intro _
    exact ⟨smin, hsmin, by simp only; omega⟩
  · have := updSim_next_gt c (c.now + c.step) mods s0 hc hland
    rw [hs0, hnext] at this
    simp only; omega

/-- the two branches of an interactive step with an explicit step size (F33) -/
theorem interactiveIterate_some (c : Clock) (s : Int) (acts : List Act) (mods : Nat → List (Option Nat)) :
    ((acts.foldl act (overrideStep c s)).sims = [] ∧
      interactiveIterate c (some s) acts mods = restoreStep (iterate (overrideStep c s) acts mods) c.step) ∨
    ((acts.foldl act (overrideStep c s)).sims ≠ [] ∧
      interactiveIterate c (some s) acts mods = iterate (overrideStep c s) acts mods) := by
  by_cases h : (acts.foldl act (overrideStep c s)).sims = []
  · left
    refine ⟨h, ?_⟩
    have : (iterate (overrideStep c s) acts mods).sims = [] := (stepForward_sims_nil _ mods).mpr h
    simp [interactiveIterate, this]
  · right
    refine ⟨h, ?_⟩
    have : (iterate (overrideStep c s) acts mods).sims ≠ [] := fun h' => h ((stepForward_sims_nil _ mods).mp h')
    have hf : (iterate (overrideStep c s) acts mods).sims.isEmpty = false := by
      cases hc : (iterate (overrideStep c s) acts mods).sims with
      | nil => exact absurd hc this
      | cons a as => rfl
    simp [interactiveIterate, hf]

/-- an explicit step size is honoured: the events of the iteration carry event time `now + s`, include
exactly the simulants whose next-event time is reached by then, the clock lands on `now + s`; afterwards
(F33) the global step is the one `step_forward` recomputed – it points at the earliest pending next-event
time – and the old global step comes back only when there is nobody to compute it from. -/
theorem explicit_step_honoured (c : Clock) (s : Int) (acts : List Act) (mods : Nat → List (Option Nat)) :
    eventTime (overrideStep c s) = c.now + s ∧
    (∀ i, i ∈ active (overrideStep c s) ↔ ∃ x ∈ c.sims, x.id = i ∧ x.next ≤ c.now + s) ∧
    (interactiveIterate c (some s) acts mods).now = c.now + s ∧
    ((interactiveIterate c (some s) acts mods).sims = [] → (interactiveIterate c (some s) acts mods).step = c.step) ∧
    ((interactiveIterate c (some s) acts mods).sims ≠ [] →
      minOpt ((interactiveIterate c (some s) acts mods).sims.map (·.next)) =
        some (eventTime (interactiveIterate c (some s) acts mods))) := by
  have hnow : (iterate (overrideStep c s) acts mods).now = c.now + s := by
    simp only [iterate, stepForward_now]
    rw [(acts_now_stop _ acts).1, (acts_consts _ acts).1]; rfl
  refine ⟨rfl, ?_, ?_, ?_, ?_⟩
  · intro i
    simp only [active, activeAt, overrideStep, eventTime, List.mem_map, List.mem_filter, due, decide_eq_true_eq]
    constructor
    · rintro ⟨x, ⟨hx, hd⟩, rfl⟩; exact ⟨x, hx, rfl, hd⟩
    · rintro ⟨x, hx, rfl, hd⟩; exact ⟨x, ⟨hx, hd⟩, rfl⟩
  · rcases interactiveIterate_some c s acts mods with ⟨_, h⟩ | ⟨_, h⟩ <;> rw [h]
    · simpa [restoreStep] using hnow
    · exact hnow
  · intro hnil
    rcases interactiveIterate_some c s acts mods with ⟨_, h⟩ | ⟨hne, h⟩
    · rw [h]; rfl
    · rw [h] at hnil
      exact absurd ((stepForward_sims_nil _ mods).mp hnil) hne
  · intro hne'
    rcases interactiveIterate_some c s acts mods with ⟨he, h⟩ | ⟨hne, h⟩
    · rw [h] at hne'
      exact absurd ((stepForward_sims_nil _ mods).mpr he) (by simpa [restoreStep, iterate] using hne')
    · rw [h]; exact next_event_is_earliest _ mods hne

/-- … and whatever the explicit step is, the update that follows leaves nobody behind the clock: every
simulant reached (late or on time) is rescheduled strictly into the future. -/
theorem explicit_step_all_ahead (c : Clock) (s : Int) (acts : List Act) (mods : Nat → List (Option Nat))
    (hc : Cfg c) (hland : c.now + s < c.stop + c.minStep) :
    ∀ x ∈ (interactiveIterate c (some s) acts mods).sims, (interactiveIterate c (some s) acts mods).now < x.next := by
  have h1 := acts_now_stop (overrideStep c s) acts
  have h2 := acts_consts (overrideStep c s) acts
  have hcfg : Cfg (acts.foldl act (overrideStep c s)) := by
    unfold Cfg; rw [h2.2.1, h2.2.2]; exact hc
  have := all_ahead_after_update (acts.foldl act (overrideStep c s)) mods hcfg
    (by rw [h1.1, h1.2, h2.1, h2.2.1]; exact hland)
  rcases interactiveIterate_some c s acts mods with ⟨_, h⟩ | ⟨_, h⟩ <;> rw [h]
  · simpa [restoreStep, iterate] using this
  · simpa [iterate] using this

/-- everything an interactive session can do to its clock: what `Steps` allows, plus steps with an explicit
step size of ANY value (during which listeners act under the overridden step) -/
inductive ISteps : Clock → Clock → Prop
  | refl (c : Clock) : ISteps c c
  | act {c c' : Clock} (a : Act) : ISteps c c' → ISteps c (act c' a)
  | step {c c' : Clock} (mods : Nat → List (Option Nat)) : ISteps c c' → c'.now < c'.stop →
      ISteps c (stepForward c' mods)
  | xstep {c c' : Clock} (s : Int) (acts : List Act) (mods : Nat → List (Option Nat)) : ISteps c c' →
      c'.now < c'.stop → ISteps c (interactiveIterate c' (some s) acts mods)

theorem isteps_Inv {c c' : Clock} (h : ISteps c c') (hi : Inv c) :
    Inv c' ∧ c'.stop = c.stop ∧ c'.minStep = c.minStep ∧ c'.stdStep = c.stdStep := by
  induction h with
  | refl => exact ⟨hi, rfl, rfl, rfl⟩
  | act a _ ih =>
    obtain ⟨⟨hc, hj⟩, h1, h2, h3⟩ := ih
    refine ⟨⟨?_, ?_⟩, by simp [h1], by simp [h2], by simp [h3]⟩
    · simpa [Cfg] using hc
    · intro hrun
      simp only [act_now, act_stop] at hrun
      exact act_J _ a (hj hrun)
  | step mods _ hrun ih =>
    obtain ⟨⟨hc, hj⟩, h1, h2, h3⟩ := ih
    refine ⟨⟨?_, ?_⟩, by simp [h1], by simp [h2], by simp [h3]⟩
    · simpa [Cfg] using hc
    · intro hrun'
      simp only [stepForward_now, stepForward_stop] at hrun'
      exact stepForward_J _ mods hc (hj hrun) (by have := hc.1; omega)
  | @xstep c' s acts mods _ hrun ih =>
    obtain ⟨⟨hc, hj⟩, h1, h2, h3⟩ := ih
    have a1 := acts_now_stop (overrideStep c' s) acts
    have a2 := acts_consts (overrideStep c' s) acts
    have hcfg : Cfg (acts.foldl act (overrideStep c' s)) := by
      unfold Cfg; rw [a2.2.1, a2.2.2]; exact hc
    have hstop : (iterate (overrideStep c' s) acts mods).stop = c'.stop := by
      simp only [iterate, stepForward_stop]; rw [a1.2]; rfl
    have hmin : (iterate (overrideStep c' s) acts mods).minStep = c'.minStep := by
      simp only [iterate, stepForward_minStep]; rw [a2.2.1]; rfl
    have hstd : (iterate (overrideStep c' s) acts mods).stdStep = c'.stdStep := by
      simp only [iterate, stepForward_stdStep]; rw [a2.2.2]; rfl
    rcases interactiveIterate_some c' s acts mods with ⟨he, h⟩ | ⟨hne, h⟩ <;> rw [h]
    · refine ⟨⟨?_, ?_⟩, ?_, ?_, ?_⟩
      · simpa [Cfg, restoreStep, hmin, hstd] using hc
      · intro _
        have hnil : (iterate (overrideStep c' s) acts mods).sims = [] := (stepForward_sims_nil _ mods).mpr he
        refine ⟨?_, ?_, ?_⟩
        · intro x hx; simp [restoreStep, hnil] at hx
        · intro hx; simp [restoreStep, hnil] at hx
        · simpa [restoreStep] using (hj hrun).2.2
      · simp [restoreStep, hstop, h1]
      · simp [restoreStep, hmin, h2]
      · simp [restoreStep, hstd, h3]
    · refine ⟨⟨?_, ?_⟩, by rw [hstop, h1], by rw [hmin, h2], by rw [hstd, h3]⟩
      · unfold Cfg; rw [hmin, hstd]; exact hc
      · intro hrun'
        rw [hstop] at hrun'
        simp only [iterate, stepForward_now] at hrun'
        exact stepForward_J_nonempty _ mods hcfg hne (by
          rw [a1.2, a2.2.1]
          have := hc.1
          simp only [overrideStep] at hrun' ⊢
          omega)

/-- `default_step_goes_to_earliest` (what the F33 repair makes true): with per-simulant clocks, in EVERY state
an interactive session can reach while the clock is before the stop time – through default steps, steps with
explicit step sizes of any value, births and move-to-end requests, in any order – a default step's event
time is the earliest pending next-event time (for a non-empty population), its index is exactly the simulants
sitting on it, and nobody's next-event time is earlier. In particular this holds for the default step right
after an explicit one. -/
theorem default_step_goes_to_earliest (start stop minStep std : Int) (n : Nat) (mods0 : Nat → List (Option Nat))
    (c : Clock) (hm : 0 < minStep) (hstd : 0 ≤ std)
    (h : ISteps (initSims (configure start stop minStep std) n mods0) c) (hrun : c.now < c.stop) :
    (c.sims ≠ [] → minOpt (c.sims.map (·.next)) = some (eventTime c)) ∧
    (∀ i, i ∈ active c ↔ ∃ x ∈ c.sims, x.id = i ∧ x.next = eventTime c) ∧
    (∀ x ∈ c.sims, eventTime c ≤ x.next) ∧
    (∀ mods, (stepForward c mods).now = eventTime c) := by
  have hJ := (isteps_Inv h (initSims_Inv start stop minStep std n mods0 hm hstd)).1.2 hrun
  refine ⟨?_, active_exact c hJ, hJ.1, fun mods => by simp [eventTime]⟩
  intro hne
  have := advance_to_earliest c (fun _ => []) hJ hne
  simpa [eventTime] using this

/-- the clock without modifiers keeps everybody on the event time … -/
def AllOnEvent (c : Clock) : Prop := ∀ s ∈ c.sims, s.next = eventTime c

/-- … so every event includes everybody, -/
theorem global_active_everybody (c : Clock) (h : AllOnEvent c) : active c = c.sims.map (·.id) := by
  unfold active activeAt
  congr 1
  apply List.filter_eq_self.mpr
  intro s hs
  simp [due, h s hs]

/-- and every operation of that mode (clock update, births, explicit step sizes) keeps it so. -/
theorem global_ops_keep (c : Clock) (k : Nat) (s : Int) (h : AllOnEvent c) :
    AllOnEvent (stepForwardGlobal c) ∧ AllOnEvent (create c k) ∧ AllOnEvent (refreshGlobal (overrideStep c s)) := by
  refine ⟨?_, ?_, ?_⟩
  · intro x hx
    simp only [stepForwardGlobal, refreshGlobal, List.mem_map] at hx
    obtain ⟨y, _, rfl⟩ := hx
    rfl
  · intro x hx
    rcases (mem_create c k x).mp hx with hx | ⟨j, _, rfl⟩
    · simpa [create, eventTime] using h x hx
    · simp [create, eventTime]
  · intro x hx
    simp only [refreshGlobal, List.mem_map] at hx
    obtain ⟨y, _, rfl⟩ := hx
    rfl

/-! ### 7. Histories: repeated requests, answers that change over time (lessons 12–13) -/

theorem mem_moveToEnd (c : Clock) (ids : List Nat) (i : Nat) :
    i ∈ (moveToEnd c ids).snooze ↔ i ∈ c.snooze ∨ i ∈ ids := by
  unfold moveToEnd
  split
  · rename_i h; simp at h; subst h; simp
  · simp only [List.mem_append, List.mem_filter]
    constructor
    · rintro (h | ⟨h, _⟩)
      · exact Or.inl h
      · exact Or.inr h
    · rintro (h | h)
      · exact Or.inl h
      · by_cases hc : i ∈ c.snooze
        · exact Or.inl hc
        · exact Or.inr ⟨h, by simpa using hc⟩

/-- the same request again – verbatim, before the clock update – leaves the clock literally unchanged -/
theorem moveToEnd_repeat (c : Clock) (ids : List Nat) : moveToEnd (moveToEnd c ids) ids = moveToEnd c ids := by
  by_cases he : ids.isEmpty = true
  · simp [moveToEnd, he]
  · have h1 : moveToEnd c ids = { c with snooze := c.snooze ++ ids.filter (fun i => !c.snooze.contains i) } := by
      simp [moveToEnd, he]
    rw [h1]
    simp only [moveToEnd, he, Bool.false_eq_true, ↓reduceIte]
    congr 1
    have : ids.filter (fun i => !(c.snooze ++ ids.filter (fun i => !c.snooze.contains i)).contains i) = [] := by
      apply List.filter_eq_nil_iff.mpr
      intro a ha
      by_cases hc : a ∈ c.snooze
      · simp [hc]
      · simp [hc, ha]
    rw [this]; simp

/-- the update looks only at the answers the modifiers give NOW, and only at those for the simulants it updates:
nothing from an earlier update (an earlier answer, list or result) can enter – "values changing over time" -/
theorem stepForward_congr (c : Clock) (mods mods' : Nat → List (Option Nat))
    (h : ∀ s ∈ c.sims, needsUpdate c (c.now + c.step) s = true → mods s.id = mods' s.id) :
    stepForward c mods = stepForward c mods' := by
  have hs : c.sims.map (updSim c (c.now + c.step) mods) = c.sims.map (updSim c (c.now + c.step) mods') := by
    apply List.map_congr_left
    intro s hs
    unfold updSim
    by_cases hn : needsUpdate c (c.now + c.step) s = true
    · simp only [hn, ↓reduceIte]; rw [h s hs hn]
    · simp [hn]
  unfold stepForward
  simp only [hs]

/-- a request repeated AFTER its simulants were parked (verbatim or not, by whoever, in whatever index kind) changes
nobody's next-event time at the following update, as long as that update lands before the parking time -/
theorem repeat_request_same_next (c : Clock) (ids : List Nat) (mods : Nat → List (Option Nat))
    (hp : ∀ i ∈ ids, Parked c i) (hland : c.now + c.step < c.stop + c.minStep) :
    (stepForward (moveToEnd c ids) mods).sims.map (fun s => (s.id, s.next)) =
      (stepForward c mods).sims.map (fun s => (s.id, s.next)) := by
  have hnow : (moveToEnd c ids).now = c.now ∧ (moveToEnd c ids).step = c.step ∧ (moveToEnd c ids).stop = c.stop ∧
      (moveToEnd c ids).minStep = c.minStep ∧ (moveToEnd c ids).stdStep = c.stdStep := by
    unfold moveToEnd; split <;> simp
  rw [stepForward_sims, stepForward_sims, moveToEnd_sims, hnow.1, hnow.2.1, List.map_map, List.map_map]
  apply List.map_congr_left
  intro s hs
  simp only [Function.comp, updSim_id, Prod.mk.injEq, true_and]
  by_cases hi : s.id ∈ ids
  · -- parked and asked again: re-parked at the same time
    have hnext := hp s.id hi s hs rfl
    have hmem : s.id ∈ (moveToEnd c ids).snooze := (mem_moveToEnd c ids s.id).mpr (Or.inr hi)
    have h1 : (updSim (moveToEnd c ids) (c.now + c.step) mods s).next = c.stop + c.minStep := by
      unfold updSim
      simp only [needsUpdate, List.contains_eq_mem, hmem, decide_true, Bool.or_true, ↓reduceIte, hnow.2.2.1, hnow.2.2.2.1]
      omega
    have h2 : (updSim c (c.now + c.step) mods s).next = c.stop + c.minStep := by
      unfold updSim
      by_cases hc : s.id ∈ c.snooze
      · simp only [needsUpdate, List.contains_eq_mem, hc, decide_true, Bool.or_true, ↓reduceIte]; omega
      · have : needsUpdate c (c.now + c.step) s = false := by
          simp only [needsUpdate, due, Bool.or_eq_false_iff, decide_eq_false_iff_not]
          exact ⟨by omega, by simpa using hc⟩
        simp [this, hnext]
    rw [h1, h2]
  · -- not named by the repeated request: treated exactly as without it
    have hiff : s.id ∈ (moveToEnd c ids).snooze ↔ s.id ∈ c.snooze := by
      rw [mem_moveToEnd]; constructor
      · rintro (h | h); exact h; exact absurd h hi
      · exact Or.inl
    unfold updSim
    simp only [needsUpdate, List.contains_eq_mem, hiff, hnow.2.2.1, hnow.2.2.2.1, hnow.2.2.2.2]

/-! ### 8. Re-entrancy and faults: user code acting inside `step_forward` (lesson 16)

`stepForwardRe c mods calls`: `step_forward` when the registered modifiers – besides answering `mods` – call
`move_simulants_to_end` themselves and / or raise (`calls`, registration order). Everything above is about
`stepForward`, the update that completes; the theorems below tie the two together and say what happens to requests
made at ANY point of an update and what a failed update leaves behind. -/

/-- no modifier touches the clock, every pending label has a row: `stepForwardRe` is `stepForward` -/
theorem stepForwardRe_nil (c : Clock) (mods : Nat → List (Option Nat)) (hk : c.snooze.all (knows c) = true) :
    stepForwardRe c mods [] = (stepForward c mods, .done) := by
  rcases stepForwardRe_cases c mods [] with ⟨_, _, h⟩ | ⟨_, hn, _⟩ | ⟨_, hr, _⟩ | ⟨_, _, _, h⟩ | ⟨_, _, hl, _⟩
  · exact h
  · rw [hk] at hn; cases hn
  · simp [evalCalls] at hr
  · simpa [evalCalls] using h
  · simp only [evalCalls] at hl
    rw [locOk_self c hk] at hl; cases hl

/-- a completed update during which modifiers made requests IS the update that follows the same requests made by
listeners just before it: every theorem about `iterate` / `Steps` applies to it -/
theorem stepForwardRe_done_is_iterate (c : Clock) (mods : Nat → List (Option Nat)) (calls : List ModCall)
    (hev : Evaluated c) (hd : (stepForwardRe c mods calls).2 = .done) :
    (stepForwardRe c mods calls).1 = iterate c (calls.map fun m => Act.toEnd m.req) mods := by
  rcases stepForwardRe_cases c mods calls with ⟨hne, _, _⟩ | ⟨_, _, h⟩ | ⟨_, _, h⟩ | ⟨_, hr, _, h⟩ | ⟨_, _, _, h⟩
  · exact absurd hev hne
  · rw [h] at hd; cases hd
  · rw [h] at hd; cases hd
  · rw [h]; simp only [iterate]; rw [evalCalls_as_acts c calls hr]
  · rw [h] at hd; cases hd

/-- when the pipeline is not evaluated (nobody to update) the modifiers cannot act: the update is `stepForward` -/
theorem stepForwardRe_not_evaluated (c : Clock) (mods : Nat → List (Option Nat)) (calls : List ModCall)
    (hne : ¬ Evaluated c) (hk : c.sims.isEmpty = true ∨ c.snooze.all (knows c) = true) :
    stepForwardRe c mods calls = (stepForward c mods, .done) := by
  rcases stepForwardRe_cases c mods calls with ⟨_, _, h⟩ | ⟨he, hn, _⟩ | ⟨hev, _⟩ | ⟨hev, _⟩ | ⟨hev, _⟩
  · exact h
  · rcases hk with hk | hk
    · rw [he] at hk; cases hk
    · rw [hk] at hn; cases hn
  · exact absurd hev hne
  · exact absurd hev hne
  · exact absurd hev hne

/-- **a request made at any point of an update is honoured by that update**: whether it was pending before
(listeners of the four events, an initializer during a birth) or is made from inside a step-size modifier while the
pipeline is evaluated – by any of the modifiers, for a part of the update index or all of it – the simulant is parked
at `stop + minStep` when the update completes -/
theorem request_any_time_parked (c : Clock) (mods : Nat → List (Option Nat)) (calls : List ModCall) (i : Nat)
    (hev : Evaluated c) (hd : (stepForwardRe c mods calls).2 = .done) (hi : i ∈ c.snooze ∨ i ∈ made calls) :
    Parked (stepForwardRe c mods calls).1 i := by
  rcases stepForwardRe_cases c mods calls with ⟨hne, _, _⟩ | ⟨_, _, h⟩ | ⟨_, _, h⟩ | ⟨_, _, _, h⟩ | ⟨_, _, _, h⟩
  · exact absurd hev hne
  · rw [h] at hd; cases hd
  · rw [h] at hd; cases hd
  · rw [h]; exact moved_to_end_parked _ mods i ((mem_evalCalls c calls i).mpr hi)
  · rw [h] at hd; cases hd

/-- … and the pending set is empty afterwards: nothing is carried into the next update, nothing is processed twice -/
theorem request_any_time_cleared (c : Clock) (mods : Nat → List (Option Nat)) (calls : List ModCall)
    (hev : Evaluated c) (hd : (stepForwardRe c mods calls).2 = .done) : (stepForwardRe c mods calls).1.snooze = [] := by
  rcases stepForwardRe_cases c mods calls with ⟨hne, _, _⟩ | ⟨_, _, h⟩ | ⟨_, _, h⟩ | ⟨_, _, _, h⟩ | ⟨_, _, _, h⟩
  · exact absurd hev hne
  · rw [h] at hd; cases hd
  · rw [h] at hd; cases hd
  · rw [h]
    obtain ⟨sn, hsn⟩ := evalCalls_eq c calls
    have hne : (evalCalls c calls).1.sims ≠ [] := by
      rw [hsn]; intro h0; have := hev.1; simp only at h0; rw [h0] at this; cases this
    obtain ⟨m, _, heq⟩ := stepForward_nonempty (evalCalls c calls).1 mods hne
    rw [heq]
    have hany : (evalCalls c calls).1.sims.any (needsUpdate (evalCalls c calls).1
        ((evalCalls c calls).1.now + (evalCalls c calls).1.step)) = true := by
      have h3 := hev.2.2
      rw [List.any_eq_true] at h3 ⊢
      obtain ⟨s, hs, hn⟩ := h3
      refine ⟨s, by rw [hsn]; exact hs, ?_⟩
      simp only [needsUpdate, Bool.or_eq_true] at hn ⊢
      rcases hn with hn | hn
      · left; rw [hsn]; exact hn
      · right
        have : s.id ∈ (evalCalls c calls).1.snooze :=
          (mem_evalCalls c calls s.id).mpr (Or.inl (by simpa using hn))
        simpa using this
    simp only [hany, ↓reduceIte]
  · rw [h] at hd; cases hd

/-- **a failed update touches nothing but the clock**: whichever way `step_forward` fails – a pending label without
a row, a modifier that raises, a request from inside a modifier for a simulant that is not being updated – nobody's
next-event time or step changes, the global step is the old one, and the clock has moved by it -/
theorem failed_update_touches_only_clock (c : Clock) (mods : Nat → List (Option Nat)) (calls : List ModCall)
    (hf : (stepForwardRe c mods calls).2 ≠ .done) :
    (stepForwardRe c mods calls).1.sims = c.sims ∧ (stepForwardRe c mods calls).1.step = c.step ∧
    (stepForwardRe c mods calls).1.now = c.now + c.step ∧ (stepForwardRe c mods calls).1.stop = c.stop ∧
    (stepForwardRe c mods calls).1.minStep = c.minStep ∧ (stepForwardRe c mods calls).1.stdStep = c.stdStep := by
  obtain ⟨sn, hsn⟩ := evalCalls_eq c calls
  rcases stepForwardRe_cases c mods calls with ⟨_, _, h⟩ | ⟨_, _, h⟩ | ⟨_, _, h⟩ | ⟨_, _, _, h⟩ | ⟨_, _, _, h⟩
  · rw [h] at hf; exact absurd rfl hf
  · rw [h]; simp [failedAt]
  · rw [h, hsn]; simp [failedAt]
  · rw [h] at hf; exact absurd rfl hf
  · rw [h, hsn]; simp [failedAt]

/-- **no request is lost by a failed update**: what was pending stays pending, and what the modifiers requested before
the exception is pending too – to be honoured by the next update that completes -/
theorem failed_update_keeps_requests (c : Clock) (mods : Nat → List (Option Nat)) (calls : List ModCall) (i : Nat)
    (hf : (stepForwardRe c mods calls).2 ≠ .done) :
    (i ∈ c.snooze → i ∈ (stepForwardRe c mods calls).1.snooze) ∧
    ((stepForwardRe c mods calls).2 ≠ .popError → i ∈ made calls → i ∈ (stepForwardRe c mods calls).1.snooze) := by
  rcases stepForwardRe_cases c mods calls with ⟨_, _, h⟩ | ⟨_, _, h⟩ | ⟨_, _, h⟩ | ⟨_, _, _, h⟩ | ⟨_, _, _, h⟩
  · rw [h] at hf; exact absurd rfl hf
  · rw [h]; exact ⟨fun hi => by simpa [failedAt] using hi, fun hp => absurd rfl hp⟩
  · rw [h]
    exact ⟨fun hi => by simpa [failedAt] using (mem_evalCalls c calls i).mpr (Or.inl hi),
           fun _ hi => by simpa [failedAt] using (mem_evalCalls c calls i).mpr (Or.inr hi)⟩
  · rw [h] at hf; exact absurd rfl hf
  · rw [h]
    exact ⟨fun hi => by simpa [failedAt] using (mem_evalCalls c calls i).mpr (Or.inl hi),
           fun _ hi => by simpa [failedAt] using (mem_evalCalls c calls i).mpr (Or.inr hi)⟩

/-- … indeed: the caller catches the exception and steps again; as soon as an update completes, every simulant that
has a row and was requested before or during the failed update is parked (whatever the modifiers answer, request or
do this time) -/
theorem failed_then_retry_honours (c : Clock) (mods mods' : Nat → List (Option Nat)) (calls calls' : List ModCall) (i : Nat)
    (hf : (stepForwardRe c mods calls).2 ≠ .done)
    (hi : i ∈ c.snooze ∨ ((stepForwardRe c mods calls).2 ≠ .popError ∧ i ∈ made calls))
    (hk : knows c i = true)
    (hd : (stepForwardRe (stepForwardRe c mods calls).1 mods' calls').2 = .done) :
    Parked (stepForwardRe (stepForwardRe c mods calls).1 mods' calls').1 i := by
  have hkeep := failed_update_keeps_requests c mods calls i hf
  have hpend : i ∈ (stepForwardRe c mods calls).1.snooze := by
    rcases hi with hi | ⟨hp, hi⟩
    · exact hkeep.1 hi
    · exact hkeep.2 hp hi
  have hsame := failed_update_touches_only_clock c mods calls hf
  have hk' : knows (stepForwardRe c mods calls).1 i = true := by
    simpa [knows, hsame.1] using hk
  have hne : (stepForwardRe c mods calls).1.sims.isEmpty = false := by
    rw [hsame.1]
    simp only [knows, List.any_eq_true] at hk
    obtain ⟨s, hs, _⟩ := hk
    cases hc : c.sims with
    | nil => rw [hc] at hs; cases hs
    | cons a as => rfl
  have hev : Evaluated (stepForwardRe c mods calls).1 := by
    refine ⟨hne, ?_, pending_known_updates _ _ i hpend hk'⟩
    -- a retry that completes cannot have met a pending label without a row
    rcases stepForwardRe_cases (stepForwardRe c mods calls).1 mods' calls' with
      ⟨_, hor, _⟩ | ⟨_, _, h⟩ | ⟨hev, _⟩ | ⟨hev, _⟩ | ⟨hev, _⟩
    · rcases hor with hor | hor
      · rw [hne] at hor; cases hor
      · exact hor
    · rw [h] at hd; cases hd
    · exact hev.2.1
    · exact hev.2.1
    · exact hev.2.1
  exact request_any_time_parked _ mods' calls' i hev hd (Or.inl hpend)

/-- everything a simulation can do to its clock when user code acts inside `step_forward` and callers catch what it
raises: births and requests (a listener that raises merely ends its iteration early – the actions performed so far
stand, no update follows), updates that complete (with requests from inside the modifiers), updates that fail.
The flag says whether an update has completed since the last failed one. -/
inductive RSteps : Clock → Clock → Bool → Prop
  | refl (c : Clock) : RSteps c c true
  | act {c c' : Clock} {b : Bool} (a : Act) : RSteps c c' b → RSteps c (act c' a) b
  | step {c c' : Clock} {b : Bool} (mods : Nat → List (Option Nat)) (calls : List ModCall) : RSteps c c' b →
      c'.now < c'.stop → (stepForwardRe c' mods calls).2 = .done → RSteps c (stepForwardRe c' mods calls).1 true
  | fail {c c' : Clock} {b : Bool} (mods : Nat → List (Option Nat)) (calls : List ModCall) : RSteps c c' b →
      c'.now < c'.stop → (stepForwardRe c' mods calls).2 ≠ .done → RSteps c (stepForwardRe c' mods calls).1 false

/-- the invariant with faults: after a completed update `J` as before; after a failed one only "the global step is
positive" is left (the clock sits ON the next-event time of the simulants that were due) -/
def RInv (c : Clock) (b : Bool) : Prop := Cfg c ∧ (c.now < c.stop → if b then J c else 0 < c.step)

theorem evalCalls_J (c : Clock) (calls : List ModCall) (hJ : J c) : J (evalCalls c calls).1 := by
  obtain ⟨sn, h⟩ := evalCalls_eq c calls
  rw [h]; exact hJ

theorem rsteps_RInv {c c' : Clock} {b : Bool} (h : RSteps c c' b) (hi : Inv c) :
    RInv c' b ∧ c'.stop = c.stop ∧ c'.minStep = c.minStep ∧ c'.stdStep = c.stdStep := by
  induction h with
  | refl => exact ⟨⟨hi.1, fun hr => by simpa using hi.2 hr⟩, rfl, rfl, rfl⟩
  | @act c' b a _ ih =>
    obtain ⟨⟨hc, hj⟩, h1, h2, h3⟩ := ih
    refine ⟨⟨by simpa [Cfg] using hc, ?_⟩, by simp [h1], by simp [h2], by simp [h3]⟩
    intro hrun
    simp only [act_now, act_stop] at hrun
    have := hj hrun
    cases b
    · simpa using this
    · simp only [↓reduceIte] at this ⊢; exact act_J _ a this
  | @step c' b mods calls _ hrun hd ih =>
    obtain ⟨⟨hc, hj⟩, h1, h2, h3⟩ := ih
    have hpos : 0 < c'.step := by
      have := hj hrun
      cases b
      · simpa using this
      · simp only [↓reduceIte] at this; exact this.2.2
    obtain ⟨sn, hsn⟩ := evalCalls_eq c' calls
    -- a completed update is `stepForward` of a clock that differs from c' in the pending set only
    have key : ∃ x : Clock, (stepForwardRe c' mods calls).1 = stepForward x mods ∧ x.sims = c'.sims ∧ x.now = c'.now ∧
        x.step = c'.step ∧ x.stop = c'.stop ∧ x.minStep = c'.minStep ∧ x.stdStep = c'.stdStep := by
      rcases stepForwardRe_cases c' mods calls with ⟨_, _, h⟩ | ⟨_, _, h⟩ | ⟨_, _, h⟩ | ⟨_, _, _, h⟩ | ⟨_, _, _, h⟩
      · exact ⟨c', by rw [h], rfl, rfl, rfl, rfl, rfl, rfl⟩
      · rw [h] at hd; cases hd
      · rw [h] at hd; cases hd
      · exact ⟨(evalCalls c' calls).1, by rw [h], by rw [hsn], by rw [hsn], by rw [hsn], by rw [hsn], by rw [hsn], by rw [hsn]⟩
      · rw [h] at hd; cases hd
    obtain ⟨x, hx, x1, x2, x3, x4, x5, x6⟩ := key
    rw [hx]
    have hcx : Cfg x := by unfold Cfg; rw [x5, x6]; exact hc
    refine ⟨⟨by simpa [Cfg, x5, x6] using hc, ?_⟩, by simp [x4, h1], by simp [x5, h2], by simp [x6, h3]⟩
    intro hrun'
    simp only [stepForward_now, stepForward_stop] at hrun'
    simp only [↓reduceIte]
    by_cases he : x.sims = []
    · rw [stepForward_empty x mods he]
      exact ⟨by intro s hs; simp [he] at hs, fun hne => absurd he hne, by rw [x3]; exact hpos⟩
    · exact stepForward_J_nonempty x mods hcx he (by have := hc.1; rw [x5] ; omega)
  | @fail c' b mods calls _ hrun hf ih =>
    obtain ⟨⟨hc, hj⟩, h1, h2, h3⟩ := ih
    have hpos : 0 < c'.step := by
      have := hj hrun
      cases b
      · simpa using this
      · simp only [↓reduceIte] at this; exact this.2.2
    obtain ⟨_, f2, _, f4, f5, f6⟩ := failed_update_touches_only_clock c' mods calls hf
    refine ⟨⟨by unfold Cfg; rw [f5, f6]; exact hc, ?_⟩, by rw [f4, h1], by rw [f5, h2], by rw [f6, h3]⟩
    intro _
    simp only [Bool.false_eq_true, ↓reduceIte]
    rw [f2]; exact hpos

/-- `reachable_J_re`: with requests from inside modifiers, modifiers and listeners that raise and callers that catch,
in every state reached from `initialize_simulants` in which the main loop emits an event and the last clock update
COMPLETED, the invariant holds – so `active_exact`, `advance_to_earliest`, `never_passed` apply there exactly as
without faults. (After a failed update they do not: the clock has moved, the simulants that were due were not
rescheduled and the global step is stale until the next update completes – see the report.) -/
theorem reachable_J_re (start stop minStep std : Int) (n : Nat) (mods0 : Nat → List (Option Nat)) (c : Clock)
    (hm : 0 < minStep) (hstd : 0 ≤ std)
    (h : RSteps (initSims (configure start stop minStep std) n mods0) c true) (hrun : c.now < c.stop) : J c := by
  have := (rsteps_RInv h (initSims_Inv start stop minStep std n mods0 hm hstd)).1.2 hrun
  simpa using this

/-- the event of such a state is exact: exactly the simulants sitting on the event time, nobody earlier, the event
time is the earliest pending next-event time and the clock moves exactly there -/
theorem reachable_event_exact_re (start stop minStep std : Int) (n : Nat) (mods0 : Nat → List (Option Nat)) (c : Clock)
    (hm : 0 < minStep) (hstd : 0 ≤ std)
    (h : RSteps (initSims (configure start stop minStep std) n mods0) c true) (hrun : c.now < c.stop) :
    (∀ i, i ∈ active c ↔ ∃ s ∈ c.sims, s.id = i ∧ s.next = eventTime c) ∧
    (∀ s ∈ c.sims, eventTime c ≤ s.next) ∧
    (c.sims ≠ [] → minOpt (c.sims.map (·.next)) = some (eventTime c)) ∧
    (∀ mods calls, (stepForwardRe c mods calls).1.now = eventTime c) := by
  have hJ := reachable_J_re start stop minStep std n mods0 c hm hstd h hrun
  refine ⟨active_exact c hJ, hJ.1, ?_, ?_⟩
  · intro hne
    have := advance_to_earliest c (fun _ => []) hJ hne
    simpa [eventTime] using this
  · intro mods calls
    obtain ⟨sn, hsn⟩ := evalCalls_eq c calls
    rcases stepForwardRe_cases c mods calls with ⟨_, _, h⟩ | ⟨_, _, h⟩ | ⟨_, _, h⟩ | ⟨_, _, _, h⟩ | ⟨_, _, _, h⟩ <;> rw [h]
    · simp [eventTime]
    · simp [failedAt, eventTime]
    · simp [failedAt, eventTime]
    · simp only [stepForward_now, eventTime]; rw [hsn]
    · simp [failedAt, eventTime]

/-- **`moved_to_end_excluded_re`**: once an update has completed that was preceded or accompanied by a request for
simulant `i` – from a listener, an initializer, or from inside a step-size modifier during that very update – then
along EVERY continuation (births, requests, updates that complete, updates that fail, listeners that raise), no
main-loop event with event time at or before the stop time includes `i`. -/
theorem moved_to_end_excluded_re (c d : Clock) (b : Bool) (mods : Nat → List (Option Nat)) (calls : List ModCall) (i : Nat)
    (hc : Cfg c) (hk : i < c.sims.length) (hev : Evaluated c) (hd : (stepForwardRe c mods calls).2 = .done)
    (hi : i ∈ c.snooze ∨ i ∈ made calls)
    (h : RSteps (stepForwardRe c mods calls).1 d b) (hrun : d.now < d.stop) (hevt : eventTime d ≤ d.stop) :
    i ∉ active d := by
  have hit := stepForwardRe_done_is_iterate c mods calls hev hd
  have hconst : (stepForwardRe c mods calls).1.stop = c.stop ∧ (stepForwardRe c mods calls).1.minStep = c.minStep ∧
      i < (stepForwardRe c mods calls).1.sims.length := by
    rw [hit]
    have a1 := acts_now_stop c (calls.map fun m => Act.toEnd m.req)
    have a2 := acts_consts c (calls.map fun m => Act.toEnd m.req)
    obtain ⟨sn, hsn⟩ := evalCalls_eq c calls
    refine ⟨by simp only [iterate, stepForward_stop]; exact a1.2, by simp only [iterate, stepForward_minStep]; exact a2.2.1, ?_⟩
    rcases stepForwardRe_cases c mods calls with ⟨hne, _, _⟩ | ⟨_, _, h⟩ | ⟨_, _, h⟩ | ⟨_, hr, _, h⟩ | ⟨_, _, _, h⟩
    · exact absurd hev hne
    · rw [h] at hd; cases hd
    · rw [h] at hd; cases hd
    · rw [← hit, h, stepForward_sims, List.length_map, hsn]; exact hk
    · rw [h] at hd; cases hd
  have key : ∀ d b, RSteps (stepForwardRe c mods calls).1 d b →
      (d.stop = c.stop ∧ d.minStep = c.minStep ∧ i < d.sims.length) ∧ (d.now < d.stop → Parked d i) := by
    intro d b hd'
    induction hd' with
    | refl => exact ⟨hconst, fun _ => request_any_time_parked c mods calls i hev hd hi⟩
    | @act d' b' a _ ih =>
      obtain ⟨⟨h1, h2, h4⟩, h5⟩ := ih
      refine ⟨⟨by simp [h1], by simp [h2], ?_⟩, ?_⟩
      · cases a with
        | birth k => simp only [act, create, List.length_append]; omega
        | toEnd ids => simpa [act] using h4
      · intro hr
        simp only [act_now, act_stop] at hr
        exact parked_act _ a i h4 (h5 hr)
    | @step d' b' m cs _ hr hdone ih =>
      obtain ⟨⟨h1, h2, h4⟩, h5⟩ := ih
      obtain ⟨sn, hsn⟩ := evalCalls_eq d' cs
      have key2 : ∃ x : Clock, (stepForwardRe d' m cs).1 = stepForward x m ∧ x.sims = d'.sims ∧ x.now = d'.now ∧
          x.step = d'.step ∧ x.stop = d'.stop ∧ x.minStep = d'.minStep := by
        rcases stepForwardRe_cases d' m cs with ⟨_, _, h⟩ | ⟨_, _, h⟩ | ⟨_, _, h⟩ | ⟨_, _, _, h⟩ | ⟨_, _, _, h⟩
        · exact ⟨d', by rw [h], rfl, rfl, rfl, rfl, rfl⟩
        · rw [h] at hdone; cases hdone
        · rw [h] at hdone; cases hdone
        · exact ⟨(evalCalls d' cs).1, by rw [h], by rw [hsn], by rw [hsn], by rw [hsn], by rw [hsn], by rw [hsn]⟩
        · rw [h] at hdone; cases hdone
      obtain ⟨x, hx, x1, x2, x3, x4, x5⟩ := key2
      rw [hx]
      refine ⟨⟨by simp [x4, h1], by simp [x5, h2], ?_⟩, ?_⟩
      · rw [stepForward_sims, List.length_map, x1]; exact h4
      · intro hr'
        simp only [stepForward_now, stepForward_stop] at hr'
        have hm : 0 < c.minStep := hc.1
        have hpx : Parked x i := by
          intro s hs hid
          rw [x1] at hs; rw [x4, x5]; exact h5 hr s hs hid
        exact parked_step x m i hpx (by rw [x5, h2]; omega)
    | @fail d' b' m cs _ hr hfail ih =>
      obtain ⟨⟨h1, h2, h4⟩, h5⟩ := ih
      obtain ⟨f1, _, _, f4, f5, _⟩ := failed_update_touches_only_clock d' m cs hfail
      refine ⟨⟨by rw [f4, h1], by rw [f5, h2], by rw [f1]; exact h4⟩, ?_⟩
      intro _ s hs hid
      rw [f1] at hs; rw [f4, f5]
      exact h5 hr s hs hid
  obtain ⟨⟨_, h2, _⟩, h5⟩ := key d b h
  exact parked_not_active d i (by rw [h2]; exact hc.1) (h5 hrun) hevt

/-! ### Non-vacuity: the hypotheses are inhabited, the statements bite -/

/-- three simulants, minimum step 24 h, no standard step, one modifier asking 72 / nothing / 50 hours -/
def demo : Clock := initSims (configure 0 240 24 0) 3 (fun i => [[some 72], [none], [some 50]].getD i [])

example : demo.sims = [⟨0, 72, 72⟩, ⟨1, 24, 24⟩, ⟨2, 48, 48⟩] ∧ demo.now = 0 ∧ demo.step = 24 := by decide
example : J demo := by
  refine ⟨?_, ?_, ?_⟩
  · decide
  · intro _; exact ⟨⟨1, 24, 24⟩, by decide, by decide⟩
  · decide
example : active demo = [1] := by decide
/-- a request for simulant 0 alone, who is not due: parked at 240 + 24 by the next update, out of the event at 48 -/
example : (iterate demo [.toEnd [0]] (fun _ => [none])).sims = [⟨0, 264, 240⟩, ⟨1, 48, 24⟩, ⟨2, 48, 48⟩] := by decide
example : active (iterate demo [.toEnd [0]] (fun _ => [none])) = [1, 2] := by decide
/-- a single simulant 0 -/
example : (initSims (configure 0 240 24 0) 1 (fun _ => [some 72])).sims = [⟨0, 72, 72⟩] ∧
    (initSims (configure 0 240 24 0) 1 (fun _ => [some 72])).step = 72 := by decide
example : postProcess 24 24 [some 50, none, some 100] = 48 := by decide
example : postProcess 24 60 [none, none] = 48 := by decide
example : postProcess 24 24 [some 0] = 24 := by decide
/-- the landing hypothesis of `stepForward_J` cannot be dropped: a pending request processed at or beyond the
parking time leaves a next-event time that is not ahead of the clock -/
example : ¬ J (stepForward { now := 0, step := 100, stop := 50, minStep := 10, stdStep := 10,
                             sims := [⟨0, 100, 100⟩], snooze := [0] } (fun _ => [none])) := by
  intro h; have := h.2.2; revert this; decide
/-- F33 (fixed in /repo, 88f3a0f3): `step(36 h)` used to restore the old global step 24 h, so the next default
step went to 60 h, past simulant 0's next-event time 48 h. Now the recomputed step 12 h is kept: the next
default event is at 48 h and includes simulant 0 alone. -/
def demo2 : Clock := initSims (configure 0 240 24 0) 3 (fun i => [[some 48], [some 72], [none]].getD i [])
example : (interactiveIterate demo2 (some 36) [] (fun i => [[some 48], [some 72], [none]].getD i [])).sims.map (·.next) = [48, 72, 60] ∧
    (interactiveIterate demo2 (some 36) [] (fun i => [[some 48], [some 72], [none]].getD i [])).step = 12 ∧
    eventTime (interactiveIterate demo2 (some 36) [] (fun i => [[some 48], [some 72], [none]].getD i [])) = 48 ∧
    active (interactiveIterate demo2 (some 36) [] (fun i => [[some 48], [some 72], [none]].getD i [])) = [0] := by decide
/-- the stale restore (the code before F33) does violate the invariant: witness kept so the reverted fix is visible -/
example : ¬ (∀ x ∈ (restoreStep (iterate (overrideStep demo2 36) [] (fun i => [[some 48], [some 72], [none]].getD i [])) demo2.step).sims,
    eventTime (restoreStep (iterate (overrideStep demo2 36) [] (fun i => [[some 48], [some 72], [none]].getD i [])) demo2.step) ≤ x.next) := by decide
/-- empty population: the override is undone -/
example : (interactiveIterate (initSims (configure 0 96 24 0) 0 (fun _ => [])) (some 7) [] (fun _ => [])).step = 24 := by decide
example : active (refreshGlobal (create (stepBackward (configure 0 192 48 72)) 2)) = [0, 1] := by decide
/-- lock-step simulants whose modifier answers grow 24 → 48 → 72: every update uses the answer given at that update -/
example : ((runLoop (initSims (configure 0 240 24 0) 2 (fun _ => [some 24]))
    [([], fun _ => [some 48]), ([], fun _ => [some 72]), ([], fun _ => [some 24])]).1.sims.map (·.step)) = [24, 24] ∧
    ((runLoop (initSims (configure 0 240 24 0) 2 (fun _ => [some 24]))
    [([], fun _ => [some 48]), ([], fun _ => [some 72])]).2) = [(0, 24, [0, 1]), (24, 72, [0, 1])] := by decide
/-- the same request twice before the update, and once more after the simulant was parked -/
example : moveToEnd (moveToEnd demo [0]) [0] = moveToEnd demo [0] ∧
    (iterate (iterate demo [.toEnd [0], .toEnd [0]] (fun _ => [none])) [.toEnd [0]] (fun _ => [none])).sims.map (·.next) =
    (iterate (iterate demo [.toEnd [0]] (fun _ => [none])) [] (fun _ => [none])).sims.map (·.next) := by decide
example : (runLoop demo [([], fun _ => [some 24]), ([.birth 1], fun _ => [some 48])]).2 =
    [(0, 24, [1]), (24, 48, [1, 2])] := by decide

/-- lesson 16, the experiment on the real code: four simulants with steps 48 / 72 / 24 / 96 h; at the first update
(clock 24 h) only simulant 2 is updated. A request for {2} made from INSIDE the modifier is honoured by that update … -/
def demo4 : Clock := initSims (configure 0 288 24 0) 4 (fun i => [[some 48], [some 72], [some 24], [some 96]].getD i [])
def mods4 : Nat → List (Option Nat) := fun i => [[some 48], [some 72], [some 24], [some 96]].getD i []
example : Evaluated demo4 := ⟨by decide, by decide, by decide⟩
example : stepForwardRe demo4 mods4 [{ req := [2] }] =
    ({ demo4 with now := 24, sims := [⟨0, 48, 48⟩, ⟨1, 72, 72⟩, ⟨2, 312, 288⟩, ⟨3, 96, 96⟩] }, .done) := by decide
/-- … a request for {0}, who is not being updated, raises `KeyError` in `.loc`: the clock has moved, nothing else, and
the request stays pending; the caller steps again and the next update parks simulant 0 … -/
example : stepForwardRe demo4 mods4 [{ req := [0] }] = ({ demo4 with now := 24, snooze := [0] }, .keyError) := by decide
example : (stepForwardRe (stepForwardRe demo4 mods4 [{ req := [0] }]).1 mods4 []).1.sims =
    [⟨0, 312, 264⟩, ⟨1, 72, 72⟩, ⟨2, 72, 24⟩, ⟨3, 96, 96⟩] := by decide
/-- … and a modifier that raises after the first one made its request leaves that request pending as well -/
example : stepForwardRe demo4 mods4 [{ req := [2] }, { raises := true }, { req := [3] }] =
    ({ demo4 with now := 24, snooze := [2] }, .raised) := by decide
example : made [{ req := [2] }, { req := [1], raises := true, reqFirst := false }, { req := [3] }] = [2] := by decide
/-- after the failed update the invariant is gone (the clock sits on simulant 2's next-event time, the global step is
stale) – the flag of `RSteps` is needed: -/
example : ¬ J (stepForwardRe demo4 mods4 [{ raises := true }]).1 := by
  intro h; have := h.1 ⟨2, 24, 24⟩ (by decide); revert this; decide

end Viv.Props.C10
