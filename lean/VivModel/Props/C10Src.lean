import VivModel.Model.Clock
import VivModel.Gen.Src
import VivModel.Lemmas.PyAst
import VivModel.Lemmas.PyState
/-!
# C10 — source tie: `SimulationClock.step_forward`, `get_active_simulants`, `move_simulants_to_end` evaluate to the model

`Gen.Src.clockStepForward`, `clockActive`, `clockMoveToEnd` are the syntax trees of those methods in /repo's working tree
(regenerated on every run). `stepForward_run`: for every clock whose labels are unique and whose pending move-to-end
labels are rows of the table (the real code raises otherwise: `Outcome.popError`), every modifier output and the whole
population as `index`, the clock that `step_forward` leaves IS the model's `stepForward` - the order of the source is
what is proved: the clock moves first, the update index is `active(time) ∪ pending`, the frame read from the view is
rewritten (`step_size` from the pipeline, parked rows overwritten, `next_event_time = time + step_size`), the pending set
is cleared, the frame written back, and the global step becomes `min(next_event_time) - time`.
`active_run`: `get_active_simulants` = `activeAt`; `moveToEnd_run`: `move_simulants_to_end` = `moveToEnd`.

Modelled rather than verified here: the pandas primitives of the world (`Index.union` as membership, `PopulationView.get`
= the rows with a requested label in table order, column assignment of an index-ALIGNED Series - a misaligned one is
refused by the world, `.loc[labels, col] = scalar`, `PopulationView.update` = rows replaced by label, `Series.min`),
`simulant_next_event_times` (= the `next_event_time` column for the requested labels) and the step-size pipeline
(= `postProcess` of the modifiers' answers: C10 `postProcess_spec`; its tie to `step_size_post_processor` is the
correspondence check). User code acting inside the call (`stepForwardRe`) is covered by the model and the harness, not
by this evaluation.
-/
namespace Viv.Props.C10Src
open Viv.Py Viv.Clock

inductive KFn where
  | len | active | nextTimes | union (a : List Nat) | minOf (l : List (Nat × Int)) | viewGet | viewUpdate | pipeline | pdIndex

/-- the Python objects `SimulationClock.step_forward` touches -/
inductive KV where
  | none | bool (b : Bool) | int (i : Int) | str (s : String)
  | self
  /-- `self._individual_clocks`: the population view on the clock columns -/
  | view
  | pdMod
  /-- a `Timestamp` or a `Timedelta` (the model's integer time) -/
  | time (t : Int)
  /-- a `pd.Index` of simulant labels -/
  | idx (ids : List Nat)
  /-- a Series of times / step sizes by label -/
  | series (l : List (Nat × Int))
  /-- a boolean Series, positionally aligned with the Series it was computed from -/
  | mask (bs : List Bool)
  /-- `clocks_to_update`: the frame `PopulationView.get` handed out (a copy; it lives in the state), and its `.loc` -/
  | frameRef | locOf
  | fn (f : KFn)
  | list (vs : List KV)

/-- state: the clock (with the clock columns of the state table), and the rows of the frame being prepared -/
structure St where
  c : Clock
  frame : List SimClk

abbrev M := SM St

def kGlobal (n : String) : M KV :=
  if n == "pd" then pure .pdMod else if n == "len" then pure (.fn .len) else throw "NameError"

def kGetAttr (o : KV) (a : String) : M KV := match o with
  | .self => do
    let st ← get
    if a == "_clock_time" || a == "time" then pure (.time st.c.now)
    else if a == "step_size" || a == "_clock_step_size" then pure (.time st.c.step)
    else if a == "stop_time" then pure (.time st.c.stop)
    else if a == "minimum_step_size" then pure (.time st.c.minStep)
    else if a == "_individual_clocks" then pure .view
    else if a == "_simulants_to_snooze" then pure (.idx st.c.snooze)
    else if a == "get_active_simulants" then pure (.fn .active)
    else if a == "simulant_next_event_times" then pure (.fn .nextTimes)
    else if a == "_step_size_pipeline" then pure (.fn .pipeline)
    else throw "AttributeError"
  | .view => if a == "get" then pure (.fn .viewGet) else if a == "update" then pure (.fn .viewUpdate) else throw "AttributeError"
  | .pdMod => if a == "Index" then pure (.fn .pdIndex) else throw "AttributeError"
  | .idx l => if a == "empty" then pure (.bool l.isEmpty) else if a == "union" then pure (.fn (.union l)) else throw "AttributeError"
  | .series l =>
    if a == "index" then pure (.idx (l.map (·.1))) else if a == "min" then pure (.fn (.minOf l)) else throw "AttributeError"
  | .frameRef => do
    let st ← get
    if a == "empty" then pure (.bool st.frame.isEmpty) else if a == "loc" then pure .locOf else throw "AttributeError"
  | _ => throw "AttributeError"

def kSetAttr (o : KV) (a : String) (v : KV) : M Unit := match o, v with
  | .self, .time t =>
    if a == "_clock_time" then modify fun st => { st with c := { st.c with now := t } }
    else if a == "_clock_step_size" then modify fun st => { st with c := { st.c with step := t } }
    else throw "AttributeError"
  | .self, .idx l =>
    if a == "_simulants_to_snooze" then modify fun st => { st with c := { st.c with snooze := l } } else throw "AttributeError"
  | _, _ => throw "AttributeError"

/-- rows of the state table with a label of `ids`, in table order -/
def rowsOf (c : Clock) (ids : List Nat) : List SimClk := c.sims.filter fun s => ids.contains s.id

/-- `frame[col] = series`: the values are written row by row; only an index-aligned Series is modelled -/
def setCol (col : String) (frame : List SimClk) (vals : List Int) : List SimClk :=
  List.zipWith (fun s v => if col == "step_size" then { s with step := v } else { s with next := v }) frame vals

def kPrim (mods : Nat → List (Option Nat)) (f : KFn) (args : List KV) : M KV := match f, args with
  | .len, [.idx l] => pure (.int l.length)
  | .union a, [.idx b] => pure (.idx (a ++ b.filter fun i => !a.contains i))
  | .nextTimes, [.idx ids] => do
    let st ← get
    if ids.all (knows st.c) then pure (.series ((rowsOf st.c ids).map fun s => (s.id, s.next))) else throw "PopulationError"
  | .minOf l, [] => match minOpt (l.map (fun (p : Nat × Int) => p.2)) with
    | some m => pure (.time m)
    | Option.none => throw "ValueError"
  | .viewGet, [.idx ids] => do
    let st ← get
    if ids.all (knows st.c) then do set { st with frame := rowsOf st.c ids }; pure .frameRef else throw "PopulationError"
  | .viewUpdate, [.frameRef] => do
    modify fun st => { st with c := { st.c with sims := st.c.sims.map fun s => (st.frame.find? (·.id == s.id)).getD s } }
    pure .none
  | .pipeline, [.idx ids] => do
    let st ← get
    pure (.series ((rowsOf st.c ids).map fun s => (s.id, postProcess st.c.minStep st.c.stdStep (mods s.id))))
  | .pdIndex, [.list []] => pure (.idx [])
  | _, _ => throw "TypeError"

def kSetItem (o k v : KV) : M Unit := match o, k, v with
  | .frameRef, .str col, .series l => do
    let st ← get
    if (col == "step_size" || col == "next_event_time") && l.map Prod.fst = st.frame.map SimClk.id
    then set { st with frame := setCol col st.frame (l.map Prod.snd) }
    else throw "Unsupported"
  | .locOf, .list [.idx rows, .str col], .time t => do
    let st ← get
    if col == "step_size" && rows.all fun i => st.frame.any (·.id == i)
    then set { st with frame := st.frame.map fun (s : SimClk) => if rows.contains s.id then { s with step := t } else s }
    else throw "KeyError"
  | _, _, _ => throw "TypeError"

def kSub (o k : KV) : M KV := match o, k with
  | .series l, .mask bs =>
    if bs.length = l.length then pure (.series ((l.zip bs).filterMap fun p => if p.2 then some p.1 else Option.none))
    else throw "IndexError"
  | .frameRef, .str col => do
    let st ← get
    if col == "step_size" then pure (.series (st.frame.map fun s => (s.id, s.step)))
    else if col == "next_event_time" then pure (.series (st.frame.map fun s => (s.id, s.next)))
    else throw "KeyError"
  | _, _ => throw "TypeError"

def kBin (op : String) (l r : KV) : M KV := match l, r with
  | .time a, .time b =>
    if op == "Add" then pure (.time (a + b)) else if op == "Sub" then pure (.time (a - b)) else throw "TypeError"
  | .time a, .series l => if op == "Add" then pure (.series (l.map fun p => (p.1, a + p.2))) else throw "TypeError"
  | _, _ => throw "TypeError"

def kCmp (op : String) (l r : KV) : M KV := match l, r with
  | .series l, .time t => if op == "LtE" then pure (.mask (l.map fun p => decide (p.2 ≤ t))) else throw "TypeError"
  | .int a, .int b =>
    if op == "Gt" then pure (.bool (decide (a > b))) else if op == "NotEq" then pure (.bool (a != b)) else throw "TypeError"
  | _, _ => throw "TypeError"

def kTruthy : KV → M Bool
  | .none => pure false
  | .bool b => pure b
  | .int i => pure (i != 0)
  | _ => pure true

def kworldWith (mods : Nat → List (Option Nat)) (callee : Option (World M KV)) : World M KV where
  none := .none
  bool := .bool
  int := .int
  str := .str
  list := .list
  newList vs := pure (.list vs)
  tuple := .list
  global := kGlobal
  truthy := kTruthy
  getAttr := kGetAttr
  setAttr := kSetAttr
  call f args kws := match f, args, kws, callee with
    | .fn .active, [i, t], [], some w => Gen.Src.clockActive.run w [("self", .self), ("index", i), ("time", t)]
    | .fn .active, _, _, _ => throw "Unsupported"
    | .fn f, args, [], _ => kPrim mods f args
    | _, _, _, _ => throw "TypeError"
  cmp := kCmp
  bin := kBin
  neg _ := throw "TypeError"
  sub := kSub
  slice _ _ := .none
  setItem := kSetItem
  iter _ := throw "TypeError"
  unstar _ := throw "TypeError"
  format _ := throw "TypeError"
  concat _ := throw "TypeError"
  dict _ := throw "TypeError"
  whileLoop _ _ _ := throw "Unsupported"
  other _ := throw "Unsupported"
  throw cls := throw cls
  rethrow := throw "reraise"
  catchAll body handler := tryCatch body (fun _ => handler)
  catchCls cls body handler := tryCatch body (fun e => if e == cls then handler else throw e)

/-! ### list facts -/

theorem knows_of_mem (c : Clock) (s : SimClk) (h : s ∈ c.sims) : knows c s.id = true := by
  simp only [knows, List.any_eq_true]
  exact ⟨s, h, by simp⟩

theorem all_knows_ids (c : Clock) : (c.sims.map (·.id)).all (knows c) = true := by
  simp only [List.all_eq_true, List.mem_map]
  rintro i ⟨s, hs, rfl⟩
  exact knows_of_mem c s hs

theorem rowsOf_all (c : Clock) : rowsOf c (c.sims.map (·.id)) = c.sims := by
  unfold rowsOf
  rw [List.filter_eq_self]
  intro s hs
  simp only [List.contains_eq_mem, List.mem_map, decide_eq_true_eq]
  exact ⟨s, hs, rfl⟩

theorem zip_mask {α : Type} (p : α → Bool) : ∀ (l : List α),
    (l.zip (l.map p)).filterMap (fun q => if q.2 then some q.1 else none) = l.filter p
  | [] => rfl
  | a :: l => by
    simp only [List.map_cons, List.zip_cons_cons, List.filterMap_cons, List.filter_cons]
    cases h : p a <;> simp [zip_mask p l]

theorem active_ids (t : Int) : ∀ l : List SimClk,
    List.map (fun x => x.fst) (List.filterMap (fun p : (Nat × Int) × Bool => if p.snd = true then some p.fst else none)
      ((l.map fun s => (s.id, s.next)).zip (l.map fun x => decide (x.next ≤ t)))) = (l.filter (due t)).map (fun x => x.id)
  | [] => rfl
  | a :: l => by
    simp only [List.map_cons, List.zip_cons_cons, List.filterMap_cons, List.filter_cons, due]
    by_cases h : a.next ≤ t <;> simp [h, active_ids t l, due]

/-- labels are unique: a row is determined by its label -/
theorem eq_of_id (l : List SimClk) (hn : (l.map (·.id)).Nodup) (s s' : SimClk) (hs : s ∈ l) (hs' : s' ∈ l)
    (h : s.id = s'.id) : s = s' := by
  induction l with
  | nil => cases hs
  | cons a l ih =>
    simp only [List.map_cons, List.nodup_cons, List.mem_map, not_exists, not_and] at hn
    rcases List.mem_cons.mp hs with rfl | hs1 <;> rcases List.mem_cons.mp hs' with rfl | hs1'
    · rfl
    · exact absurd h.symm (hn.1 s' hs1')
    · exact absurd h (hn.1 s hs1)
    · exact ih hn.2 hs1 hs1'


theorem uidx_contains (c : Clock) (t : Int) (hn : (c.sims.map (·.id)).Nodup) (s : SimClk) (hs : s ∈ c.sims) :
    (((c.sims.filter (due t)).map (·.id)) ++ c.snooze.filter fun i => !((c.sims.filter (due t)).map (·.id)).contains i).contains s.id
      = needsUpdate c t s := by
  have hA : ((c.sims.filter (due t)).map (·.id)).contains s.id = due t s := by
    cases hd : due t s with
    | true =>
      simp only [List.contains_eq_mem, List.mem_map, List.mem_filter, decide_eq_true_eq]
      exact ⟨s, ⟨hs, hd⟩, rfl⟩
    | false =>
      simp only [List.contains_eq_mem, List.mem_map, List.mem_filter, decide_eq_false_iff_not, not_exists, not_and, and_imp]
      intro s' hs' hd' hid
      have := eq_of_id c.sims hn s' s hs' hs hid
      subst this
      simp [hd] at hd'
  unfold needsUpdate
  cases hd : due t s with
  | true =>
    rw [hd] at hA
    have hm : s.id ∈ (c.sims.filter (due t)).map (·.id) := by simpa using hA
    simp only [Bool.true_or, List.contains_eq_mem, decide_eq_true_eq, List.mem_append]
    exact Or.inl hm
  | false =>
    rw [hd] at hA
    have hA' : s.id ∉ (c.sims.filter (due t)).map (·.id) := by simpa using hA
    simp only [Bool.false_or]
    cases hc : c.snooze.contains s.id with
    | true =>
      have hm : s.id ∈ c.snooze := by simpa using hc
      simp only [List.contains_eq_mem, List.mem_append, List.mem_filter, decide_eq_true_eq]
      exact Or.inr ⟨hm, by simpa using hA'⟩
    | false =>
      have hm : s.id ∉ c.snooze := by simpa using hc
      simp only [List.contains_eq_mem, List.mem_append, List.mem_filter, decide_eq_false_iff_not]
      rintro (h | h)
      · exact hA' h
      · exact hm h.1

theorem setCol_step (fr : List SimClk) (f : SimClk → Int) :
    setCol "step_size" fr (fr.map f) = fr.map fun s => { s with step := f s } := by
  induction fr with
  | nil => rfl
  | cons a l ih =>
    simp only [setCol, List.map_cons, List.zipWith_cons_cons] at ih ⊢
    rw [ih]; simp

theorem setCol_next (fr : List SimClk) (f : SimClk → Int) :
    setCol "next_event_time" fr (fr.map f) = fr.map fun s => { s with next := f s } := by
  induction fr with
  | nil => rfl
  | cons a l ih =>
    simp only [setCol, List.map_cons, List.zipWith_cons_cons] at ih ⊢
    rw [ih]; simp

theorem setCol_next' {α : Type} (l : List α) (g : α → SimClk) (f : SimClk → Int) :
    setCol "next_event_time" (l.map g) (l.map (f ∘ g)) = l.map fun a => { g a with next := f (g a) } := by
  rw [← List.map_map, setCol_next, List.map_map]
  rfl

/-- `PopulationView.update(frame)` when the frame holds the rows selected by `p`, rewritten by `g` (labels kept): every
selected row of the table is replaced by its rewritten row, the others stay -/
theorem update_rows (p : SimClk → Bool) (g : SimClk → SimClk) (hg : ∀ s, (g s).id = s.id) :
    ∀ (l : List SimClk) (hn : (l.map (·.id)).Nodup) (s : SimClk), s ∈ l →
      (((l.filter p).map g).find? (·.id == s.id)).getD s = if p s then g s else s
  | [], _, s, h => by cases h
  | a :: l, hn, s, h => by
    simp only [List.map_cons, List.nodup_cons, List.mem_map, not_exists, not_and] at hn
    rcases List.mem_cons.mp h with rfl | hs
    · cases hp : p s with
      | true => simp [List.filter_cons, hp, hg]
      | false =>
        have : ((l.filter p).map g).find? (·.id == s.id) = none := by
          simp only [List.find?_eq_none, List.mem_map, List.mem_filter, beq_iff_eq]
          rintro x ⟨y, ⟨hy, _⟩, rfl⟩ hid
          rw [hg] at hid
          exact hn.1 y hy hid
        simp [List.filter_cons, hp, this]
    · have hne : a.id ≠ s.id := fun h => hn.1 s hs h.symm
      cases hp : p a with
      | true =>
        have hne' : ((g a).id == s.id) = false := by simpa [hg] using hne
        simp only [List.filter_cons, hp, if_true, List.map_cons, List.find?_cons, hne']
        exact update_rows p g hg l hn.2 s hs
      | false =>
        simp only [List.filter_cons, hp]
        exact update_rows p g hg l hn.2 s hs

theorem updSim_id (c : Clock) (t : Int) (mods : Nat → List (Option Nat)) (s : SimClk) : (updSim c t mods s).id = s.id := by
  unfold updSim; split <;> rfl

/-- `get_active_simulants(index, time)` as written, for the whole population: the labels whose next event time has been
reached - the model's `activeAt` -/
theorem active_run (mods : Nat → List (Option Nat)) (callee : Option (World M KV)) (t : Int) (st : St) :
    runM (Gen.Src.clockActive.run (kworldWith mods callee)
        [("self", .self), ("index", .idx (st.c.sims.map (·.id))), ("time", .time t)]) st
      = (.ok (.idx ((activeAt st.c t).map (·.id))), st) := by
  rw [runM_func]
  simp only [Gen.Src.clockActive]
  cases hs : st.c.sims with
  | nil =>
    pystep [kworldWith, kGetAttr, kTruthy]
    simp [activeAt, hs]
  | cons a l =>
    rw [← hs]
    have he : (st.c.sims.map (·.id)).isEmpty = false := by simp [hs]
    pystep [kworldWith, kGetAttr, kTruthy, he]
    have hk : ∀ a ∈ st.c.sims, knows st.c a.id = true := fun a h => knows_of_mem _ _ h
    pystep [kworldWith, kGetAttr, kPrim, rowsOf_all]
    rw [if_pos hk]
    dsimp only
    pystep [kworldWith, kGetAttr, kCmp, kSub]
    simp only [activeAt, Function.comp_def]
    rw [active_ids t st.c.sims]


/-- `SimulationClock.step_forward(index)` as written, for the whole population, per-simulant clocks in use, every pending
move-to-end label a row of the table: the clock it leaves IS the model's `stepForward` -/
theorem stepForward_run (mods : Nat → List (Option Nat)) (c : Clock) (fr : List SimClk)
    (hn : (c.sims.map (·.id)).Nodup) (hk : c.snooze.all (knows c) = true) :
    ∃ fr', runM (Gen.Src.clockStepForward.run (kworldWith mods (some (kworldWith mods Option.none)))
        [("self", .self), ("index", .idx (c.sims.map (·.id)))]) ⟨c, fr⟩ = (.ok .none, ⟨stepForward c mods, fr'⟩) := by
  have hact := active_run mods Option.none (c.now + c.step) ⟨{ c with now := c.now + c.step }, fr⟩
  dsimp only at hact
  rw [runM_func]
  simp only [Gen.Src.clockStepForward]
  generalize kworldWith mods Option.none = w1 at hact ⊢
  pystep [kworldWith, kGetAttr, kBin, kSetAttr]
  by_cases hs : c.sims = []
  · pystep [kworldWith, kGlobal, kGetAttr, kPrim, kCmp, kTruthy, hs]
    exact ⟨fr, by simp [stepForward, hs, kworldWith]⟩
  · have he : (c.sims.map (·.id)).isEmpty = false := by simpa using hs
    have hlen : 0 < c.sims.length := List.length_pos_iff.mpr hs
    have hlen' : c.sims.length ≠ 0 := by omega
    have hlenI : ((c.sims.length : Int) != 0) = true := by simp [hlen']
    rw [runM_block_cons, evalStmt]
    simp only [runM_bind]
    conv in (runM (evalExpr _ _ _) _) =>
      simp [evalExpr, evalArgs, evalKws, kworldWith, kGlobal, kGetAttr, kPrim, kCmp, kTruthy, he, hlen, hlen']
    dsimp only
    conv in (runM ((kworldWith mods (some w1)).truthy _) _) => simp [kworldWith, kTruthy, hlen, hlen']
    dsimp only
    try simp only [hlenI, if_true]
    pystep [kworldWith, kGetAttr, kPrim, hact]
    generalize huidx : (List.map (fun x => x.id) (activeAt _ _) ++ List.filter _ c.snooze) = uidx
    have hU : ∀ s ∈ c.sims, uidx.contains s.id = needsUpdate c (c.now + c.step) s := by
      intro s hs
      have := uidx_contains c (c.now + c.step) hn s hs
      rw [← huidx, ← this]
      congr 1
      simp only [activeAt]
      congr 1
      apply List.filter_congr
      intro i _
      simp only [List.contains_eq_mem, List.mem_map]
      congr
    have hUk : ∀ x ∈ uidx, knows { c with now := c.now + c.step } x = true := by
      intro x hx
      rw [← huidx] at hx
      rcases List.mem_append.mp hx with h | h
      · obtain ⟨s, hs, rfl⟩ := List.mem_map.mp h
        exact knows_of_mem _ s (List.mem_filter.mp hs).1
      · have := (List.all_eq_true.mp hk) x (List.mem_filter.mp h).1
        simpa [knows] using this
    have hF : rowsOf { c with now := c.now + c.step } uidx = c.sims.filter (needsUpdate c (c.now + c.step)) := by
      unfold rowsOf
      exact List.filter_congr fun s hs => hU s hs
    clear huidx
    pystep [kworldWith, kGetAttr, kPrim]
    rw [if_pos hUk, hF]
    dsimp only
    by_cases hF0 : (c.sims.filter (needsUpdate c (c.now + c.step))).isEmpty = true
    · -- nothing to update
      rw [runM_block_cons, evalStmt]
      simp only [runM_bind]
      conv in (runM (evalExpr _ _ _) _) => simp [evalExpr, kworldWith, kGetAttr, kTruthy, hF0]
      dsimp only
      conv in (runM ((kworldWith mods (some w1)).truthy _) _) => simp [kworldWith, kTruthy]
      dsimp only
      simp only [Bool.false_eq_true, if_false]
      rw [runM_block_nil]
      dsimp only
      obtain ⟨m, hm⟩ : ∃ m, minOpt (List.map (fun x => x.next) c.sims) = some m := by
        cases h : c.sims with
        | nil => exact absurd h hs
        | cons a l => exact ⟨_, rfl⟩
      have hk1 : (∀ (a : SimClk), a ∈ c.sims → knows { c with now := c.now + c.step } a.id = true) :=
        fun a h => knows_of_mem { c with now := c.now + c.step } a h
      have hall := rowsOf_all { c with now := c.now + c.step }
      dsimp only at hall
      pystep [kworldWith, kGetAttr, kPrim, kBin, kSetAttr, hall]
      rw [if_pos hk1]
      simp [kworldWith, kGetAttr, kPrim, kBin, kSetAttr, Function.comp_def, hm]
      have hno : ∀ s ∈ c.sims, needsUpdate c (c.now + c.step) s = false := by
        intro s hs1
        cases hnu : needsUpdate c (c.now + c.step) s with
        | false => rfl
        | true =>
          have hmem : s ∈ c.sims.filter (needsUpdate c (c.now + c.step)) := List.mem_filter.mpr ⟨hs1, hnu⟩
          rw [List.isEmpty_iff.mp hF0] at hmem
          cases hmem
      have hmap : c.sims.map (updSim c (c.now + c.step) mods) = c.sims := by
        conv => rhs; rw [← List.map_id c.sims]
        apply List.map_congr_left
        intro s hs1
        simp [updSim, hno s hs1]
      have hany : c.sims.any (needsUpdate c (c.now + c.step)) = false := by
        rw [List.any_eq_false]
        intro s hs1
        simp [hno s hs1]
      have hne : c.sims.isEmpty = false := by simpa using hs
      simp only [stepForward, hne, hmap, hany, hm]
      simp
    · have hF0' : (c.sims.filter (needsUpdate c (c.now + c.step))).isEmpty = false := by simpa using hF0
      rw [runM_block_cons, evalStmt]
      simp only [runM_bind]
      conv in (runM (evalExpr _ _ _) _) => simp [evalExpr, kworldWith, kGetAttr, kTruthy, hF0']
      dsimp only
      conv in (runM ((kworldWith mods (some w1)).truthy _) _) => simp [kworldWith, kTruthy]
      dsimp only
      try simp only [if_true]
      pystep [kworldWith, kGetAttr, kPrim, kSetItem, hF]
      simp only [Function.comp_def]
      rw [setCol_step]
      pystep [kworldWith, kGetAttr, kBin, kSetItem]
      have hloc : ∀ (x : Nat), x ∈ c.snooze → ∃ x_1, x_1 ∈ List.map
          (fun s => ({ id := s.id, next := s.next, step := postProcess c.minStep c.stdStep (mods s.id) } : SimClk))
          (List.filter (needsUpdate c (c.now + c.step)) c.sims) ∧ x_1.id = x := by
        intro x hx
        have hkx := (List.all_eq_true.mp hk) x hx
        simp only [knows, List.any_eq_true, beq_iff_eq] at hkx
        obtain ⟨s, hs1, rfl⟩ := hkx
        refine ⟨_, List.mem_map.mpr ⟨s, List.mem_filter.mpr ⟨hs1, ?_⟩, rfl⟩, rfl⟩
        simp [needsUpdate, hx]
      rw [if_pos hloc]
      dsimp only
      pystep [kworldWith, kGetAttr, kGlobal, kPrim, kSetAttr]
      pystep [kworldWith, kGetAttr, kBin, kSub, kSetItem]
      rw [setCol_next']
      generalize hF3 : List.map _ (List.filter (needsUpdate c (c.now + c.step)) c.sims) = F3
      have hG : F3 = (c.sims.filter (needsUpdate c (c.now + c.step))).map (updSim c (c.now + c.step) mods) := by
        rw [← hF3]
        apply List.map_congr_left
        intro s hs1
        have hnu := (List.mem_filter.mp hs1).2
        by_cases hsn : s.id ∈ c.snooze <;> simp [updSim, hnu, hsn, Function.comp_def]
      clear hF3
      pystep [kworldWith, kGetAttr, kPrim]
      rw [runM_block_nil]
      dsimp only
      have hupd : List.map (fun s => (List.find? (fun x => x.id == s.id) F3).getD s) c.sims
          = c.sims.map (updSim c (c.now + c.step) mods) := by
        apply List.map_congr_left
        intro s hs1
        rw [hG, update_rows _ _ (updSim_id c (c.now + c.step) mods) c.sims hn s hs1]
        by_cases hnu : needsUpdate c (c.now + c.step) s = true
        · simp [hnu]
        · simp [hnu, updSim]
      rw [hupd]
      have hids : (c.sims.map (updSim c (c.now + c.step) mods)).map (·.id) = c.sims.map (·.id) := by
        rw [List.map_map]
        apply List.map_congr_left
        intro s _
        exact updSim_id c (c.now + c.step) mods s
      have hall3 := rowsOf_all { c with now := c.now + c.step, sims := c.sims.map (updSim c (c.now + c.step) mods), snooze := [] }
      dsimp only at hall3
      rw [hids] at hall3
      have hk3 : ∀ (a : SimClk), a ∈ c.sims →
          knows { c with now := c.now + c.step, sims := c.sims.map (updSim c (c.now + c.step) mods), snooze := [] } a.id = true := by
        intro a ha
        have := knows_of_mem { c with now := c.now + c.step, sims := c.sims.map (updSim c (c.now + c.step) mods), snooze := [] }
          (updSim c (c.now + c.step) mods a) (List.mem_map.mpr ⟨a, ha, rfl⟩)
        rwa [updSim_id] at this
      obtain ⟨m, hm⟩ : ∃ m, minOpt (List.map (fun x => x.next) (c.sims.map (updSim c (c.now + c.step) mods))) = some m := by
        cases h : c.sims with
        | nil => exact absurd h hs
        | cons a l => exact ⟨_, rfl⟩
      pystep [kworldWith, kGetAttr, kPrim, kBin, kSetAttr, hall3]
      rw [if_pos hk3]
      have hany : c.sims.any (needsUpdate c (c.now + c.step)) = true := by
        cases hF' : c.sims.filter (needsUpdate c (c.now + c.step)) with
        | nil => simp [hF'] at hF0'
        | cons a l =>
          have ha : a ∈ c.sims.filter (needsUpdate c (c.now + c.step)) := by rw [hF']; exact List.mem_cons_self
          exact List.any_eq_true.mpr ⟨a, (List.mem_filter.mp ha).1, (List.mem_filter.mp ha).2⟩
      have hne : c.sims.isEmpty = false := by simpa using hs
      simp only [List.map_map, Function.comp_def] at hm
      simp [kworldWith, kGetAttr, kPrim, kBin, kSetAttr, Function.comp_def, hm]
      simp only [stepForward, hne, hany, List.map_map, Function.comp_def, hm]
      simp


/-- `move_simulants_to_end(index)` as written IS the model's `moveToEnd`: the labels join the pending set (`Index.union`),
an empty index changes nothing -/
theorem moveToEnd_run (mods : Nat → List (Option Nat)) (callee : Option (World M KV)) (ids : List Nat) (st : St) :
    runM (Gen.Src.clockMoveToEnd.run (kworldWith mods callee) [("self", .self), ("index", .idx ids)]) st
      = (.ok .none, { st with c := moveToEnd st.c ids }) := by
  rw [runM_func]
  simp only [Gen.Src.clockMoveToEnd]
  cases he : ids.isEmpty with
  | true =>
    have hnil : ids = [] := by simpa using he
    pystep [kworldWith, kGlobal, kGetAttr, kPrim, kCmp, kTruthy, he, hnil]
    simp [moveToEnd, he, kworldWith]
  | false =>
    have hne : ids ≠ [] := by simpa using he
    have hlen : 0 < ids.length := List.length_pos_iff.mpr hne
    have hlen' : ids.length ≠ 0 := by omega
    have hlenI : ((ids.length : Int) != 0) = true := by simp [hlen']
    rw [runM_block_cons, evalStmt]
    simp only [runM_bind]
    conv in (runM (evalExpr _ _ _) _) =>
      simp [evalExpr, evalArgs, evalKws, kworldWith, kGlobal, kGetAttr, kPrim, kCmp, kTruthy, he, hne, hlen, hlen']
    dsimp only
    conv in (runM ((kworldWith mods callee).truthy _) _) => simp [kworldWith, kTruthy, hne, hlen, hlen']
    dsimp only
    try simp only [hlenI, if_true]
    pystep [kworldWith, kGetAttr, kPrim, kSetAttr]
    simp [moveToEnd, he, kworldWith]

end Viv.Props.C10Src
