import VivModel.Model.Util
import VivModel.Model.Table
import VivModel.Lemmas.Table
/-! C11 — a view update writes exactly what it was given, or nothing.

`update` is `PopulationView.update` as it exists (coerce → preconditions → every column computed →
assignment loop).  The theorems speak about *every* table, view and update:

* `update_frame`   the cell of simulant `r` in column `c` is the supplied value when `(r, c)` is addressed
                   and the old cell otherwise (by label, whatever the order of the update's rows);
* `update_shape`   rows, their order, the columns, their order and their dtypes are unchanged;
* `rejected_*`     each rejection the property lists is raised, with the state left as it was;
* `update_perm`    the order in which the update's columns are visited (a Python `set`: the
                   PYTHONHASHSEED channel) does not matter;
* `update_row_order_irrelevant`   nor does the order of the update's rows.

Copies are trivial in an immutable model; that frames handed out earlier are unaffected by later
writes is checked by the harness on the implementation. -/
namespace Viv.Props.C11
open Viv.Table

/-- a time-step update (no creation in progress) -/
def Mgr.Normal (m : Mgr) : Prop := m.initial = false ∧ m.adding = false

/-- in the normal mode a successful column computation is the plain positional write -/
theorem updateColumn_normal {rows urows : List Nat} {k n : Col} {u : UCol}
    (h : updateColumn rows k urows u false = .ok n) :
    k.dtype = u.dtype ∧ n = { k with cells := writeCells rows k.cells urows u.vals } := by
  unfold updateColumn at h
  split at h
  · rename_i hd; cases h; exact ⟨hd, rfl⟩
  · simp at h

/-- the frame rule for any update that is not part of the initial creation, given that every computed
column is the plain positional write -/
theorem update_frame_gen {m m' : Mgr} {v : View} {u : Upd} {f : Frame}
    (hwf : m.table.WF) (hi : m.initial = false)
    (hc : coerce u (viewColumns m.table v) = .ok f) (hf : f.WF)
    (hplain : ∀ u' ∈ f.cols, ∀ k n, updateColumn m.table.rows k f.rows u' m.adding = .ok n →
      n = { k with cells := writeCells m.table.rows k.cells f.rows u'.vals })
    (h : update m v u = .ok m') (r : Nat) (c : String) :
    m'.table.cell? r c = if r ∈ f.rows ∧ c ∈ f.names then f.value? r c else m.table.cell? r c := by
  obtain ⟨f', hc', hp, hcase⟩ := update_ok_normal hi h
  rw [hc] at hc'; cases hc'
  rcases hcase with ⟨he, rfl⟩ | ⟨_, t', hw, rfl⟩
  · have : r ∉ f.rows := by
      have : f.rows = [] := by simpa using he
      simp [this]
    simp [this]
  · rw [table_of_pop]
    obtain ⟨hrows, hcolsex, _⟩ := precheck_ok hp
    obtain ⟨_, _, _, hrows'⟩ := writeAll_ok hw
    unfold Table.cell?
    cases hcol : m.table.col? c with
    | none =>
      rw [writeAll_col?_none hw hf.namesNodup hcol]
      have : c ∉ f.names := by
        intro hm
        obtain ⟨u', hu', rfl⟩ := mem_names_iff.mp hm
        obtain ⟨k, hk⟩ := hcolsex u' hu'
        rw [hcol] at hk; cases hk
      simp [this]
    | some k =>
      by_cases hm : c ∈ f.names
      · obtain ⟨u', hu', hname⟩ := mem_names_iff.mp hm
        obtain ⟨n, hup, hcol'⟩ := writeAll_col?_hit hw hf.namesNodup hcol hu' hname
        have hn := hplain u' hu' k n hup
        subst hn
        rw [hcol']
        simp only [hm, and_true, hrows']
        have hlen : k.cells.length = m.table.rows.length := hwf.lens k (col?_some hcol).1
        rw [cellOf_writeCells _ _ _ _ hf.rowsNodup hrows (hf.lens u' hu') hlen]
        rw [← hname, value?_of_mem hf.namesNodup hu']
      · rw [writeAll_col?_other hw hf.namesNodup hcol
          (fun u' hu' e => hm (mem_names_iff.mpr ⟨u', hu', e⟩))]
        simp [hm, hrows']

/-- **Frame rule.** After a successful update outside simulant creation, cell `(r, c)` holds the
supplied value if the update addresses it and is unchanged otherwise. -/
theorem update_frame {m m' : Mgr} {v : View} {u : Upd} {f : Frame}
    (hwf : m.table.WF) (hn : Mgr.Normal m)
    (hc : coerce u (viewColumns m.table v) = .ok f) (hf : f.WF)
    (h : update m v u = .ok m') (r : Nat) (c : String) :
    m'.table.cell? r c = if r ∈ f.rows ∧ c ∈ f.names then f.value? r c else m.table.cell? r c :=
  update_frame_gen hwf hn.1 hc hf
    (fun _ _ _ _ hup => (updateColumn_normal (by rw [hn.2] at hup; exact hup)).2) h r c

/- The full statement would drop the hypothesis `hdt` below: "the frame rule holds for updates made
while simulants are being added (by initializers at a birth) as well".  It is FALSE of the code: the
dtype check is skipped when `adding_simulants` is set and the whole column is cast to the update's
dtype (`adding_dtype_cast_witness`).  Reported as finding `birth-update-dtype-cast`. -/

/-- the frame rule at a birth, for updates that supply each column's own dtype -/
theorem update_frame_adding_partial {m m' : Mgr} {v : View} {u : Upd} {f : Frame}
    (hwf : m.table.WF) (hi : m.initial = false)
    (hc : coerce u (viewColumns m.table v) = .ok f) (hf : f.WF)
    (hdt : ∀ u' ∈ f.cols, ∀ k, m.table.col? u'.name = some k → k.dtype = u'.dtype)
    (h : update m v u = .ok m') (r : Nat) (c : String) :
    m'.table.cell? r c = if r ∈ f.rows ∧ c ∈ f.names then f.value? r c else m.table.cell? r c := by
  -- every column the loop computes comes from the table column of that name
  obtain ⟨f', hc', hp, hcase⟩ := update_ok_normal hi h
  rw [hc] at hc'; cases hc'
  rcases hcase with ⟨he, rfl⟩ | ⟨_, t', hw, rfl⟩
  · have : r ∉ f.rows := by
      have : f.rows = [] := by simpa using he
      simp [this]
    simp [this]
  · rw [table_of_pop]
    obtain ⟨hrows, hcolsex, _⟩ := precheck_ok hp
    obtain ⟨_, _, _, hrows'⟩ := writeAll_ok hw
    unfold Table.cell?
    cases hcol : m.table.col? c with
    | none =>
      rw [writeAll_col?_none hw hf.namesNodup hcol]
      have : c ∉ f.names := by
        intro hm
        obtain ⟨u', hu', rfl⟩ := mem_names_iff.mp hm
        obtain ⟨k, hk⟩ := hcolsex u' hu'
        rw [hcol] at hk; cases hk
      simp [this]
    | some k =>
      by_cases hm : c ∈ f.names
      · obtain ⟨u', hu', hname⟩ := mem_names_iff.mp hm
        obtain ⟨n, hup, hcol'⟩ := writeAll_col?_hit hw hf.namesNodup hcol hu' hname
        have hd : k.dtype = u'.dtype := hdt u' hu' k (hname ▸ hcol)
        have hn : n = { k with cells := writeCells m.table.rows k.cells f.rows u'.vals } := by
          unfold updateColumn at hup
          rw [if_pos hd] at hup
          cases hup; rfl
        subst hn
        rw [hcol']
        simp only [hm, and_true, hrows']
        have hlen : k.cells.length = m.table.rows.length := hwf.lens k (col?_some hcol).1
        rw [cellOf_writeCells _ _ _ _ hf.rowsNodup hrows (hf.lens u' hu') hlen]
        rw [← hname, value?_of_mem hf.namesNodup hu']
      · rw [writeAll_col?_other hw hf.namesNodup hcol
          (fun u' hu' e => hm (mem_names_iff.mpr ⟨u', hu', e⟩))]
        simp [hm, hrows']

/-- what the assignment loop leaves in a table column outside simulant creation: the column itself, or
the column with the update's values written by label -/
theorem loop_normal {t : Table} (hnd : t.names.Nodup) {f : Frame} (hfn : f.names.Nodup) {news : List Col}
    (hn : mapE (colUpdate t f.rows false) f.cols = .ok news) {k : Col} (hk : k ∈ t.cols) :
    news.foldl repl k = k ∨
    ∃ u ∈ f.cols, u.name = k.name ∧ k.dtype = u.dtype ∧
      news.foldl repl k = { k with cells := writeCells t.rows k.cells f.rows u.vals } := by
  by_cases hex : ∃ u ∈ f.cols, u.name = k.name
  · obtain ⟨u, hu, hname⟩ := hex
    obtain ⟨n, hcu, hfold⟩ := loop_hit hn hfn k u hu hname
    obtain ⟨k', hk', hup, _⟩ := colUpdate_ok hcu
    rw [hname, col?_of_mem hnd hk] at hk'
    cases hk'
    obtain ⟨hd, rfl⟩ := updateColumn_normal hup
    exact Or.inr ⟨u, hu, hname, hd, hfold⟩
  · exact Or.inl (loop_other hn k (fun u hu e => hex ⟨u, hu, e⟩))

/-- **Shape.** A successful update outside simulant creation keeps the rows and their order, the
columns, their order and their dtypes, and every column keeps one cell per row. -/
theorem update_shape {m m' : Mgr} {v : View} {u : Upd} {f : Frame} (hwf : m.table.WF) (hn : Mgr.Normal m)
    (hc : coerce u (viewColumns m.table v) = .ok f) (hf : f.WF) (h : update m v u = .ok m') :
    m'.table.rows = m.table.rows ∧
    m'.table.cols.map (fun k => (k.name, k.dtype, k.cells.length)) =
      m.table.cols.map (fun k => (k.name, k.dtype, k.cells.length)) := by
  obtain ⟨f', hc', _, hcase⟩ := update_ok_normal hn.1 h
  rw [hc] at hc'; cases hc'
  rcases hcase with ⟨_, rfl⟩ | ⟨_, t', hw, rfl⟩
  · exact ⟨rfl, rfl⟩
  · rw [table_of_pop]
    rw [hn.2] at hw
    obtain ⟨news, hnews, hcols, hrows⟩ := writeAll_ok hw
    refine ⟨hrows, ?_⟩
    rw [hcols, List.map_map]
    apply List.map_congr_left
    intro k hk
    simp only [Function.comp]
    rcases loop_normal hwf.namesNodup hf.namesNodup hnews hk with e | ⟨u', _, _, _, e⟩
    · rw [e]
    · rw [e]; simp [length_writeCells]

/-- well-formedness is an invariant of successful updates -/
theorem update_preserves_wf {m m' : Mgr} {v : View} {u : Upd} {f : Frame} (hwf : m.table.WF) (hn : Mgr.Normal m)
    (hc : coerce u (viewColumns m.table v) = .ok f) (hf : f.WF) (h : update m v u = .ok m') :
    m'.table.WF := by
  obtain ⟨hrows, hcols⟩ := update_shape hwf hn hc hf h
  have hnames : m'.table.names = m.table.names := by
    have := congrArg (List.map (fun p : String × Dtype × Nat => p.1)) hcols
    rw [List.map_map, List.map_map] at this
    exact this
  refine ⟨hrows ▸ hwf.rowsNodup, by rw [← Table.names, hnames]; exact hwf.namesNodup, ?_⟩
  have hl : m'.table.cols.map (·.cells.length) = m.table.cols.map (·.cells.length) := by
    have := congrArg (List.map (fun p : String × Dtype × Nat => p.2.2)) hcols
    rw [List.map_map, List.map_map] at this
    exact this
  intro k hk
  have h1 : k.cells.length ∈ m'.table.cols.map (·.cells.length) := List.mem_map_of_mem (f := (·.cells.length)) hk
  rw [hl] at h1
  obtain ⟨k0, hk0, e⟩ := List.mem_map.mp h1
  rw [hrows, ← e]
  exact hwf.lens k0 hk0

/-! ### Rejections: each one the property lists is raised and leaves the state as it was -/

/-- whatever the reason, a rejected update leaves the population manager exactly as it was (there is no
assignment before the last check: every column is computed before the first one is assigned) -/
theorem update_rejected_unchanged {m : Mgr} {v : View} {u : Upd} {e : Err} (h : update m v u = .error e) :
    applyUpdate m v u = (m, some e) := by
  simp [applyUpdate, h]

/-- not a Series / DataFrame -/
theorem rejected_type (m : Mgr) (v : View) : applyUpdate m v .other = (m, some .type) :=
  update_rejected_unchanged (by simp [update, coerce])

theorem coerce_unnamed (dt : Dtype) (rows : List Nat) (vals : List Val) :
    ∀ (vc : List String), vc.length ≠ 1 → coerce (.series none dt rows vals) vc = .error .unnamed
  | [], _ => rfl
  | [_], h => by simp at h
  | _ :: _ :: _, _ => rfl

/-- unnamed Series on a view that does not have exactly one column -/
theorem rejected_unnamed (m : Mgr) (v : View) (dt : Dtype) (rows : List Nat) (vals : List Val)
    (h : (viewColumns m.table v).length ≠ 1) :
    applyUpdate m v (.series none dt rows vals) = (m, some .unnamed) := by
  apply update_rejected_unchanged
  simp [update, coerce_unnamed dt rows vals _ h]

/-- a column the view was not created with (DataFrame form, any number of other columns) -/
theorem rejected_foreign (m : Mgr) (v : View) (rows : List Nat) (cols : List UCol)
    (h : ∃ c ∈ cols, c.name ∉ viewColumns m.table v) :
    applyUpdate m v (.frame rows cols) = (m, some .foreign) := by
  apply update_rejected_unchanged
  obtain ⟨c, hc, hn⟩ := h
  have : (cols.any fun c => !(viewColumns m.table v).contains c.name) = true := by
    simp only [List.any_eq_true]
    exact ⟨c, hc, by simpa using hn⟩
  have h1 : checkFrame (viewColumns m.table v) ⟨rows, cols⟩ = .error .foreign := by
    unfold checkFrame; rw [if_pos this]
  simp [update, coerce, h1]

/-- a column the view was not created with (named Series) -/
theorem rejected_foreign_series (m : Mgr) (v : View) (c : String) (dt : Dtype) (rows : List Nat)
    (vals : List Val) (h : c ∉ viewColumns m.table v) :
    applyUpdate m v (.series (some c) dt rows vals) = (m, some .foreign) := by
  apply update_rejected_unchanged
  simp [update, coerce, checkFrame, h]

/-- a DataFrame without columns -/
theorem rejected_nocols (m : Mgr) (v : View) (rows : List Nat) :
    applyUpdate m v (.frame rows []) = (m, some .nocols) :=
  update_rejected_unchanged (by simp [update, coerce, checkFrame])

/-- rows that do not exist -/
theorem rejected_unknown_row {m : Mgr} {v : View} {u : Upd} {f : Frame}
    (hc : coerce u (viewColumns m.table v) = .ok f) (h : ∃ r ∈ f.rows, r ∉ m.table.rows) :
    applyUpdate m v u = (m, some .unknownRow) := by
  apply update_rejected_unchanged
  obtain ⟨r, hr, hn⟩ := h
  have : (f.rows.any fun r => !m.table.rows.contains r) = true := by
    simp only [List.any_eq_true]
    exact ⟨r, hr, by simpa using hn⟩
  have hp : precheck m.table m.initial m.adding f = .error .unknownRow := by
    unfold precheck; rw [if_pos this]
  simp [update, hc, hp]

/-- a new column outside initial population creation (on a time step or at a birth) -/
theorem rejected_new_column {m : Mgr} {v : View} {u : Upd} {f : Frame}
    (hc : coerce u (viewColumns m.table v) = .ok f) (hi : m.initial = false)
    (hrows : ∀ r ∈ f.rows, r ∈ m.table.rows) (h : ∃ c ∈ f.cols, c.name ∉ m.table.names) :
    applyUpdate m v u = (m, some .newColumn) := by
  apply update_rejected_unchanged
  obtain ⟨c, hcm, hn⟩ := h
  have h1 : (f.rows.any fun r => !m.table.rows.contains r) = false := by
    simp only [List.any_eq_false]
    intro r hr; simpa using hrows r hr
  have h2 : (f.cols.any fun c => (m.table.col? c.name).isNone) = true := by
    simp only [List.any_eq_true]
    exact ⟨c, hcm, by simp [col?_none_iff.mpr hn]⟩
  have hp : precheck m.table m.initial m.adding f = .error .newColumn := by
    unfold precheck
    rw [h1, hi]
    simp only [Bool.false_eq_true, if_false]
    rw [if_pos h2]
  simp [update, hc, hp]

/-- values of a different dtype: one offending column among any number of good ones is enough, and
nothing is written (not even the good columns) -/
theorem rejected_dtype {m : Mgr} {v : View} {u : Upd} {f : Frame} (hn : Mgr.Normal m)
    (hc : coerce u (viewColumns m.table v) = .ok f) (hp : precheck m.table false false f = .ok ())
    (hne : f.rows ≠ []) (h : ∃ c ∈ f.cols, ∃ k, m.table.col? c.name = some k ∧ k.dtype ≠ c.dtype) :
    applyUpdate m v u = (m, some .dtype) := by
  apply update_rejected_unchanged
  have hmap : mapE (colUpdate m.table f.rows false) f.cols = .error .dtype := by
    apply mapE_error_of_mem
    · intro c _ e' he'
      unfold colUpdate at he'
      split at he'
      · rename_i hnone
        obtain ⟨_, hex, _⟩ := precheck_ok hp
        obtain ⟨k, hk⟩ := hex c ‹_›
        rw [hnone] at hk; cases hk
      · unfold updateColumn at he'
        split at he'
        · cases he'
        · simp at he'; exact he'.symm
    · obtain ⟨c, hcm, k, hk, hd⟩ := h
      refine ⟨c, hcm, .dtype, ?_⟩
      simp [colUpdate, hk, updateColumn, hd]
  have he : f.rows.isEmpty = false := by cases hr : f.rows <;> simp_all
  simp [update, hc, hn.1, hn.2, hp, he, writeAll, hmap]

/-! ### The order in which the update's columns are visited does not matter

`update_columns = list(set(population_update).intersection(state_table))` is a Python `set`: its
iteration order changes with PYTHONHASHSEED. The model visits the columns in the order of the list it
is given; the theorem quantifies over every permutation of that list. -/

/-- two column lists that are permutations of each other produce the same per-column loop result -/
theorem writeAll_perm {t t' : Table} {rows : List Nat} {cols cols' : List UCol} {adding : Bool}
    (hp : cols.Perm cols') (hnd : (cols.map (·.name)).Nodup)
    (h : writeAll t ⟨rows, cols⟩ adding = .ok t') : writeAll t ⟨rows, cols'⟩ adding = .ok t' := by
  have hnd' : (cols'.map (·.name)).Nodup := (hp.map _).nodup_iff.mp hnd
  obtain ⟨news, hnews, hcols, hrows⟩ := writeAll_ok h
  obtain ⟨news', hnews'⟩ : ∃ out, mapE (colUpdate t rows adding) cols' = .ok out :=
    mapE_ok_of_forall (fun u hu => mapE_ok_mem hnews u (hp.mem_iff.mpr hu))
  have hw' : writeAll t ⟨rows, cols'⟩ adding = .ok (news'.foldl assignCol t) := by
    unfold writeAll; simp only [hnews']
  rw [hw']
  congr 1
  apply table_ext
  · rw [(foldl_assign news' t).2, hrows]
  · rw [(foldl_assign news' t).1, hcols]
    apply List.map_congr_left
    intro k _
    by_cases hex : ∃ u ∈ cols, u.name = k.name
    · obtain ⟨u, hu, hname⟩ := hex
      obtain ⟨n, hcu, hfold⟩ := loop_hit hnews hnd k u hu hname
      obtain ⟨n', hcu', hfold'⟩ := loop_hit hnews' hnd' k u (hp.mem_iff.mp hu) hname
      rw [hfold, hfold']
      rw [hcu] at hcu'; cases hcu'; rfl
    · rw [loop_other hnews k (fun u hu e => hex ⟨u, hu, e⟩),
        loop_other hnews' k (fun u hu e => hex ⟨u, hp.mem_iff.mpr hu, e⟩)]

theorem update_perm_aux {m m' : Mgr} {v : View} {rows : List Nat} {cols cols' : List UCol}
    (hp : cols.Perm cols') (hnd : (cols.map (·.name)).Nodup) (hi : m.initial = false)
    (h : update m v (.frame rows cols) = .ok m') : update m v (.frame rows cols') = .ok m' := by
  obtain ⟨f, hc, hpre, hcase⟩ := update_ok_normal hi h
  obtain ⟨rfl, hsub, hne⟩ := checkFrame_ok (f := ⟨rows, cols⟩) hc
  obtain ⟨p1, p2, p3⟩ := precheck_ok hpre
  have hc' : coerce (.frame rows cols') (viewColumns m.table v) = .ok ⟨rows, cols'⟩ :=
    checkFrame_ok_of (f := ⟨rows, cols'⟩) (fun c hc => hsub c (hp.mem_iff.mpr hc))
      (fun e => hne (by have e' : cols' = [] := e; subst e'; exact hp.eq_nil))
  have hpre' : precheck m.table false m.adding ⟨rows, cols'⟩ = .ok () :=
    precheck_ok_of (f := ⟨rows, cols'⟩) p1 (fun c hc => p2 c (hp.mem_iff.mpr hc))
      (fun ha c hc => p3 ha c (hp.mem_iff.mpr hc))
  rw [update_of_parts hi hc' hpre']
  rcases hcase with ⟨he, rfl⟩ | ⟨he, t', hw, rfl⟩
  · simp only [] at he ⊢
    rw [he]; rfl
  · have he' : (⟨rows, cols'⟩ : Frame).rows.isEmpty = false := he
    rw [he', writeAll_perm hp hnd hw]
    rfl

/-- **Column order is irrelevant** (the hash-seed channel): permuting the columns of the update never
changes whether it is accepted nor the state it produces. -/
theorem update_perm {m : Mgr} {v : View} {rows : List Nat} {cols cols' : List UCol}
    (hp : cols.Perm cols') (hnd : (cols.map (·.name)).Nodup) (hi : m.initial = false) (m' : Mgr) :
    update m v (.frame rows cols) = .ok m' ↔ update m v (.frame rows cols') = .ok m' :=
  ⟨update_perm_aux hp hnd hi, update_perm_aux hp.symm ((hp.map _).nodup_iff.mp hnd) hi⟩

/-- … and a permuted update is rejected iff the original is (with several offending columns the
*reason* reported may differ, the fact and the unchanged state do not) -/
theorem update_perm_rejected {m : Mgr} {v : View} {rows : List Nat} {cols cols' : List UCol}
    (hp : cols.Perm cols') (hnd : (cols.map (·.name)).Nodup) (hi : m.initial = false) :
    (∃ e, update m v (.frame rows cols) = .error e) ↔ (∃ e, update m v (.frame rows cols') = .error e) := by
  have key : ∀ {a b : List UCol}, a.Perm b → (a.map (·.name)).Nodup →
      (∃ e, update m v (.frame rows a) = .error e) → (∃ e, update m v (.frame rows b) = .error e) := by
    intro a b hab hnda ⟨e, he⟩
    cases hb : update m v (.frame rows b) with
    | error e' => exact ⟨e', rfl⟩
    | ok m' =>
      have := update_perm_aux hab.symm ((hab.map _).nodup_iff.mp hnda) hi hb
      rw [he] at this; cases this
  exact ⟨key hp hnd, key hp.symm ((hp.map _).nodup_iff.mp hnd)⟩

/-! ### The order of the update's rows does not matter -/

/-- two updates "say the same thing": same simulants, same columns (name, dtype, in the same order),
same value for every addressed cell -/
structure SameContent (f1 f2 : Frame) : Prop where
  rows12 : ∀ r ∈ f1.rows, r ∈ f2.rows
  rows21 : ∀ r ∈ f2.rows, r ∈ f1.rows
  cols : All₂ (fun a b : UCol => a.name = b.name ∧ a.dtype = b.dtype) f1.cols f2.cols
  vals : ∀ r ∈ f1.rows, ∀ c ∈ f1.names, f1.value? r c = f2.value? r c

theorem any_congr_mem {α : Type} {l1 l2 : List α} (p : α → Bool) (h : ∀ a, a ∈ l1 ↔ a ∈ l2) :
    l1.any p = l2.any p := by
  rw [Bool.eq_iff_iff]
  simp only [List.any_eq_true]
  constructor
  · rintro ⟨a, ha, hp⟩; exact ⟨a, (h a).mp ha, hp⟩
  · rintro ⟨a, ha, hp⟩; exact ⟨a, (h a).mpr ha, hp⟩

theorem forall₂_names {l1 l2 : List UCol}
    (h : All₂ (fun a b : UCol => a.name = b.name ∧ a.dtype = b.dtype) l1 l2) :
    l1.map (·.name) = l2.map (·.name) := by
  induction h with
  | nil => rfl
  | cons hab _ ih => simp [hab.1, ih]

theorem mapE_forall₂ {g1 g2 : UCol → Except Err Col} {l1 l2 : List UCol} {R : UCol → UCol → Prop}
    (h : All₂ R l1 l2) (hg : ∀ a b, a ∈ l1 → b ∈ l2 → R a b → g1 a = g2 b) :
    mapE g1 l1 = mapE g2 l2 := by
  induction h with
  | nil => rfl
  | @cons a b as bs hab _ ih =>
    unfold mapE
    rw [hg a b List.mem_cons_self List.mem_cons_self hab,
      ih (fun x y hx hy => hg x y (List.mem_cons_of_mem _ hx) (List.mem_cons_of_mem _ hy))]

/-- **Row order is irrelevant**: two updates that address the same simulants with the same values, in
whatever order their rows are listed, are accepted or rejected alike (with the same reason) and
produce the same state. -/
theorem update_row_order_irrelevant {m : Mgr} {v : View} {f1 f2 : Frame}
    (hwf : m.table.WF) (hn : Mgr.Normal m) (h1 : f1.WF) (h2 : f2.WF) (hs : SameContent f1 f2) :
    update m v (.frame f1.rows f1.cols) = update m v (.frame f2.rows f2.cols) := by
  have hnames : f1.cols.map (·.name) = f2.cols.map (·.name) := forall₂_names hs.cols
  have hrows : ∀ r, r ∈ f1.rows ↔ r ∈ f2.rows := fun r => ⟨hs.rows12 r, hs.rows21 r⟩
  -- the structural checks only look at names and at the set of rows
  have hA : ∀ p : String → Bool, (f1.cols.any fun c => p c.name) = (f2.cols.any fun c => p c.name) := by
    intro p
    have e1 : (f1.cols.any fun c => p c.name) = (f1.cols.map (·.name)).any p := by rw [List.any_map]; rfl
    have e2 : (f2.cols.any fun c => p c.name) = (f2.cols.map (·.name)).any p := by rw [List.any_map]; rfl
    rw [e1, e2, hnames]
  have hB : f1.cols.isEmpty = f2.cols.isEmpty := by
    have := congrArg List.length hnames
    simp only [List.length_map] at this
    cases hc1 : f1.cols <;> cases hc2 : f2.cols <;> simp_all
  have hcoerce : ∀ f : Frame, coerce (.frame f.rows f.cols) (viewColumns m.table v) =
      checkFrame (viewColumns m.table v) f := fun f => rfl
  have hck : (∃ e, checkFrame (viewColumns m.table v) f1 = .error e ∧ checkFrame (viewColumns m.table v) f2 = .error e) ∨
      (checkFrame (viewColumns m.table v) f1 = .ok f1 ∧ checkFrame (viewColumns m.table v) f2 = .ok f2) := by
    unfold checkFrame
    rw [hA (fun n => !(viewColumns m.table v).contains n), hB]
    cases (f2.cols.any fun c => !(viewColumns m.table v).contains c.name) with
    | true => left; exact ⟨.foreign, rfl, rfl⟩
    | false =>
      cases f2.cols.isEmpty with
      | true => left; exact ⟨.nocols, rfl, rfl⟩
      | false => right; exact ⟨rfl, rfl⟩
  rcases hck with ⟨e, e1, e2⟩ | ⟨e1, e2⟩
  · rw [update_coerce_error ((hcoerce f1).trans e1), update_coerce_error ((hcoerce f2).trans e2)]
  · have c1 := (hcoerce f1).trans e1
    have c2 := (hcoerce f2).trans e2
    have hpre : precheck m.table false false f1 = precheck m.table false false f2 := by
      unfold precheck
      rw [any_congr_mem _ hrows, hA (fun n => (m.table.col? n).isNone)]
      simp
    cases hp : precheck m.table false false f2 with
    | error e =>
      rw [update_precheck_error c1 (by rw [hn.1, hn.2, hpre, hp]),
        update_precheck_error c2 (by rw [hn.1, hn.2, hp])]
    | ok _ =>
      have hp1 : precheck m.table false m.adding f1 = .ok () := by rw [hn.2, hpre, hp]
      have hp2 : precheck m.table false m.adding f2 = .ok () := by rw [hn.2, hp]
      rw [update_of_parts hn.1 c1 hp1, update_of_parts hn.1 c2 hp2]
      have hE : f1.rows.isEmpty = f2.rows.isEmpty := by
        cases hr1 : f1.rows with
        | nil =>
          cases hr2 : f2.rows with
          | nil => rfl
          | cons b bs => have := (hrows b).mpr (by simp [hr2]); simp [hr1] at this
        | cons a as =>
          cases hr2 : f2.rows with
          | nil => have := (hrows a).mp (by simp [hr1]); simp [hr2] at this
          | cons b bs => rfl
      rw [hE, hn.2]
      obtain ⟨p2, _, _⟩ := precheck_ok hp
      have p1 : ∀ r ∈ f1.rows, r ∈ m.table.rows := fun r hr => p2 r ((hrows r).mp hr)
      have hw : writeAll m.table f1 false = writeAll m.table f2 false := by
        unfold writeAll
        have : mapE (colUpdate m.table f1.rows false) f1.cols = mapE (colUpdate m.table f2.rows false) f2.cols := by
          apply mapE_forall₂ hs.cols
          intro a b ha hb hab
          unfold colUpdate
          rw [hab.1]
          cases hk : m.table.col? b.name with
          | none => rfl
          | some k =>
            simp only
            unfold updateColumn
            rw [hab.2]
            by_cases hd : k.dtype = b.dtype
            · simp only [hd, if_true]
              congr 2
              apply writeCells_congr hwf.rowsNodup (hwf.lens k (col?_some hk).1) h1.rowsNodup h2.rowsNodup p1 p2
                (h1.lens a ha) (h2.lens b hb) hrows
              intro r hr
              rw [← value?_of_mem h1.namesNodup ha, ← value?_of_mem h2.namesNodup hb, hab.1]
              exact hs.vals r hr b.name (hab.1 ▸ List.mem_map_of_mem (f := (·.name)) ha)
            · simp [hd]
        rw [this]
      rw [hw]

/-! ### Witness of the finding, and non-vacuity -/

/-- two simulants aged 1.5 and 2.5 … -/
def wTable : Table := ⟨[0, 1], [⟨"age", .flt, [.flt 3 1, .flt 5 1]⟩]⟩
/-- … a birth is in progress (one new row, `adding_simulants` set) … -/
def wBirth : Mgr := (createBegin { pop := some wTable } 1).1
/-- … and the initializer writes the newborn's age as the int 0 -/
def wUpd : Upd := .series (some "age") .int [2] [.int 0]

/-- FINDING `birth-update-dtype-cast`: the update is accepted although it supplies another dtype, the
column becomes `int` and the *existing* simulants' ages are truncated (1.5 → 1, 2.5 → 2): the frame
rule and "values of a different dtype are rejected" both fail while simulants are being added. -/
theorem adding_dtype_cast_witness :
    update wBirth (mkView ["age"] .tt) wUpd
      = .ok { pop := some ⟨[0, 1, 2], [⟨"age", .int, [.int 1, .int 2, .int 0]⟩]⟩, initial := false, adding := true } ∧
    wBirth.table.cell? 0 "age" = some (.flt 3 1) := by
  decide

def exTable : Table :=
  ⟨[0, 1, 2], [⟨"tracked", .bool, [.bool true, .bool true, .bool false]⟩, ⟨"a", .int, [.int 1, .int 2, .int 3]⟩,
               ⟨"b", .flt, [.flt 1 1, .null, .flt 7 2]⟩, ⟨"s", .str, [.str "x", .str "y", .null]⟩]⟩
def exM : Mgr := { pop := some exTable }
def exView : View := mkView ["b", "a"] .tt
/-- rows out of order, columns in another order than the table's -/
def exFrame : Frame := ⟨[2, 0], [⟨"b", .flt, [.flt 9 0, .null]⟩, ⟨"a", .int, [.int 30, .int 10]⟩]⟩

example : exM.table.WF := ⟨by decide, by decide, by decide⟩
example : exFrame.WF := ⟨by decide, by decide, by decide⟩
example : Mgr.Normal exM := ⟨rfl, rfl⟩
example : coerce (.frame exFrame.rows exFrame.cols) (viewColumns exM.table exView) = .ok exFrame := by decide
def exAfter : Table :=
  ⟨[0, 1, 2], [⟨"tracked", .bool, [.bool true, .bool true, .bool false]⟩, ⟨"a", .int, [.int 10, .int 2, .int 30]⟩,
               ⟨"b", .flt, [.null, .null, .flt 9 0]⟩, ⟨"s", .str, [.str "x", .str "y", .null]⟩]⟩
/-- the hypotheses of `update_frame` / `update_shape` are inhabited, and the result is what they say -/
example : update exM exView (.frame exFrame.rows exFrame.cols) = .ok { pop := some exAfter } := by decide
/-- a two-column update whose *second* column has the wrong dtype: rejected, nothing written -/
example : applyUpdate exM exView (.frame [1] [⟨"a", .int, [.int 5]⟩, ⟨"b", .int, [.int 5]⟩]) = (exM, some .dtype) := by
  decide
example : applyUpdate exM exView (.frame [1, 3] [⟨"a", .int, [.int 5, .int 6]⟩]) = (exM, some .unknownRow) := by decide
example : applyUpdate exM exView (.frame [1] [⟨"a", .int, [.int 5]⟩, ⟨"s", .str, [.str "q"]⟩]) = (exM, some .foreign) := by
  decide
example : applyUpdate exM (mkView ["a", "zz"] .tt) (.frame [1] [⟨"a", .int, [.int 5]⟩, ⟨"zz", .int, [.int 5]⟩])
    = (exM, some .newColumn) := by decide
example : SameContent exFrame ⟨[0, 2], [⟨"b", .flt, [.null, .flt 9 0]⟩, ⟨"a", .int, [.int 10, .int 30]⟩]⟩ :=
  ⟨by decide, by decide, .cons ⟨rfl, rfl⟩ (.cons ⟨rfl, rfl⟩ .nil), by decide⟩
/-- lessons 14 / 15: an update whose index is the range OBJECT `RangeIndex(2, -1, -1)` (`pop.index[::-1]`: labels 2, 1, 0,
negative stop) and whose values are null for everybody: every addressed cell becomes null, `a` is untouched -/
example : (Req.range 2 (-1) (-1)).resolve = .ok [2, 1, 0] := by decide
example : (update exM exView (.series (some "b") .flt [2, 1, 0] [.null, .null, .null])).map (·.table.col? "b")
    = .ok (some ⟨"b", .flt, [.null, .null, .null]⟩) := by decide
/-- nothing but NaN offered to an int column is a float update: rejected, nothing written -/
example : applyUpdate exM exView (.frame [2, 1, 0] [⟨"a", .flt, [.null, .null, .null]⟩]) = (exM, some .dtype) := by decide

end Viv.Props.C11
