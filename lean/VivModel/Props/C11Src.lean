import VivModel.Model.Table
import VivModel.Gen.Src
import VivModel.Lemmas.PyAst
import VivModel.Lemmas.PyState
/-!
# C11 — source tie: `PopulationView.update` evaluates to the model's `update` / `applyUpdate`

`Gen.Src.viewUpdate` is the syntax tree of `PopulationView.update` in /repo's working tree (regenerated on every run).
`update_run`: for every view, manager state and update object (whose coerced frame has distinct column names), running
the source leaves exactly the manager state of `applyUpdate` and raises exactly when the model reports an error. What
the evaluation pins is the ORDER of the source: the state table is read once (a copy), the update is coerced and every
precondition checked before anything else; at initial creation only the new columns are added; otherwise EVERY column
update is computed first (the dict comprehension over `_update_column_and_ensure_dtype`: one dtype refusal there and
nothing has been written) and only then assigned column by column - the all-or-nothing clause of the property (F5 was
exactly a loop that checked and wrote in the same pass).

Modelled rather than verified here: `_format_update_and_check_preconditions` (= `coerce` then `precheck`) and
`_update_column_and_ensure_dtype` (= `updateColumn`) as primitives - their tie to the code is the C11 correspondence
check; `set(frame)` / `difference` / `intersection` with frame order as the canonical order (the real order depends on
PYTHONHASHSEED; with distinct column names the result does not).
-/
namespace Viv.Props.C11Src
open Viv.Py Viv.Table

inductive UFn where
  | getPop | fmt | updCol | difference (ns : List String) | intersection (ns : List String)
  | items (ps : List (String × Col))

/-- the Python objects `PopulationView.update` touches -/
inductive UV where
  | none | bool (b : Bool) | int (i : Int) | str (s : String)
  | self | mgr
  /-- `self._manager.population`: the state table itself (assignments to it are writes) -/
  | popRef
  | cls (n : String)
  /-- what the caller handed to `update` -/
  | upd (u : Upd)
  /-- a COPY of the state table (`get_population(True)`) -/
  | table (t : Table)
  /-- the update after `_format_update_and_check_preconditions` -/
  | frame (f : Frame)
  /-- column labels (a `set` / `list` of them; frame order is the canonical order) -/
  | strs (ns : List String)
  /-- one column of the update / of the state-table copy, with its row labels -/
  | ucol (urows : List Nat) (u : UCol)
  | scol (rows : List Nat) (c : Col)
  /-- a finished column (`_update_column_and_ensure_dtype`'s result) -/
  | col (c : Col)
  | dict (ps : List (String × Col))
  | fn (f : UFn)
  | list (vs : List UV)

structure St where
  m : Mgr

abbrev M := SM St

def uGlobal (n : String) : M UV := if n == "set" || n == "list" then pure (.cls n) else throw "NameError"

def uGetAttr (v : View) (o : UV) (a : String) : M UV := match o with
  | .self => do
    let st ← get
    if a == "_manager" then pure .mgr
    else if a == "columns" then pure (.strs (viewColumns st.m.table v))
    else if a == "_format_update_and_check_preconditions" then pure (.fn .fmt)
    else if a == "_update_column_and_ensure_dtype" then pure (.fn .updCol)
    else throw "AttributeError"
  | .mgr => do
    let st ← get
    if a == "get_population" then pure (.fn .getPop)
    else if a == "creating_initial_population" then pure (.bool st.m.initial)
    else if a == "adding_simulants" then pure (.bool st.m.adding)
    else if a == "population" then pure .popRef
    else throw "AttributeError"
  | .strs ns =>
    if a == "difference" then pure (.fn (.difference ns)) else if a == "intersection" then pure (.fn (.intersection ns))
    else throw "AttributeError"
  | .frame f =>
    if a == "empty" then pure (.bool f.rows.isEmpty) else if a == "columns" then pure (.strs f.names) else throw "AttributeError"
  | .table t => if a == "columns" then pure (.strs t.names) else throw "AttributeError"
  | .dict ps => if a == "items" then pure (.fn (.items ps)) else throw "AttributeError"
  | _ => throw "AttributeError"

def uPrim (f : UFn) (args : List UV) : M UV := match f, args with
  | .getPop, [.bool true] => do let st ← get; pure (.table st.m.table)
  | .fmt, [.upd u, .table t, .strs cols, .bool initial, .bool adding] =>
    match coerce u cols with
    | .error _ => throw "PopulationError"
    | .ok f =>
      match precheck t initial adding f with
      | .error _ => throw "PopulationError"
      | .ok () => pure (.frame f)
  | .difference ns, [.table t] => pure (.strs (ns.filter fun n => (t.col? n).isNone))
  | .intersection ns, [.table t] => pure (.strs (ns.filter fun n => (t.col? n).isSome))
  | .updCol, [.ucol urows u, .scol rows c, .bool adding] =>
    match updateColumn rows c urows u adding with
    | .ok c' => pure (.col c')
    | .error _ => throw "PopulationError"
  | .items ps, [] => pure (.list (ps.map fun p => .list [.str p.1, .col p.2]))
  | _, _ => throw "TypeError"

def uCall (f : UV) (args : List UV) (kws : List (String × UV)) : M UV := match f, args, kws with
  | .cls c, [.frame fr], [] => if c == "set" then pure (.strs fr.names) else throw "TypeError"
  | .cls c, [.strs ns], [] => if c == "list" then pure (.strs ns) else throw "TypeError"
  | .fn g, args, [] => uPrim g args
  | _, _, _ => throw "TypeError"

def uSub (o k : UV) : M UV := match o, k with
  | .frame f, .strs ns => pure (.frame { f with cols := f.cols.filter fun c => ns.contains c.name })
  | .frame f, .str c => match f.cols.find? (fun k => k.name == c) with
    | some uc => pure (.ucol f.rows uc)
    | Option.none => throw "KeyError"
  | .table t, .str c => match t.col? c with
    | some k => pure (.scol t.rows k)
    | Option.none => throw "KeyError"
  | _, _ => throw "TypeError"

/-- writes to the state table -/
def uSetItem (o k v : UV) : M Unit := match o, k, v with
  | .popRef, .str key, .col c =>
    modify fun st =>
      let t := st.m.table
      { st with m := { st.m with pop := some ⟨t.rows, t.cols.map fun k => if k.name == key then c else k⟩ } }
  | .popRef, .strs _, .frame f =>
    modify fun st =>
      let t := st.m.table
      { st with m := { st.m with pop := some ⟨t.rows, t.cols ++
        f.cols.map fun c => (⟨c.name, c.dtype, locCells f.rows c.vals t.rows⟩ : Col)⟩ } }
  | _, _, _ => throw "TypeError"

def uIter : UV → M (List UV)
  | .strs ns => pure (ns.map .str)
  | .list vs => pure vs
  | _ => throw "TypeError"

/-- a list display / comprehension whose elements are all column labels is a list of labels -/
def strsOf : List UV → Option (List String)
  | [] => some []
  | .str s :: l => (strsOf l).map fun r => s :: r
  | _ => Option.none

def uNewList (vs : List UV) : M UV := match strsOf vs with
  | some ns => pure (.strs ns)
  | Option.none => pure (.list vs)

def uCmp (op : String) (l r : UV) : M UV := match op, l, r with
  | "In", .str c, .strs ns => pure (.bool (ns.contains c))
  | _, _, _ => throw "TypeError"

def pairsOf : List (UV × UV) → Option (List (String × Col))
  | [] => some []
  | (.str k, .col c) :: l => (pairsOf l).map fun r => (k, c) :: r
  | _ => Option.none

/-- `{key: column for …}`: the keys are column labels, the values finished columns -/
def uDict (ps : List (UV × UV)) : M UV :=
  match pairsOf ps with
  | some l => pure (.dict l)
  | Option.none => throw "TypeError"

def uworld (v : View) : World M UV where
  none := .none
  bool := .bool
  int := .int
  str := .str
  list := .list
  newList := uNewList
  tuple := .list
  global := uGlobal
  truthy
    | .none => pure false
    | .bool b => pure b
    | _ => pure true
  getAttr := uGetAttr v
  setAttr _ _ _ := throw "AttributeError"
  call := uCall
  cmp := uCmp
  bin _ _ _ := throw "TypeError"
  neg _ := throw "TypeError"
  sub := uSub
  slice _ _ := .none
  setItem := uSetItem
  iter := uIter
  unstar _ := throw "TypeError"
  format _ := throw "TypeError"
  concat _ := throw "TypeError"
  dict := uDict
  whileLoop _ _ _ := throw "Unsupported"
  other _ := throw "Unsupported"
  throw cls := throw cls
  rethrow := throw "reraise"
  catchAll body handler := tryCatch body (fun _ => handler)
  catchCls cls body handler := tryCatch body (fun e => if e == cls then handler else throw e)


/-! ### list facts -/

theorem runM_compPairs {σ V A : Type} (F : V → SM σ (V × V)) (g : A → V) (h : A → Except String (V × V)) (st : σ) :
    ∀ (as : List A), (∀ a ∈ as, runM (F (g a)) st = (h a, st)) → runM (compPairs F (as.map g)) st = (mapE h as, st)
  | [], _ => by simp [compPairs, mapE]
  | a :: l, hF => by
    have ha := hF a List.mem_cons_self
    have ih := runM_compPairs F g h st l (fun b hb => hF b (List.mem_cons_of_mem _ hb))
    simp only [List.map_cons, compPairs, runM_bind, ha, mapE]
    cases h a with
    | error e => rfl
    | ok p =>
      simp only [ih]
      cases mapE h l <;> rfl

theorem runM_compListIf {σ V A : Type} (F : V → SM σ (Option V)) (g : A → V) (p : A → Bool) (h : A → V) (st : σ) :
    ∀ (as : List A), (∀ a ∈ as, runM (F (g a)) st = (.ok (if p a then some (h a) else none), st)) →
      runM (compListIf F (as.map g)) st = (.ok ((as.filter p).map h), st)
  | [], _ => by simp [compListIf]
  | a :: l, hF => by
    have ha := hF a List.mem_cons_self
    have ih := runM_compListIf F g p h st l (fun b hb => hF b (List.mem_cons_of_mem _ hb))
    simp only [List.map_cons, compListIf, runM_bind, ha, ih, runM_pure, List.filter_cons]
    cases p a <;> simp

theorem strsOf_strs (ns : List String) : strsOf (ns.map UV.str) = some ns := by
  induction ns with
  | nil => rfl
  | cons a l ih => simp [strsOf, ih]

/-- one entry of the comprehension, as a pair of Python values -/
def entryOf (t : Table) (urows : List Nat) (adding : Bool) (u : UCol) : Except String (UV × UV) :=
  match colUpdate t urows adding u with
  | .ok c => .ok (.str c.name, .col c)
  | .error _ => .error "PopulationError"

theorem mapE_entryOf (t : Table) (urows : List Nat) (adding : Bool) : ∀ (l : List UCol),
    mapE (entryOf t urows adding) l = match mapE (colUpdate t urows adding) l with
      | .ok cs => .ok (cs.map fun c => (UV.str c.name, UV.col c))
      | .error _ => .error "PopulationError"
  | [] => rfl
  | u :: l => by
    simp only [mapE, entryOf]
    cases colUpdate t urows adding u with
    | error e => rfl
    | ok c =>
      simp only [mapE_entryOf t urows adding l]
      cases mapE (colUpdate t urows adding) l <;> rfl

theorem uDict_cols (cs : List Col) (st : St) :
    runM (uDict (cs.map fun c => (UV.str c.name, UV.col c))) st = (.ok (.dict (cs.map fun c => (c.name, c))), st) := by
  have : pairsOf (cs.map fun c => (UV.str c.name, UV.col c)) = some (cs.map fun c => (c.name, c)) := by
    induction cs with
    | nil => rfl
    | cons c l ih => simp only [List.map_cons, pairsOf, ih]; rfl
  simp only [uDict, this]
  rfl

theorem updateColumn_name (rows : List Nat) (c : Col) (urows : List Nat) (u : UCol) (adding : Bool) (c' : Col)
    (h : updateColumn rows c urows u adding = .ok c') : c'.name = c.name := by
  unfold updateColumn at h
  repeat' split at h
  all_goals first | (cases h; rfl) | cases h

theorem colUpdate_name (t : Table) (urows : List Nat) (adding : Bool) (u : UCol) (c : Col)
    (h : colUpdate t urows adding u = .ok c) : c.name = u.name := by
  unfold colUpdate at h
  cases hc : t.col? u.name with
  | none => simp [hc] at h
  | some k =>
    have hk : k.name = u.name := by
      have := List.find?_some hc
      simpa using this
    simp only [hc] at h
    rw [updateColumn_name _ _ _ _ _ _ h, hk]


theorem find_self (l : List UCol) (hn : (l.map (·.name)).Nodup) (u : UCol) (hu : u ∈ l) :
    l.find? (fun k => k.name == u.name) = some u := by
  induction l with
  | nil => cases hu
  | cons a l ih =>
    simp only [List.map_cons, List.nodup_cons, List.mem_map, not_exists, not_and] at hn
    rcases List.mem_cons.mp hu with rfl | h
    · simp
    · have hne : (a.name == u.name) = false := by
        simp only [beq_eq_false_iff_ne, ne_eq]
        exact fun e => hn.1 u h e.symm
      simp only [List.find?_cons, hne]
      exact ih hn.2 h

theorem precheck_cols (t : Table) (adding : Bool) (f : Frame) (x : Unit) (h : precheck t false adding f = .ok x) :
    ∀ c ∈ f.cols, (t.col? c.name).isSome = true := by
  unfold precheck at h
  split at h
  · cases h
  · simp only [Bool.false_eq_true, if_false] at h
    split at h
    · cases h
    · rename_i hany
      intro c hc
      simp only [List.any_eq_true, not_exists, not_and] at hany
      have := hany c hc
      cases hcol : t.col? c.name <;> simp_all

/-- one pass of the assignment loop: `self._manager.population[column] = column_update` -/
def assignStep (x : UV) (st : St) : Option St := match x with
  | .list [.str key, .col c] =>
    some ⟨{ st.m with pop := some ⟨st.m.table.rows, st.m.table.cols.map fun k => if k.name == key then c else k⟩ }⟩
  | _ => Option.none

def itemOf (c : Col) : UV := .list [.str c.name, .col c]

theorem assignStep_item (c : Col) (m : Mgr) :
    assignStep (itemOf c) ⟨m⟩ = some ⟨{ m with pop := some (assignCol m.table c) }⟩ := rfl

theorem fold_assign_some : ∀ (cs : List Col) (t : Table) (m : Mgr), m.pop = some t →
    (cs.map itemOf).foldlM (fun st x => assignStep x st) (⟨m⟩ : St) = some ⟨{ m with pop := some (cs.foldl assignCol t) }⟩
  | [], t, m, h => by
    simp only [List.map_nil, List.foldlM_nil, List.foldl_nil, ← h]
    rfl
  | c :: l, t, m, h => by
    have ht : m.table = t := by simp [Mgr.table, h]
    rw [List.map_cons, List.foldlM_cons, assignStep_item, ht]
    exact fold_assign_some l (assignCol t c) { m with pop := some (assignCol t c) } rfl

theorem fold_assign (c : Col) (l : List Col) (m : Mgr) :
    ((c :: l).map itemOf).foldlM (fun st x => assignStep x st) (⟨m⟩ : St)
      = some ⟨{ m with pop := some ((c :: l).foldl assignCol m.table) }⟩ := by
  rw [List.map_cons, List.foldlM_cons, assignStep_item]
  exact fold_assign_some l (assignCol m.table c) { m with pop := some (assignCol m.table c) } rfl

theorem mapE_length {α β ε : Type} (g : α → Except ε β) : ∀ (l : List α) (bs : List β), mapE g l = .ok bs → bs.length = l.length
  | [], bs, h => by simp [mapE] at h; subst h; rfl
  | a :: l, bs, h => by
    simp only [mapE] at h
    cases ha : g a with
    | error e => simp [ha] at h
    | ok b =>
      cases hl : mapE g l with
      | error e => simp [ha, hl] at h
      | ok bs' =>
        simp [ha, hl] at h
        subst h
        simp [mapE_length g l bs' hl]

theorem coerce_cols_ne (u : Upd) (cols : List String) (f : Frame) (h : coerce u cols = .ok f) : f.cols ≠ [] := by
  have hc : ∀ g : Frame, checkFrame cols g = .ok f → f.cols ≠ [] := by
    intro g hg
    unfold checkFrame at hg
    split at hg
    · cases hg
    · split at hg
      · cases hg
      · rename_i hne
        cases hg
        simpa using hne
  unfold coerce at h
  split at h
  · cases h
  · split at h
    · exact hc _ h
    · cases h
  · exact hc _ h
  · exact hc _ h

theorem update_run (v : View) (m : Mgr) (u : Upd)
    (hwf : ∀ f, coerce u (viewColumns m.table v) = .ok f → f.names.Nodup) :
    ∃ r, runM (Gen.Src.viewUpdate.run (uworld v) [("self", .self), ("population_update", .upd u)]) ⟨m⟩
        = (r, ⟨(applyUpdate m v u).1⟩) ∧ (r.toBool = false ↔ (applyUpdate m v u).2.isSome) := by
  rw [runM_func]
  simp only [Gen.Src.viewUpdate]
  pystep [uworld, uGetAttr, uCall, uPrim]
  cases hco : coerce u (viewColumns m.table v) with
  | error e =>
    pystep [uworld, uGetAttr, uCall, uPrim, hco]
    have ha : applyUpdate m v u = (m, some e) := by simp [applyUpdate, update, hco]
    rw [ha]
    exact ⟨_, rfl, by simp [Except.toBool]⟩
  | ok f =>
    cases hpre : precheck m.table m.initial m.adding f with
    | error e =>
      pystep [uworld, uGetAttr, uCall, uPrim, hco, hpre]
      have ha : applyUpdate m v u = (m, some e) := by simp [applyUpdate, update, hco, hpre]
      rw [ha]
      exact ⟨_, rfl, by simp [Except.toBool]⟩
    | ok _ =>
      pystep [uworld, uGetAttr, uCall, uPrim, hco, hpre]
      cases hi : m.initial with
      | true =>
        rw [runM_block_cons, evalStmt]
        simp only [runM_bind]
        conv in (runM (evalExpr _ _ _) _) => simp [evalExpr, uworld, uGetAttr, hi]
        dsimp only
        conv in (runM ((uworld v).truthy _) _) => simp [uworld]
        dsimp only
        simp only [if_true]
        pystep [uworld, uGlobal, uGetAttr, uCall, uPrim]
        pystep [uworld, uGetAttr, uSub, uSetItem]
        rw [runM_block_nil]
        dsimp only
        rw [runM_block_nil]
        have hflt : List.filter (fun c => decide (c.name ∈ f.names) && decide (m.table.col? c.name = none)) f.cols
            = List.filter (fun c => (m.table.col? c.name).isNone) f.cols := by
          apply List.filter_congr
          intro c hc
          have : c.name ∈ f.names := List.mem_map.mpr ⟨c, hc, rfl⟩
          cases h : m.table.col? c.name <;> simp [this]
        have ha : applyUpdate m v u = ({ m with pop := some (addColumns m.table f) }, Option.none) := by
          have hpre' := hpre
          rw [hi] at hpre'
          simp [applyUpdate, update, hco, hpre', hi]
        rw [ha, hflt]
        exact ⟨_, rfl, by simp [Except.toBool, uworld]⟩
      | false =>
        rw [runM_block_cons, evalStmt]
        simp only [runM_bind]
        conv in (runM (evalExpr _ _ _) _) => simp [evalExpr, uworld, uGetAttr, hi]
        dsimp only
        conv in (runM ((uworld v).truthy _) _) => simp [uworld]
        dsimp only
        simp only [Bool.false_eq_true, if_false]
        cases he : f.rows.isEmpty with
        | true =>
          pystep [uworld, uGetAttr, he]
          rw [runM_block_nil]
          dsimp only
          rw [runM_block_nil]
          have ha : applyUpdate m v u = (m, Option.none) := by
            have hpre' := hpre
            rw [hi] at hpre'
            simp [applyUpdate, update, hco, hpre', hi, he]
          rw [ha]
          exact ⟨_, rfl, by simp [Except.toBool]⟩
        | false =>
          rw [runM_block_cons, evalStmt]
          simp only [runM_bind]
          conv in (runM (evalExpr _ _ _) _) => simp [evalExpr, uworld, uGetAttr, he]
          dsimp only
          conv in (runM ((uworld v).truthy _) _) => simp [uworld]
          dsimp only
          simp only [if_true]
          pystep [uworld, uGlobal, uGetAttr, uCall, uPrim]
          have hpre' := hpre
          rw [hi] at hpre'
          have hcols := precheck_cols _ _ _ _ hpre'
          have hnames : List.filter (fun n => (m.table.col? n).isSome) f.names = f.names := by
            rw [List.filter_eq_self]
            intro n hn
            obtain ⟨c, hc, rfl⟩ := List.mem_map.mp hn
            exact hcols c hc
          first
            | rw [hnames]
            | (-- the same list written as a comprehension: `[c for c in update.columns if c in state_table.columns]`
               have hin : ∀ n ∈ f.names, (fun n => m.table.names.contains n) n = true := by
                 intro n hn
                 obtain ⟨c, hc, rfl⟩ := List.mem_map.mp hn
                 have hs := hcols c hc
                 cases hcol : m.table.col? c.name with
                 | none => simp [hcol] at hs
                 | some k =>
                   have hk := List.find?_some hcol
                   have hm := List.mem_of_find?_eq_some hcol
                   simp only [beq_iff_eq] at hk
                   simp only [List.contains_eq_mem, decide_eq_true_eq, Table.names, List.mem_map]
                   exact ⟨k, hm, hk⟩
               simp only [uIter, runM_pure]
               rw [runM_compListIf _ UV.str (fun n => m.table.names.contains n) UV.str _ f.names
                 (by intro a _; cases hc : m.table.names.contains a <;> simp [uCmp] <;> simpa using hc)]
               rw [List.filter_eq_self.mpr hin]
               simp only [uNewList, strsOf_strs, runM_pure])
          have hnd := hwf f hco
          rw [runM_block_cons, evalStmt]
          simp only [runM_bind]
          conv in (runM (evalExpr _ _ (Expr.dictComp _ _ _ _)) _) => rw [evalExpr]
          simp only [runM_bind]
          conv in (runM (evalExpr _ _ (Expr.name "update_columns")) _) => simp [evalExpr]
          dsimp only
          conv in (runM ((uworld v).iter _) _) => simp [uworld, uIter, Frame.names]
          dsimp only
          generalize hrun : runM (compPairs _ _) _ = r0
          have key : r0 = (mapE (entryOf m.table f.rows m.adding) f.cols, (⟨m⟩ : St)) := by
            rw [← hrun]
            refine runM_compPairs (σ := St) _ (UV.str ∘ fun x => x.name) (entryOf m.table f.rows m.adding) _ f.cols ?hF
            intro a ha
            have hfind := find_self f.cols hnd a ha
            have hsome := hcols a ha
            cases hcol : m.table.col? a.name with
            | none => simp [hcol] at hsome
            | some k =>
              cases hupd : updateColumn m.table.rows k f.rows a m.adding with
              | error e =>
                simp [evalExpr, evalArgs, evalKws, uworld, uGetAttr, uCall, uPrim, uSub, hfind, hcol, hupd, entryOf, colUpdate]
              | ok c =>
                have hname : c.name = a.name := colUpdate_name m.table f.rows m.adding a c (by simp [colUpdate, hcol, hupd])
                simp [evalExpr, evalArgs, evalKws, uworld, uGetAttr, uCall, uPrim, uSub, hfind, hcol, hupd, entryOf, colUpdate, hname]
          subst key
          rw [mapE_entryOf]
          cases hmap : mapE (colUpdate m.table f.rows m.adding) f.cols with
          | error e =>
            have ha : applyUpdate m v u = (m, some e) := by
              simp [applyUpdate, update, hco, hpre', hi, he, writeAll, hmap]
            rw [ha]
            exact ⟨_, rfl, by simp [Except.toBool]⟩
          | ok cs =>
            dsimp only
            have hd : (uworld v).dict = uDict := rfl
            rw [hd, uDict_cols]
            dsimp only
            conv in (runM (assignTo _ _ _ _) _) => simp [assignTo]
            dsimp only
            simp only [runM_pure]
            rw [runM_block_cons, evalStmt]
            simp only [runM_bind]
            conv in (runM (evalExpr _ _ _) _) => simp [evalExpr, evalArgs, evalKws, uworld, uGetAttr, uCall, uPrim]
            dsimp only
            conv in (runM ((uworld v).iter _) _) => simp [uworld, uIter]
            dsimp only
            have hitems : List.map ((fun p : String × Col => UV.list [UV.str p.1, UV.col p.2]) ∘ fun c => (c.name, c)) cs
                = cs.map itemOf := by
              apply List.map_congr_left; intro c _; rfl
            rw [hitems]
            generalize hrun2 : runM (forLoop _ _ _) _ = r1
            have hne : cs ≠ [] := by
              have hl := mapE_length _ _ _ hmap
              have hfc := coerce_cols_ne _ _ _ hco
              intro hcs
              rw [hcs] at hl
              exact hfc (List.length_eq_zero_iff.mp hl.symm)
            obtain ⟨c0, l0, rfl⟩ : ∃ c0 l0, cs = c0 :: l0 := by
              cases cs with
              | nil => exact absurd rfl hne
              | cons a l => exact ⟨a, l, rfl⟩
            have hfold := fold_assign c0 l0 m
            obtain ⟨loc', hr1, _⟩ : ∃ loc', r1 = (.ok (.next, loc'),
                (⟨{ m with pop := some ((c0 :: l0).foldl assignCol m.table) }⟩ : St)) ∧
                (fun (loc : Locals UV) => loc.get "self" = some UV.self) loc' := by
              rw [← hrun2]
              refine runM_forLoop_some (Inv := fun (loc : Locals UV) => loc.get "self" = some UV.self)
                (step := assignStep) hfold ?hbody (by simp)
              intro loc x st hx hself
              obtain ⟨c, _, rfl⟩ := List.mem_map.mp hx
              simp only [itemOf, assignStep]
              simp [assignTo, bindNames, evalBlock, evalStmt, evalExpr, uworld, uIter, uGetAttr, uSetItem, hself]
            subst hr1
            dsimp only
            rw [runM_block_nil]
            dsimp only
            rw [runM_block_nil]
            dsimp only
            rw [runM_block_nil]
            have ha : applyUpdate m v u = ({ m with pop := some ((c0 :: l0).foldl assignCol m.table) }, Option.none) := by
              simp [applyUpdate, update, hco, hpre', hi, he, writeAll, hmap]
            rw [ha]
            exact ⟨_, rfl, by simp [Except.toBool]⟩

end Viv.Props.C11Src
