import VivModel.Model.Table
namespace Viv.Props.C12
open Viv.Table

theorem placeholder_C12 : (createBegin {} 0).2 = [] := by decide

end Viv.Props.C12
