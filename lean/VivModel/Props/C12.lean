import VivModel.Model.Util
import VivModel.Model.Table
import VivModel.Lemmas.Table
import VivModel.Props.C11
/-! C12 — a view read returns exactly the requested, filtered rows and columns.

`get` is `PopulationView.get` as it exists (`.loc[index]`, view query, extra query, column check,
projection); `mkView` is `PopulationManager._get_view` (the default `tracked == True` filter) and
`subview` is `PopulationView.subview`.

* `get_rows` / `get_order`   the simulants returned are the requested ones that pass the view filter and
                              the extra filter, in the requested order (with their multiplicity);
* `get_spec`                  … and – unless the view has the `tracked` column or its own query
                              constrains `tracked` – only tracked simulants, for every shape of user query
                              (`tracked_or_example`: the input of the repaired finding F23);
* `get_columns`, `get_values` exactly the view's columns, holding the table's current cells;
* `get_after_updates`         composition with C11's frame rule;
* `subview_inherits`, `subview_rejected`, `get_missing_column_err`, `get_unknown_row_err`.

Interpretation fixed in DESIGN.md: a view query that itself refers to the column `tracked` is the
documented way to see untracked simulants and is not flagged. -/
namespace Viv.Props.C12
open Viv.Table

/-- `tracked == True` for simulant `r` -/
def isTracked (t : Table) (r : Nat) : Bool := trackedTrue.eval t r

/-- what a successful read consists of -/
theorem get_ok {m : Mgr} {v : View} {idx : List Nat} {extra : Pred} {res : Table}
    (h : get m v idx extra = .ok res) :
    (∀ r ∈ idx, r ∈ m.table.rows) ∧
    res.rows = idx.filter (fun r => v.filter.eval m.table r && extra.eval m.table r) ∧
    (∀ c ∈ viewColumns m.table v, ∃ k, m.table.col? c = some k) ∧
    res.cols = (viewColumns m.table v).filterMap (fun c => (m.table.col? c).map
      (fun k => ⟨k.name, k.dtype, locCells m.table.rows k.cells res.rows⟩)) := by
  unfold Table.get at h
  simp only at h
  split at h
  · cases h
  · rename_i h1
    split at h
    · cases h
    · split at h
      · cases h
      · rename_i h3
        cases h
        refine ⟨?_, ?_, ?_, rfl⟩
        · intro r hr
          simp only [List.any_eq_true, not_exists, not_and, Bool.not_eq_true'] at h1
          simpa using h1 r hr
        · cases idx with
          | nil => rfl
          | cons a as => rfl
        · intro c hc
          simp only [List.any_eq_true, not_exists, not_and] at h3
          have := h3 c hc
          cases hk : m.table.col? c with
          | none => simp [hk] at this
          | some k => exact ⟨k, rfl⟩

/-- **Rows.** The simulants returned are exactly the requested ones that satisfy the view's filter and
the extra filter – in the requested order, each as often as requested. -/
theorem get_rows {m : Mgr} {v : View} {idx : List Nat} {extra : Pred} {res : Table}
    (h : get m v idx extra = .ok res) :
    res.rows = idx.filter (fun r => v.filter.eval m.table r && extra.eval m.table r) :=
  (get_ok h).2.1

/-- **Order.** The returned labels are a sub-sequence of the request. -/
theorem get_order {m : Mgr} {v : View} {idx : List Nat} {extra : Pred} {res : Table}
    (h : get m v idx extra = .ok res) : res.rows.Sublist idx := by
  rw [get_rows h]; exact List.filter_sublist

/-- the filter `_get_view` builds means "user query, and tracked if required" – for every user query -/
theorem mkView_filter (cols : List String) (q : Pred) (t : Table) (r : Nat) :
    (mkView cols q).filter.eval t r = (q.eval t r && (!needTracked cols q || isTracked t r)) := by
  unfold mkView needTracked isTracked
  by_cases h1 : (!cols.isEmpty && !cols.contains "tracked") = true
  · rw [if_pos h1, h1]
    by_cases h2 : q = .tt
    · subst h2; simp [Pred.eval, Pred.mentionsTracked]
    · rw [if_neg h2]
      by_cases h3 : q.mentionsTracked = true
      · simp [h3]
      · have h3' : q.mentionsTracked = false := by simpa using h3
        simp only [h3', Bool.not_false, if_true, Bool.true_and, Bool.not_true, Bool.false_or]
        rfl
  · rw [if_neg h1]
    have : (!cols.isEmpty && !cols.contains "tracked") = false := by simpa using h1
    simp only [this, Bool.false_and, Bool.not_false, Bool.true_or, Bool.and_true]

/-- **Specification of a read** (membership): simulant `r` is returned iff it was requested, satisfies
the view's own query and the extra query, and – when the view neither has the `tracked` column nor
mentions it in its query – is tracked. -/
theorem get_spec {m : Mgr} {cols : List String} {q extra : Pred} {idx : List Nat} {res : Table}
    (h : get m (mkView cols q) idx extra = .ok res) (r : Nat) :
    r ∈ res.rows ↔
      (r ∈ idx ∧ q.eval m.table r = true ∧ extra.eval m.table r = true ∧
        (needTracked cols q = true → isTracked m.table r = true)) := by
  rw [get_rows h, List.mem_filter, mkView_filter cols q]
  simp only [Bool.and_eq_true, Bool.or_eq_true, Bool.not_eq_true']
  constructor
  · rintro ⟨hi, ⟨hq', ht⟩, he⟩
    refine ⟨hi, hq', he, fun hn => ?_⟩
    rcases ht with ht | ht
    · rw [hn] at ht; cases ht
    · exact ht
  · rintro ⟨hi, hq', he, ht⟩
    refine ⟨hi, ⟨hq', ?_⟩, he⟩
    cases hn : needTracked cols q with
    | false => left; rfl
    | true => right; exact ht hn

/-- views that have the `tracked` column, or whose query mentions it, or that span the whole table see
untracked simulants too: their filter is the user's query, whatever its shape -/
theorem mkView_filter_untracked (cols : List String) (q : Pred) (h : needTracked cols q = false) :
    (mkView cols q).filter = q := by
  unfold mkView
  unfold needTracked at h
  by_cases h1 : (!cols.isEmpty && !cols.contains "tracked") = true
  · rw [if_pos h1]
    rw [h1] at h
    have hm : q.mentionsTracked = true := by simpa using h
    have : q ≠ .tt := by intro e; subst e; simp [Pred.mentionsTracked] at hm
    rw [if_neg this]
    simp [hm]
  · rw [if_neg h1]

/-- the input of the repaired finding F23 (`tracked-filter-or-precedence`): three simulants, simulant 2
untracked; the view `get_view(["a"], "a > 2 or b < 1")` neither has nor mentions `tracked` and no longer
returns simulant 2 (before commit c38dfdde the appended text bound to the last operand of the `or`). -/
def wTable : Table :=
  ⟨[0, 1, 2], [⟨"tracked", .bool, [.bool true, .bool true, .bool false]⟩, ⟨"a", .int, [.int 1, .int 2, .int 3]⟩,
               ⟨"b", .flt, [.flt 1 1, .flt 2 0, .flt 0 0]⟩]⟩
def wQuery : Pred := .or (.atom "a" .gt (.int 2)) (.atom "b" .lt (.int 1))

theorem tracked_or_example :
    needTracked ["a"] wQuery = true ∧ isTracked wTable 2 = false ∧
    (get { pop := some wTable } (mkView ["a"] wQuery) [0, 1, 2] .tt).map (·.rows) = .ok [0] := by
  decide

/-- **Columns.** Exactly the view's columns, in the view's order. -/
theorem get_columns {m : Mgr} {v : View} {idx : List Nat} {extra : Pred} {res : Table}
    (h : get m v idx extra = .ok res) : res.names = viewColumns m.table v := by
  obtain ⟨_, _, hex, hcols⟩ := get_ok h
  unfold Table.names
  rw [hcols]
  generalize viewColumns m.table v = vc at hex
  induction vc with
  | nil => rfl
  | cons c cs ih =>
    obtain ⟨k, hk⟩ := hex c List.mem_cons_self
    simp only [List.filterMap_cons, hk, Option.map_some, List.map_cons, (col?_some hk).2]
    rw [ih (fun c' hc' => hex c' (List.mem_cons_of_mem _ hc'))]

theorem cellOf_locCells {rows : List Nat} {cells : List Val} {keep : List Nat} {r : Nat} (hr : r ∈ keep) :
    cellOf keep (locCells rows cells keep) r = some ((cellOf rows cells r).getD .null) := by
  rw [cellOf_of_mem hr]
  unfold locCells
  have hlt : keep.idxOf r < keep.length := List.idxOf_lt_length_iff.mpr hr
  rw [List.getElem?_map, List.getElem?_eq_getElem hlt, List.getElem_idxOf hlt]
  rfl

/-- **Values.** Every returned cell is the table's current cell of that simulant and column. -/
theorem get_values {m : Mgr} {v : View} {idx : List Nat} {extra : Pred} {res : Table}
    (hwf : m.table.WF) (h : get m v idx extra = .ok res) (r : Nat) (hr : r ∈ res.rows) (c : String)
    (hc : c ∈ viewColumns m.table v) : res.cell? r c = m.table.cell? r c := by
  obtain ⟨hidx, hrows, hex, hcols⟩ := get_ok h
  have hrt : r ∈ m.table.rows := hidx r (by rw [hrows] at hr; exact (List.mem_filter.mp hr).1)
  obtain ⟨k, hk⟩ := hex c hc
  have hres : res.col? c = some ⟨k.name, k.dtype, locCells m.table.rows k.cells res.rows⟩ := by
    unfold Table.col?
    rw [hcols]
    generalize viewColumns m.table v = vc at hex hc
    induction vc with
    | nil => cases hc
    | cons c' cs ih =>
      obtain ⟨k', hk'⟩ := hex c' List.mem_cons_self
      simp only [List.filterMap_cons, hk', Option.map_some, List.find?_cons]
      by_cases e : c' = c
      · subst e
        rw [hk] at hk'; cases hk'
        simp [(col?_some hk).2]
      · have : (k'.name == c) = false := by simpa [(col?_some hk').2] using e
        simp only [this]
        rcases List.mem_cons.mp hc with rfl | hc'
        · exact absurd rfl e
        · exact ih (fun x hx => hex x (List.mem_cons_of_mem _ hx)) hc'
  unfold Table.cell?
  rw [hres, hk]
  simp only
  rw [cellOf_locCells hr]
  obtain ⟨val, hval⟩ := cellOf_isSome hrt (hwf.lens k (col?_some hk).1)
  rw [hval]; rfl

/-- **Reads see the latest writes** (composition with C11 `update_frame`): after a successful update, a
read returns the supplied value for every addressed cell and the previous value for every other. -/
theorem get_after_updates {m m' : Mgr} {w v : View} {u : Upd} {f : Frame} {idx : List Nat} {extra : Pred}
    {res : Table} (hwf : m.table.WF) (hn : C11.Mgr.Normal m)
    (hc : coerce u (viewColumns m.table w) = .ok f) (hf : f.WF) (hu : update m w u = .ok m')
    (h : get m' v idx extra = .ok res) (r : Nat) (hr : r ∈ res.rows) (c : String)
    (hcv : c ∈ viewColumns m'.table v) :
    res.cell? r c = if r ∈ f.rows ∧ c ∈ f.names then f.value? r c else m.table.cell? r c := by
  rw [get_values (C11.update_preserves_wf hwf hn hc hf hu) h r hr c hcv]
  exact C11.update_frame hwf hn hc hf hu r c

/-- **Sub-views.** A sub-view has the requested columns, which are a non-empty subset of the parent's,
and filters with the parent's query (to which the default tracked filter is added when the sub-view
drops the `tracked` column). -/
theorem subview_inherits {t : Table} {v sv : View} {cols : List String} (h : subview t v cols = .ok sv) :
    sv = mkView cols v.filter ∧ sv.cols = cols ∧ cols ≠ [] ∧ (∀ c ∈ cols, c ∈ viewColumns t v) := by
  unfold subview at h
  split at h
  · cases h
  · rename_i hcond
    cases h
    simp only [Bool.or_eq_true, not_or, Bool.not_eq_true] at hcond
    refine ⟨rfl, ?_, by simpa using hcond.1, ?_⟩
    · unfold mkView; split <;> (try split) <;> (try split) <;> rfl
    · intro c hc
      have := hcond.2
      simp only [List.any_eq_false] at this
      simpa using this c hc

/-- a sub-view of a view that already filters on tracked filters exactly like its parent -/
theorem subview_same_filter {t : Table} {v sv : View} {cols : List String} (h : subview t v cols = .ok sv)
    (hm : v.filter.mentionsTracked = true) : sv.filter = v.filter := by
  obtain ⟨rfl, _, _, _⟩ := subview_inherits h
  unfold mkView
  split
  · have : v.filter ≠ .tt := by intro e; rw [e] at hm; simp [Pred.mentionsTracked] at hm
    rw [if_neg this]; simp [hm]
  · rfl

/-- no columns, or a column the parent does not have: rejected -/
theorem subview_rejected (t : Table) (v : View) (cols : List String)
    (h : cols = [] ∨ ∃ c ∈ cols, c ∉ viewColumns t v) : subview t v cols = .error .subview := by
  unfold subview
  have : (cols.isEmpty || cols.any fun c => !(viewColumns t v).contains c) = true := by
    rcases h with rfl | ⟨c, hc, hn⟩
    · rfl
    · simp only [Bool.or_eq_true, List.any_eq_true]
      right; exact ⟨c, hc, by simpa using hn⟩
  rw [if_pos this]

/-- **A column that does not exist yet is an error**, never a silent omission. -/
theorem get_missing_column_err (m : Mgr) (v : View) (idx : List Nat) (extra : Pred)
    (h : ∃ c ∈ viewColumns m.table v, c ∉ m.table.names) : ∃ e, get m v idx extra = .error e := by
  cases hg : get m v idx extra with
  | error e => exact ⟨e, rfl⟩
  | ok res =>
    obtain ⟨c, hc, hn⟩ := h
    obtain ⟨k, hk⟩ := (get_ok hg).2.2.1 c hc
    rw [col?_none_iff.mpr hn] at hk; cases hk

/-- requesting a simulant that does not exist is an error -/
theorem get_unknown_row_err (m : Mgr) (v : View) (idx : List Nat) (extra : Pred)
    (h : ∃ r ∈ idx, r ∉ m.table.rows) : get m v idx extra = .error .unknownRow := by
  obtain ⟨r, hr, hn⟩ := h
  have : (idx.any fun r => !m.table.rows.contains r) = true := by
    simp only [List.any_eq_true]; exact ⟨r, hr, by simpa using hn⟩
  unfold Table.get
  simp only [this, if_true]

/-- an empty request returns no rows and the view's columns (no query is evaluated) -/
theorem get_empty_index (m : Mgr) (v : View) (extra : Pred)
    (h : ∀ c ∈ viewColumns m.table v, c ∈ m.table.names) :
    ∃ res, get m v [] extra = .ok res ∧ res.rows = [] ∧ res.names = viewColumns m.table v := by
  have hno : ((viewColumns m.table v).any fun c => (m.table.col? c).isNone) = false := by
    simp only [List.any_eq_false]
    intro c hc
    cases hk : m.table.col? c with
    | none => exact absurd (h c hc) (col?_none_iff.mp hk)
    | some k => simp
  have hg : ∃ res, get m v [] extra = .ok res := by
    unfold Table.get
    simp [hno]
  obtain ⟨res, hres⟩ := hg
  exact ⟨res, hres, by rw [get_rows hres]; rfl, get_columns hres⟩


/-! ### Requests handed over as range OBJECTS (lesson 14)

`event.index`, `pop.index[::-1]`, `index[:k][::-1]`, `index[::2]` are `pd.RangeIndex` objects. The read is by
LABEL: the request stands for the labels of Python's `range(start, stop, step)` – in particular a descending
range that reaches simulant 0 has a NEGATIVE `stop`, which is a bound on labels, never a position. -/

/-- the labels of an ascending range object: `start + step·k` for `k = 0, 1, …` as long as they stay below `stop` -/
theorem mem_rangeLabels_pos {s e d : Int} (hd : 0 < d) (x : Int) :
    x ∈ rangeLabels s e d ↔ ∃ k : Nat, x = s + d * k ∧ x < e := by
  unfold rangeLabels
  rw [if_pos hd]
  have hD : (d.toNat : Int) = d := Int.toNat_of_nonneg (by omega)
  simp only [List.mem_map, List.mem_filter, List.mem_range, beq_iff_eq]
  constructor
  · rintro ⟨i, ⟨hi, hm⟩, rfl⟩
    refine ⟨i / d.toNat, ?_, by omega⟩
    have h1 : d.toNat * (i / d.toNat) = i := Nat.mul_div_cancel' (Nat.dvd_of_mod_eq_zero hm)
    have h2 : ((d.toNat * (i / d.toNat) : Nat) : Int) = (i : Int) := by rw [h1]
    rw [Int.natCast_mul, hD] at h2
    rw [h2]
  · rintro ⟨k, rfl, hlt⟩
    have h2 : ((d.toNat * k : Nat) : Int) = d * k := by rw [Int.natCast_mul, hD]
    refine ⟨d.toNat * k, ⟨?_, Nat.mul_mod_right _ _⟩, by rw [h2]⟩
    generalize d * (k : Int) = y at h2 hlt
    omega

/-- the labels of a descending range object: `start - |step|·k` as long as they stay above `stop` -/
theorem mem_rangeLabels_neg {s e d : Int} (hd : d < 0) (x : Int) :
    x ∈ rangeLabels s e d ↔ ∃ k : Nat, x = s + d * k ∧ e < x := by
  unfold rangeLabels
  rw [if_neg (by omega), if_pos hd]
  have hD : ((-d).toNat : Int) = -d := Int.toNat_of_nonneg (by omega)
  simp only [List.mem_map, List.mem_filter, List.mem_range, beq_iff_eq]
  constructor
  · rintro ⟨i, ⟨hi, hm⟩, rfl⟩
    refine ⟨i / (-d).toNat, ?_, by omega⟩
    have h1 : (-d).toNat * (i / (-d).toNat) = i := Nat.mul_div_cancel' (Nat.dvd_of_mod_eq_zero hm)
    have h2 : (((-d).toNat * (i / (-d).toNat) : Nat) : Int) = (i : Int) := by rw [h1]
    rw [Int.natCast_mul, hD, Int.neg_mul] at h2
    generalize d * ((i / (-d).toNat : Nat) : Int) = y at h2 ⊢
    omega
  · rintro ⟨k, rfl, hlt⟩
    have h2 : (((-d).toNat * k : Nat) : Int) = -(d * k) := by rw [Int.natCast_mul, hD, Int.neg_mul]
    refine ⟨(-d).toNat * k, ⟨?_, Nat.mul_mod_right _ _⟩, ?_⟩
    · generalize d * (k : Int) = y at h2 hlt
      omega
    · rw [h2]; omega

/-- an ascending range object lists its labels in increasing order … -/
theorem rangeLabels_pos_sorted {s e d : Int} (hd : 0 < d) : (rangeLabels s e d).Pairwise (· < ·) := by
  unfold rangeLabels
  rw [if_pos hd, List.pairwise_map]
  exact (List.pairwise_lt_range).filter _ |>.imp (by intro a b h; omega)

/-- … a descending one in decreasing order (so a sorted list is determined by `mem_rangeLabels_*`) -/
theorem rangeLabels_neg_sorted {s e d : Int} (hd : d < 0) : (rangeLabels s e d).Pairwise (· > ·) := by
  unfold rangeLabels
  rw [if_neg (by omega), if_pos hd, List.pairwise_map]
  exact (List.pairwise_lt_range).filter _ |>.imp (by intro a b h; omega)

/-- **`pop.index[::-1]`**: `RangeIndex(n-1, -1, -1)` stands for everybody, last simulant first, simulant 0 last -/
theorem rangeLabels_reversed_everybody (n : Nat) :
    rangeLabels ((n : Int) - 1) (-1) (-1) = (List.range n).reverse.map (fun (i : Nat) => (i : Int)) := by
  unfold rangeLabels
  rw [if_neg (by omega), if_pos (by omega)]
  have h1 : ((n : Int) - 1 - -1).toNat = n := by omega
  have h2 : (-(-1 : Int)).toNat = 1 := rfl
  rw [h1, h2, List.filter_eq_self.mpr (by intro a _; simp [Nat.mod_one])]
  apply List.ext_getElem
  · simp
  · intro i hi1 hi2
    simp only [List.length_map, List.length_range] at hi1
    simp only [List.getElem_map, List.getElem_range, List.getElem_reverse, List.length_range]
    omega

/-- **`index[:k][::-1]`, `index[::-d]` …: a descending range whose `start` is a multiple of `|step|` and whose
`stop` is negative asks for simulant 0** -/
theorem desc_range_reaches_zero {s e d : Int} (hd : d < 0) (he : e < 0)
    (hdiv : ∃ k : Nat, s = -d * k) : (0 : Int) ∈ rangeLabels s e d := by
  obtain ⟨k, hk⟩ := hdiv
  rw [mem_rangeLabels_neg hd]
  refine ⟨k, ?_, he⟩
  rw [hk, Int.neg_mul]; omega

theorem getReq_labels (m : Mgr) (v : View) (l : List Nat) (extra : Pred) :
    getReq m v (.labels l) extra = get m v l extra := rfl

/-- **A read through a range object is the read through its label list.** -/
theorem getReq_range {m : Mgr} {v : View} {s e d : Int} {extra : Pred} (h : ∀ x ∈ rangeLabels s e d, 0 ≤ x) :
    getReq m v (.range s e d) extra = get m v ((rangeLabels s e d).map Int.toNat) extra := by
  unfold getReq Req.resolve
  have : ((rangeLabels s e d).any fun x => decide (x < 0)) = false := by
    simp only [List.any_eq_false, decide_eq_true_eq]
    intro x hx; have := h x hx; omega
  simp only [this, Bool.false_eq_true, if_false]

/-- a range object that goes below simulant 0 asks for simulants that do not exist -/
theorem getReq_range_negative {m : Mgr} {v : View} {s e d : Int} {extra : Pred} (h : ∃ x ∈ rangeLabels s e d, x < 0) :
    getReq m v (.range s e d) extra = .error .unknownRow := by
  unfold getReq Req.resolve
  have : ((rangeLabels s e d).any fun x => decide (x < 0)) = true := by
    obtain ⟨x, hx, hn⟩ := h
    simp only [List.any_eq_true, decide_eq_true_eq]
    exact ⟨x, hx, hn⟩
  simp only [this, if_true]

/-- **Rows of a read through a range object**: exactly the labels of `range(start, stop, step)` that pass the
view's filter and the extra filter, in the order of the range (descending for a negative step) – every one of
them, simulant 0 included, whatever the sign of `stop`. -/
theorem getReq_range_rows {m : Mgr} {v : View} {s e d : Int} {extra : Pred} {res : Table}
    (h : getReq m v (.range s e d) extra = .ok res) :
    res.rows.map (fun (r : Nat) => (r : Int)) =
      (rangeLabels s e d).filter (fun x => v.filter.eval m.table x.toNat && extra.eval m.table x.toNat) := by
  have hnn : ∀ x ∈ rangeLabels s e d, 0 ≤ x := by
    intro x hx
    by_cases hneg : x < 0
    · rw [getReq_range_negative ⟨x, hx, hneg⟩] at h; cases h
    · omega
  rw [getReq_range hnn] at h
  rw [get_rows h, List.filter_map, List.map_map]
  have : ∀ l : List Int, (∀ x ∈ l, 0 ≤ x) → l.map ((fun r : Nat => (r : Int)) ∘ Int.toNat) = l := by
    intro l hl
    calc l.map _ = l.map id := List.map_congr_left (fun x hx => by simp [Int.toNat_of_nonneg (hl x hx)])
      _ = l := List.map_id _
  rw [this _ (fun x hx => hnn x (List.mem_filter.mp hx).1)]
  rfl

/-- membership form: simulant `r` is returned iff the range asks for it and it passes both filters -/
theorem getReq_range_spec {m : Mgr} {v : View} {s e d : Int} {extra : Pred} {res : Table}
    (h : getReq m v (.range s e d) extra = .ok res) (r : Nat) :
    r ∈ res.rows ↔ ((r : Int) ∈ rangeLabels s e d ∧ v.filter.eval m.table r = true ∧ extra.eval m.table r = true) := by
  have hrows := getReq_range_rows h
  have : r ∈ res.rows ↔ (r : Int) ∈ res.rows.map (fun (r : Nat) => (r : Int)) := by
    simp only [List.mem_map]
    constructor
    · intro hr; exact ⟨r, hr, rfl⟩
    · rintro ⟨a, ha, hab⟩
      have : a = r := by omega
      rw [← this]; exact ha
  rw [this, hrows, List.mem_filter]
  simp [Bool.and_eq_true]

/-- **Reversing the request reverses the answer** (`index[::-1]` of any request) -/
theorem get_reverse {m : Mgr} {v : View} {idx : List Nat} {extra : Pred} {res res' : Table}
    (h : get m v idx extra = .ok res) (h' : get m v idx.reverse extra = .ok res') :
    res'.rows = res.rows.reverse := by
  rw [get_rows h, get_rows h', List.filter_reverse]

/-- **`view.get(pop.index[::-1])`**: on a table of `n` simulants the request `RangeIndex(n-1, -1, -1)` is the read of
everybody in reverse order -/
theorem getReq_reversed_everybody (m : Mgr) (v : View) (n : Nat) (extra : Pred) :
    getReq m v (.range ((n : Int) - 1) (-1) (-1)) extra = get m v (List.range n).reverse extra := by
  have hnn : ∀ x ∈ rangeLabels ((n : Int) - 1) (-1) (-1), 0 ≤ x := by
    rw [rangeLabels_reversed_everybody]
    intro x hx
    obtain ⟨i, _, rfl⟩ := List.mem_map.mp hx
    omega
  rw [getReq_range hnn, rangeLabels_reversed_everybody, List.map_map]
  have : (List.range n).reverse.map (Int.toNat ∘ fun i : Nat => (i : Int)) = (List.range n).reverse := by
    calc _ = (List.range n).reverse.map id := List.map_congr_left (fun x _ => by simp)
      _ = _ := List.map_id _
  rw [this]

/-! ### Non-vacuity -/

def exM : Mgr := { pop := some wTable }
/-- a view over a column subset with a query, read with a permuted partial index and an extra query -/
example : get exM (mkView ["b", "a"] (.atom "a" .ge (.int 1))) [2, 0, 1] (.atom "b" .le (.flt 3 1))
    = .ok ⟨[0], [⟨"b", .flt, [.flt 1 1]⟩, ⟨"a", .int, [.int 1]⟩]⟩ := by decide
example : exM.table.WF := ⟨by decide, by decide, by decide⟩
/-- a view that has the tracked column sees the untracked simulant -/
example : (get exM (mkView ["a", "tracked"] .tt) [2, 1] .tt).map (·.rows) = .ok [2, 1] := by decide
/-- a column that does not exist yet -/
example : get exM (mkView ["a", "zz"] .tt) [0] .tt = .error .noColumn := by decide
example : subview exM.table (mkView ["a", "tracked"] .tt) ["a"] = .ok ⟨["a"], trackedTrue⟩ := by decide
/-- range objects: `index[::-1]`, `RangeIndex(18, -6, -6)` (18, 12, 6, 0), a range ending above 0 with stop -1, nobody -/
example : rangeLabels 2 (-1) (-1) = [2, 1, 0] := by decide
example : rangeLabels 18 (-6) (-6) = [18, 12, 6, 0] := by decide
example : rangeLabels 5 (-1) (-2) = [5, 3, 1] := by decide
example : rangeLabels 1 7 3 = [1, 4] := by decide
example : rangeLabels 2 5 (-1) = [] := by decide
/-- the whole table in reverse through a view that shows untracked simulants, and through one that does not -/
example : (getReq exM (mkView ["a", "tracked"] .tt) (.range 2 (-1) (-1)) .tt).map (·.rows) = .ok [2, 1, 0] := by decide
example : (getReq exM (mkView ["a"] .tt) (.range 2 (-1) (-1)) .tt).map (·.rows) = .ok [1, 0] := by decide
example : getReq exM (mkView ["a"] .tt) (.range 1 (-3) (-1)) .tt = .error .unknownRow := by decide

end Viv.Props.C12
