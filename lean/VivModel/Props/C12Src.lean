import VivModel.Model.Table
import VivModel.Gen.Src
import VivModel.Lemmas.PyAst
import VivModel.Lemmas.PyState
/-! C12, source tie: the Python source of `PopulationView.get` (`Gen/Src.lean`, regenerated from the tree under test on
every run) evaluated by `Py.evalBlock` IS the model's `Table.get` (`Model/Table.lean`), for every table, view, request and
extra query. `DataFrame.loc[index]` (rows by LABEL in REQUEST order; unknown label = `KeyError`), `DataFrame.query`
(type-check against the table, then a row filter), `set(a) - set(b)` and `.loc[:, columns]` are the model's primitives;
the request is a list of labels here - that an index OBJECT (a `RangeIndex` with a step) denotes its label list is
`C12.getReq_range`. Evaluated in a stateless monad: a read cannot change anything. -/
namespace Viv.Props.C12Src
open Viv.Py Viv.Table

inductive GFn where
  | getPopulation | queryOf (rows : List Nat) | setFn

/-- the Python objects `PopulationView.get` touches -/
inductive GV where
  | none | bool (b : Bool) | int (i : Int) | str (s : String)
  | self | manager | allRows
  /-- the requested `pd.Index` -/
  | idx (l : List Nat)
  /-- a query string, by the predicate it denotes (`""` is `Pred.tt`) -/
  | queryV (p : Pred)
  /-- rows of the state table, in this order, all columns (a DataFrame) -/
  | frame (rows : List Nat)
  | locOf (rows : List Nat)
  | columns (cs : List String)
  | colset (cs : List String)
  | result (t : Table)
  | fn (f : GFn)
  | list (vs : List GV)

abbrev M := Except String

def gGetAttr (t : Table) (v : View) : GV → String → M GV
  | .self, a =>
    if a == "_manager" then pure .manager
    else if a == "query" then pure (.queryV v.filter)
    else if a == "columns" then pure (.columns (viewColumns t v))
    else throw "AttributeError"
  | .manager, a => if a == "get_population" then pure (.fn .getPopulation) else throw "AttributeError"
  | .idx l, a => if a == "empty" then pure (.bool l.isEmpty) else throw "AttributeError"
  | .frame rows, a =>
    if a == "loc" then pure (.locOf rows)
    else if a == "query" then pure (.fn (.queryOf rows))
    else if a == "columns" then pure (.columns t.names)
    else throw "AttributeError"
  | _, _ => throw "AttributeError"

def gPrim (t : Table) : GFn → List GV → List (String × GV) → M GV
  | .getPopulation, [.bool true], [] => pure (.frame t.rows)
  | .queryOf rows, [.queryV p], [] => if p.typed t then pure (.frame (rows.filter fun r => p.eval t r)) else throw "QueryError"
  | .setFn, [.columns cs], [] => pure (.colset cs)
  | _, _, _ => throw "TypeError"

def gworld (t : Table) (v : View) : World M GV where
  none := .none
  bool := .bool
  int := .int
  str := .str
  list := .list
  newList vs := pure (.list vs)
  tuple := .list
  global n := if n == "set" then pure (.fn .setFn) else throw "NameError"
  truthy
    | .none => pure false
    | .bool b => pure b
    | .queryV p => pure (p != Pred.tt)
    | .colset cs => pure (!cs.isEmpty)
    | _ => pure true
  getAttr := gGetAttr t v
  setAttr _ _ _ := throw "AttributeError"
  call f args kws := match f with
    | .fn g => gPrim t g args kws
    | _ => throw "TypeError"
  cmp _ _ _ := throw "TypeError"
  bin op l r := match l, r with
    | .colset a, .colset b => if op == "Sub" then pure (.colset (a.filter fun c => !b.contains c)) else throw "TypeError"
    | _, _ => throw "TypeError"
  neg _ := throw "TypeError"
  sub o k := match o, k with
    | .locOf rows, .idx l => if l.any (fun r => !rows.contains r) then throw "KeyError" else pure (.frame l)
    | .locOf rows, .list [.allRows, .columns cs] =>
      pure (.result ⟨rows, cs.filterMap fun c => (t.col? c).map fun k => ⟨k.name, k.dtype, locCells t.rows k.cells rows⟩⟩)
    | .frame rows, .columns cs =>          -- `frame[columns]`: the same projection as `.loc[:, columns]`
      pure (.result ⟨rows, cs.filterMap fun c => (t.col? c).map fun k => ⟨k.name, k.dtype, locCells t.rows k.cells rows⟩⟩)
    | _, _ => throw "TypeError"
  slice lo hi := match lo, hi with
    | .none, .none => .allRows
    | _, _ => .none
  setItem _ _ _ := throw "TypeError"
  iter _ := throw "TypeError"
  unstar _ := throw "TypeError"
  format _ := throw "TypeError"
  concat _ := throw "TypeError"
  dict _ := throw "TypeError"
  whileLoop _ _ _ := throw "Unsupported"
  other _ := throw "Unsupported"
  throw cls := throw cls
  rethrow := throw "reraise"
  catchAll body handler := tryCatch body (fun _ => handler)
  catchCls cls body handler := tryCatch body (fun e => if e == cls then handler else throw e)

theorem find_isNone (c : String) : ∀ (cols : List Col),
    (cols.find? (fun k => k.name == c)).isNone = !decide (c ∈ cols.map (·.name))
  | [] => by simp
  | k :: ks => by
    by_cases hk : k.name = c
    · simp [List.find?, hk]
    · have hk' : (k.name == c) = false := by simpa using hk
      have hne : ¬ c = k.name := fun h => hk h.symm
      simp only [List.find?, hk', List.map_cons, List.mem_cons, hne, false_or]
      exact find_isNone c ks

@[simp] theorem filter_const_true (l : List Nat) : l.filter (fun _ => true) = l := by
  induction l with
  | nil => rfl
  | cons a l ih => simp [List.filter, ih]

theorem col_isNone (t : Table) (c : String) : (t.col? c).isNone = !decide (c ∈ t.names) := by
  simp only [Table.col?, Table.names]
  exact find_isNone c t.cols

theorem missing_empty (t : Table) (cols : List String) :
    (List.filter (fun c => !decide (c ∈ t.names)) cols).isEmpty = !cols.any (fun c => (t.col? c).isNone) := by
  induction cols with
  | nil => rfl
  | cons c cs ih =>
    by_cases hc : c ∈ t.names
    · simp [List.filter, hc, col_isNone, ih]
    · simp [List.filter, hc, col_isNone]

set_option hygiene false in
/-- the missing-column check and the projection, after the row selection -/
macro "get_tail" : tactic => `(tactic| (
  pystepE [gworld, gGetAttr, gPrim]
  have hme := missing_empty m.table (viewColumns m.table ⟨vcols, vf⟩)
  cases hany : (viewColumns m.table ⟨vcols, vf⟩).any (fun c => (m.table.col? c).isNone)
  · have hno : ¬ ∃ x, (x ∈ if vcols = [] then m.table.names else vcols) ∧ m.table.col? x = none := by simpa [viewColumns] using hany
    rw [hany] at hme
    pystepE [gworld, gGetAttr, gPrim, hme]
    pystepE [gworld, gGetAttr, gPrim]
    simp [Table.get, Except.toOption, List.filter_filter, Pred.typed, Pred.eval, Bool.and_comm, viewColumns, *]
  · have hyes : ∃ x, (x ∈ if vcols = [] then m.table.names else vcols) ∧ m.table.col? x = none := by simpa [viewColumns] using hany
    rw [hany] at hme
    pystepE [gworld, gGetAttr, gPrim, hme]
    simp [Table.get, Except.toOption, Pred.typed, viewColumns, *]))

/-- `PopulationView.get(index, query)`: the model's `Table.get` - the requested rows by LABEL in REQUEST order (an unknown
label refuses the read), then the view's own filter, then the extra filter (both skipped for an empty request, each
refused when it does not type-check against the table), then the missing-column check, then the projection onto the
view's columns. -/
theorem viewGet_refines (m : Mgr) (v : View) (idx : List Nat) (extra : Pred) :
    (Gen.Src.viewGet.run (gworld m.table v) [("self", .self), ("index", .idx idx), ("query", .queryV extra)]).toOption
      = (Table.get m v idx extra).toOption.map GV.result := by
  rw [exc_func]
  simp only [Gen.Src.viewGet]
  rcases v with ⟨vcols, vf⟩
  by_cases hbad : ∃ x, x ∈ idx ∧ ¬x ∈ m.table.rows
  · pystepE [gworld, gGetAttr, gPrim, hbad]
    simp [Table.get, hbad, Except.toOption]
  · pystepE [gworld, gGetAttr, gPrim, hbad]
    by_cases hemp : idx = []
    · subst hemp
      pystepE [gworld, gGetAttr, gPrim]
      get_tail
    · have hne : idx.isEmpty = false := by cases idx <;> simp_all
      by_cases hvt : vf = Pred.tt
      · by_cases het : extra = Pred.tt
        · pystepE [gworld, gGetAttr, gPrim, hne, hvt, het]
          get_tail
        · cases hte : extra.typed m.table
          · pystepE [gworld, gGetAttr, gPrim, hne, hvt, het, hte]
            simp [Table.get, Except.toOption, Pred.typed, viewColumns, *]
          · pystepE [gworld, gGetAttr, gPrim, hne, hvt, het, hte]
            get_tail
      · cases htv : vf.typed m.table
        · pystepE [gworld, gGetAttr, gPrim, hne, hvt, htv]
          simp [Table.get, Except.toOption, Pred.typed, viewColumns, *]
        · by_cases het : extra = Pred.tt
          · pystepE [gworld, gGetAttr, gPrim, hne, hvt, htv, het]
            get_tail
          · cases hte : extra.typed m.table
            · pystepE [gworld, gGetAttr, gPrim, hne, hvt, htv, het, hte]
              simp [Table.get, Except.toOption, Pred.typed, viewColumns, *]
            · pystepE [gworld, gGetAttr, gPrim, hne, hvt, htv, het, hte]
              get_tail
end Viv.Props.C12Src
