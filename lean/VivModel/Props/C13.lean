import VivModel.Model.Table
namespace Viv.Props.C13
open Viv.Table

theorem placeholder_C13 : (createBegin {} 0).2 = [] := by decide

end Viv.Props.C13
