import VivModel.Model.Util
import VivModel.Model.Table
import VivModel.Lemmas.Table
import VivModel.Props.C11
/-! C13 — creating simulants adds fresh rows and disturbs nobody.

`createBegin` / `createEnd` are the two halves of `PopulationManager._create_simulants` (grow the
table with `reindex`, hand `new_index.difference(old_index)` to the initializers, clear the flags);
the initializers' writes are ordinary `update`s made while the flags are set.

* `create_labels`             the labels returned are `n, …, n+k-1` where `n` is the current size;
* `create_never_reused`       over ANY history of creations, updates (untracking included) and ends of
                              creations, no label is ever handed out twice (induction, invariant
                              `rows = range n`);
* `create_preserves_existing` growing the table leaves every existing cell as it was (int cells are
                              shown as floats until the initializers have filled the new rows – pandas
                              has no integer NaN – with the same numeric value);
* `create_zero`               creating nobody returns no labels and leaves the table alone;
* `new_columns_only_initial`  outside the initial creation no update ever changes the set of columns;
                              at a birth an update that brings a new column is rejected;
* `conflicting_initial_rejected` / `conflicting_birth_rejected`.

NOT claimed: atomicity of a creation as a whole (DESIGN.md C13). -/
namespace Viv.Props.C13
open Viv.Table

theorem table_createBegin (m : Mgr) (k : Nat) :
    (createBegin m k).1.table = reindex m.table (List.range (m.table.rows.length + k)) := rfl

/-- **Labels.** With `n` simulants in the table, creating `k` returns exactly `n, n+1, …, n+k-1` and
the table's index becomes `0 … n+k-1`. -/
theorem create_labels {m : Mgr} {n : Nat} (k : Nat) (h : m.table.rows = List.range n) :
    (createBegin m k).2 = (List.range k).map (fun x => n + x) ∧
    (createBegin m k).1.table.rows = List.range (n + k) := by
  constructor
  · unfold createBegin
    simp only [h, List.length_range]
    rw [List.range_add, List.filter_append]
    have h1 : (List.range n).filter (fun r => !(List.range n).contains r) = [] := by
      rw [List.filter_eq_nil_iff]
      intro a ha; simp [ha]
    have h2 : ((List.range k).map (fun x => n + x)).filter (fun r => !(List.range n).contains r)
        = (List.range k).map (fun x => n + x) := by
      rw [List.filter_eq_self]
      intro a ha
      obtain ⟨x, _, rfl⟩ := List.mem_map.mp ha
      simp [List.mem_range]
    rw [h1, h2]; rfl
  · rw [table_createBegin, h, List.length_range]; rfl

/-- the labels are fresh (not in the table before), distinct and consecutive -/
theorem create_labels_fresh {m : Mgr} {n : Nat} (k : Nat) (h : m.table.rows = List.range n) :
    (∀ l ∈ (createBegin m k).2, l ∉ m.table.rows) ∧ (createBegin m k).2.Nodup ∧
    (createBegin m k).2.length = k := by
  rw [(create_labels k h).1, h]
  refine ⟨?_, ?_, by simp⟩
  · intro l hl
    obtain ⟨x, _, rfl⟩ := List.mem_map.mp hl
    simp [List.mem_range]
  · rw [← List.range'_eq_map_range]; exact List.nodup_range'

/-- every successful update, in every mode, leaves the rows and their order alone -/
theorem update_rows {m m' : Mgr} {v : View} {u : Upd} (h : update m v u = .ok m') :
    m'.table.rows = m.table.rows := by
  cases hi : m.initial with
  | false =>
    obtain ⟨f, _, _, hcase⟩ := update_ok_normal hi h
    rcases hcase with ⟨_, rfl⟩ | ⟨_, t', hw, rfl⟩
    · rfl
    · obtain ⟨_, _, _, hr⟩ := writeAll_ok hw
      exact hr
  | true =>
    unfold update at h
    simp only [hi] at h
    split at h
    · cases h
    · split at h
      · cases h
      · simp only [if_true] at h
        cases h; rfl

theorem applyUpdate_rows (m : Mgr) (v : View) (u : Upd) : (applyUpdate m v u).1.table.rows = m.table.rows := by
  unfold applyUpdate
  cases h : update m v u with
  | ok m' => exact update_rows h
  | error e => rfl

/-- the invariant behind freshness: along any history the index is `0 … n-1`, and every label handed
out later is `≥ n` and distinct from all others -/
theorem runOps_fresh : ∀ (ops : List Op) (m : Mgr) (n : Nat), m.table.rows = List.range n →
    (∀ l ∈ (runOps m ops).2.flatten, n ≤ l) ∧ (runOps m ops).2.flatten.Nodup
  | [], _, _, _ => by simp [runOps]
  | .create k :: ops, m, n, h => by
    obtain ⟨hl, hr⟩ := create_labels k h
    obtain ⟨ih1, ih2⟩ := runOps_fresh ops (createBegin m k).1 (n + k) hr
    have e : (runOps m (.create k :: ops)).2 = (createBegin m k).2 :: (runOps (createBegin m k).1 ops).2 := rfl
    rw [e, List.flatten_cons, hl]
    constructor
    · intro l hmem
      rcases List.mem_append.mp hmem with hm | hm
      · obtain ⟨x, _, rfl⟩ := List.mem_map.mp hm; omega
      · have := ih1 l hm; omega
    · rw [List.nodup_append]
      refine ⟨by rw [← List.range'_eq_map_range]; exact List.nodup_range', ih2, ?_⟩
      intro a ha b hb
      obtain ⟨x, hx, rfl⟩ := List.mem_map.mp ha
      have := ih1 b hb
      have := List.mem_range.mp hx
      omega
  | .upd v u :: ops, m, n, h => by
    have e : runOps m (.upd v u :: ops) = runOps (applyUpdate m v u).1 ops := rfl
    rw [e]
    exact runOps_fresh ops _ n (by rw [applyUpdate_rows]; exact h)
  | .endCreate :: ops, m, n, h => by
    have e : runOps m (.endCreate :: ops) = runOps (createEnd m) ops := rfl
    rw [e]
    exact runOps_fresh ops _ n h

/-- **Labels are never reused.** Starting from a fresh population manager, over any history of
creations (of any size, zero included), updates from anybody (untracking is one) – accepted or
rejected – and ends of creations, all labels ever handed out are pairwise distinct. -/
theorem create_never_reused (ops : List Op) : (runOps {} ops).2.flatten.Nodup :=
  (runOps_fresh ops {} 0 rfl).2

/-- what growing does to one existing cell: nothing, except that an int is shown as the same number
in float form while the column has unfilled rows -/
def grown (grows : Bool) (d : Dtype) (v : Val) : Val := if grows && d = .int then toFlt v else v

theorem grown_same_number (i : Int) : grown true .int (.int i) = .flt i 0 := rfl

theorem grown_other (grows : Bool) (d : Dtype) (v : Val) (h : d ≠ .int ∨ grows = false) : grown grows d v = v := by
  unfold grown
  rcases h with h | h
  · simp [h]
  · simp [h]

theorem idxOf_range {n r : Nat} (h : r < n) : (List.range n).idxOf r = r := by
  have hnd : (List.range n).Nodup := List.nodup_range
  have hlen : r < (List.range n).length := by simpa using h
  have := idxOf_getElem_nodup hnd r hlen
  simpa using this

theorem reindex_col? (t : Table) (newIndex : List Nat) (c : String) :
    (reindex t newIndex).col? c =
      (t.col? c).map (reindexCol t.rows newIndex (newIndex.any (fun r => !t.rows.contains r))) := by
  unfold Table.col? reindex
  exact find?_map_key (fun k : Col => k.name) _ c t.cols (fun _ _ => rfl)

/-- the table grows iff somebody is created -/
theorem grows_iff (n k : Nat) :
    (List.range (n + k)).any (fun r => !(List.range n).contains r) = decide (0 < k) := by
  rw [Bool.eq_iff_iff]
  simp only [List.any_eq_true, decide_eq_true_eq]
  constructor
  · rintro ⟨x, hx, hnx⟩
    have := List.mem_range.mp hx
    have : ¬ x < n := by simpa [List.mem_range] using hnx
    omega
  · intro hk
    exact ⟨n, List.mem_range.mpr (by omega), by simp [List.mem_range]⟩

/-- **Existing simulants are not disturbed by the creation itself.** After the table has grown by `k`
rows, every cell of every existing simulant holds what it held before; the column names and their
order are unchanged. -/
theorem create_preserves_existing {m : Mgr} {n : Nat} (k : Nat) (hwf : m.table.WF)
    (h : m.table.rows = List.range n) (c : Col) (hc : c ∈ m.table.cols) (r : Nat) (hr : r < n) :
    ∃ v, m.table.cell? r c.name = some v ∧
      (createBegin m k).1.table.cell? r c.name = some (grown (decide (0 < k)) c.dtype v) ∧
      (createBegin m k).1.table.names = m.table.names := by
  have hrm : r ∈ m.table.rows := by rw [h]; exact List.mem_range.mpr hr
  obtain ⟨v, hv⟩ := cellOf_isSome hrm (hwf.lens c hc)
  refine ⟨v, ?_, ?_, ?_⟩
  · unfold Table.cell?; rw [col?_of_mem hwf.namesNodup hc]; exact hv
  · rw [table_createBegin, h, List.length_range]
    unfold Table.cell?
    rw [reindex_col?, col?_of_mem hwf.namesNodup hc]
    simp only [Option.map_some, reindex, reindexCol]
    have hr' : r ∈ List.range (n + k) := List.mem_range.mpr (by omega)
    rw [cellOf_of_mem hr', idxOf_range (by omega : r < n + k)]
    rw [List.getElem?_map, List.getElem?_range (by omega : r < n + k)]
    simp only [Option.map_some]
    rw [hv, h, grows_iff]
    rfl
  · rw [table_createBegin]
    unfold Table.names reindex
    simp only [List.map_map]
    rfl

theorem map_cellOf_range {n : Nat} {cells : List Val} (hl : cells.length = n) :
    (List.range n).map (fun r => (cellOf (List.range n) cells r).getD .null) = cells := by
  apply List.ext_getElem?
  intro i
  by_cases hi : i < n
  · rw [List.getElem?_map, List.getElem?_range hi]
    simp only [Option.map_some]
    rw [cellOf_of_mem (List.mem_range.mpr hi), idxOf_range hi]
    have : i < cells.length := by omega
    simp [List.getElem?_eq_getElem this]
  · have h1 : cells.length ≤ i := by omega
    have h2 : ((List.range n).map (fun r => (cellOf (List.range n) cells r).getD Val.null)).length ≤ i := by
      simp; omega
    rw [List.getElem?_eq_none h1, List.getElem?_eq_none h2]

/-- **Creating nobody.** `creator(0)` returns no labels and leaves the table exactly as it was (values
and dtypes); only the `adding_simulants` flag is raised for the (empty) initializer round. -/
theorem create_zero {m : Mgr} {n : Nat} (hwf : m.table.WF) (h : m.table.rows = List.range n) :
    (createBegin m 0).2 = [] ∧ (createBegin m 0).1.table = m.table := by
  refine ⟨by rw [(create_labels 0 h).1]; rfl, ?_⟩
  rw [table_createBegin, h, List.length_range]
  unfold reindex
  rw [h, grows_iff n 0]
  apply table_ext
  · exact h.symm
  · have : ∀ c ∈ m.table.cols, reindexCol (List.range n) (List.range (n + 0)) (decide (0 < 0)) c = c := by
      intro c hc
      have hl : c.cells.length = n := by rw [hwf.lens c hc, h, List.length_range]
      unfold reindexCol
      simp only [Nat.lt_irrefl, decide_false, Bool.false_and, Bool.false_eq_true, if_false, Nat.add_zero]
      rw [map_cellOf_range hl]
    calc m.table.cols.map _ = m.table.cols.map id := List.map_congr_left this
      _ = m.table.cols := List.map_id _

theorem foldl_repl_name (news : List Col) (k : Col) : (news.foldl repl k).name = k.name := by
  induction news generalizing k with
  | nil => rfl
  | cons n ns ih =>
    simp only [List.foldl_cons]
    rw [ih]
    unfold repl
    by_cases e : (k.name == n.name) = true
    · simp only [e, if_true]; exact (by simpa using e : k.name = n.name).symm
    · simp only [e]; rfl

/-- **New columns only while the initial population is built.** Outside the initial creation – on a time
step or at a birth – no accepted update ever changes the columns of the table (names and order). -/
theorem new_columns_only_initial {m m' : Mgr} {v : View} {u : Upd} (hi : m.initial = false)
    (h : update m v u = .ok m') : m'.table.names = m.table.names := by
  obtain ⟨f, _, _, hcase⟩ := update_ok_normal hi h
  rcases hcase with ⟨_, rfl⟩ | ⟨_, t', hw, rfl⟩
  · rfl
  · obtain ⟨news, _, hcols, _⟩ := writeAll_ok hw
    rw [table_of_pop]
    unfold Table.names
    rw [hcols, List.map_map]
    apply List.map_congr_left
    intro k _
    exact foldl_repl_name news k

/-- … and while the initial population is built an accepted update only *appends* the columns it brings
that the table does not have yet, filled by label; the existing columns and the rows stay as they are -/
theorem initial_update_appends {m m' : Mgr} {v : View} {u : Upd} (hi : m.initial = true)
    (h : update m v u = .ok m') :
    ∃ f, coerce u (viewColumns m.table v) = .ok f ∧
      m'.table.rows = m.table.rows ∧
      m'.table.cols = m.table.cols ++ (f.cols.filter (fun c => (m.table.col? c.name).isNone)).map
        (fun c => (⟨c.name, c.dtype, locCells f.rows c.vals m.table.rows⟩ : Col)) := by
  unfold update at h
  simp only [hi] at h
  split at h
  · cases h
  · rename_i f hf
    split at h
    · cases h
    · simp only [if_true] at h
      cases h
      exact ⟨f, hf, rfl, rfl⟩

/-- a birth (a creation once a population exists) is not an initial creation … -/
theorem birth_not_initial {m : Mgr} {t : Table} (hp : m.pop = some t) (hi : m.initial = false) (k : Nat) :
    (createBegin m k).1.initial = false ∧ (createBegin m k).1.adding = true := by
  unfold createBegin
  simp [hp, hi]

/-- … so an initializer that brings a new column at a birth is rejected, and its update writes nothing -/
theorem new_column_at_birth_rejected {m : Mgr} {t : Table} (hp : m.pop = some t) (hi : m.initial = false)
    (k : Nat) {v : View} {u : Upd} {f : Frame}
    (hc : coerce u (viewColumns (createBegin m k).1.table v) = .ok f)
    (hrows : ∀ r ∈ f.rows, r ∈ (createBegin m k).1.table.rows)
    (h : ∃ c ∈ f.cols, c.name ∉ (createBegin m k).1.table.names) :
    applyUpdate (createBegin m k).1 v u = ((createBegin m k).1, some .newColumn) :=
  C11.rejected_new_column hc (birth_not_initial hp hi k).1 hrows h

/-- the very first creation is the initial one -/
theorem first_creation_initial (k : Nat) : (createBegin {} k).1.initial = true ∧ (createBegin {} k).1.adding = true :=
  ⟨rfl, rfl⟩

/-- **Conflicting initial values are rejected.** While the initial population is built, an update that
carries a column some other component has already created, with a different index order, dtype or
values, is rejected – whatever else it contains. -/
theorem conflicting_initial_rejected {m : Mgr} {v : View} {u : Upd} {f : Frame} (hi : m.initial = true)
    (hc : coerce u (viewColumns m.table v) = .ok f)
    (h : ∃ c ∈ f.cols, ∃ k, m.table.col? c.name = some k ∧
      (f.rows ≠ m.table.rows ∨ c.dtype ≠ k.dtype ∨ c.vals ≠ k.cells)) :
    ∃ e, applyUpdate m v u = (m, some e) := by
  have hpre : ∃ e, precheck m.table m.initial m.adding f = .error e := by
    unfold precheck
    split
    · exact ⟨_, rfl⟩
    · unfold coherentInit
      split
      · exact ⟨_, rfl⟩
      · split
        · exact ⟨_, rfl⟩
        · obtain ⟨c, hcm, k, hk, hdiff⟩ := h
          refine ⟨.conflict, ?_⟩
          split
          · rfl
          · rename_i hno
            exfalso
            apply hno
            simp only [List.any_eq_true]
            refine ⟨c, hcm, ?_⟩
            rw [hk]
            simp only [seriesEquals, Bool.not_eq_true', Bool.and_eq_false_iff, decide_eq_false_iff_not]
            rcases hdiff with h1 | h2 | h3
            · exact Or.inl (Or.inl h1)
            · exact Or.inl (Or.inr h2)
            · exact Or.inr h3
  obtain ⟨e, he⟩ := hpre
  exact ⟨e, C11.update_rejected_unchanged (update_precheck_error hc he)⟩

/-- **… and at a birth**: once one component has filled a column for the new simulants, a second
component supplying other values (or another dtype / order) for them is rejected -/
theorem conflicting_birth_rejected {m : Mgr} {v : View} {u : Upd} {f : Frame} (hi : m.initial = false)
    (ha : m.adding = true) (hc : coerce u (viewColumns m.table v) = .ok f)
    (hrows : ∀ r ∈ f.rows, r ∈ m.table.rows) (hcols : ∀ c ∈ f.cols, c.name ∈ m.table.names)
    (h : ∃ c ∈ f.cols, conflicting m.table f c = true) :
    applyUpdate m v u = (m, some .conflict) := by
  apply C11.update_rejected_unchanged
  apply update_precheck_error hc
  unfold precheck
  have h1 : (f.rows.any fun r => !m.table.rows.contains r) = false := by
    simp only [List.any_eq_false]
    intro r hr; simpa using hrows r hr
  have h2 : (f.cols.any fun c => (m.table.col? c.name).isNone) = false := by
    simp only [List.any_eq_false]
    intro c hcm
    cases hk : m.table.col? c.name with
    | none => exact absurd (hcols c hcm) (col?_none_iff.mp hk)
    | some k => simp
  have h3 : (m.adding && f.cols.any (conflicting m.table f)) = true := by
    obtain ⟨c, hcm, hcf⟩ := h
    simp only [ha, Bool.true_and, List.any_eq_true]
    exact ⟨c, hcm, hcf⟩
  rw [h1, hi, h2, h3]
  rfl

/-! ### Null is a value (lesson 15)

While the INITIAL population is built a column is in the table only because some component has supplied it: a
null cell (NaN / NaT / None) IS that component's initial value, and the overlap test (`Series.equals`) treats
it as one – null equals null and nothing else. At a BIRTH the new rows are in the table as nulls before
anybody has supplied anything, and the code's conflict test skips a column whose addressed cells are all null. -/

/-- **What the initial creation accepts for a column that already exists: only an exact duplicate** – the
same simulants in the same order, the same dtype, the same cells with the nulls in the same places. -/
theorem initial_accepted_overlap_equal {m m' : Mgr} {v : View} {u : Upd} (hi : m.initial = true)
    (h : update m v u = .ok m') :
    ∃ f, coerce u (viewColumns m.table v) = .ok f ∧
      ∀ c ∈ f.cols, ∀ k, m.table.col? c.name = some k →
        f.rows = m.table.rows ∧ c.dtype = k.dtype ∧ c.vals = k.cells := by
  unfold update at h
  simp only [hi] at h
  split at h
  · cases h
  · rename_i f hf
    split at h
    · cases h
    · rename_i hpre
      refine ⟨f, hf, ?_⟩
      intro c hc k hk
      unfold precheck at hpre
      split at hpre
      · cases hpre
      · simp only [if_true] at hpre
        unfold coherentInit at hpre
        split at hpre
        · cases hpre
        · split at hpre
          · cases hpre
          · split at hpre
            · cases hpre
            · rename_i hno
              simp only [List.any_eq_true, not_exists, not_and] at hno
              have := hno c hc
              rw [hk] at this
              simp only [seriesEquals, Bool.not_eq_true', Bool.not_eq_false, Bool.and_eq_true,
                decide_eq_true_eq] at this
              exact ⟨this.1.1, this.1.2, this.2⟩

/-- **The first provider supplied nothing but nulls** (`exit_time = NaT` for everybody …), a second component
supplies a real value for somebody: rejected, whatever new columns the second component brings along. -/
theorem all_null_first_initial_rejected {m : Mgr} {v : View} {u : Upd} {f : Frame} (hi : m.initial = true)
    (hc : coerce u (viewColumns m.table v) = .ok f)
    (h : ∃ c ∈ f.cols, ∃ k, m.table.col? c.name = some k ∧ (∀ x ∈ k.cells, x = .null) ∧ ∃ x ∈ c.vals, x ≠ .null) :
    ∃ e, applyUpdate m v u = (m, some e) := by
  obtain ⟨c, hcm, k, hk, hall, x, hx, hxn⟩ := h
  refine conflicting_initial_rejected hi hc ⟨c, hcm, k, hk, Or.inr (Or.inr ?_)⟩
  intro heq
  rw [heq] at hx
  exact hxn (hall x hx)

/-- **Null against value in one cell, either way round** (the column held null and the update says a value, or
the column held a value and the update says null): rejected. -/
theorem null_vs_value_initial_rejected {m : Mgr} {v : View} {u : Upd} {f : Frame} (hi : m.initial = true)
    (hc : coerce u (viewColumns m.table v) = .ok f)
    (h : ∃ c ∈ f.cols, ∃ k, m.table.col? c.name = some k ∧ ∃ (i : Nat) (x : Val),
      (k.cells[i]? = some Val.null ∧ c.vals[i]? = some x ∧ x ≠ Val.null) ∨
      (c.vals[i]? = some Val.null ∧ k.cells[i]? = some x ∧ x ≠ Val.null)) :
    ∃ e, applyUpdate m v u = (m, some e) := by
  obtain ⟨c, hcm, k, hk, i, x, hcase⟩ := h
  refine conflicting_initial_rejected hi hc ⟨c, hcm, k, hk, Or.inr (Or.inr ?_)⟩
  intro heq
  rcases hcase with ⟨h1, h2, h3⟩ | ⟨h1, h2, h3⟩
  · rw [heq, h1] at h2; cases h2; exact h3 rfl
  · rw [heq, h2] at h1; cases h1; exact h3 rfl

/-- **The births reading of the code that exists**: a column whose cells for the addressed simulants are all
null is never in conflict – the new rows exist as null cells before any initializer runs, so the test cannot tell
"nobody has supplied a value yet" from "somebody has supplied null" (observed and judged NOT a finding: the property
needs two VALUES; the oracle has no opinion there; `birth_null_first_example` below). -/
theorem birth_null_cells_no_conflict {t : Table} {f : Frame} {c : UCol} {k : Col} (hk : t.col? c.name = some k)
    (h : ∀ x ∈ locCells t.rows k.cells f.rows, x = .null) : conflicting t f c = false := by
  unfold conflicting
  rw [hk]
  have : ((locCells t.rows k.cells f.rows).any fun x => decide (x ≠ Val.null)) = false := by
    simp only [List.any_eq_false, decide_eq_true_eq]
    intro x hx; simpa using h x hx
  simp only [this, Bool.false_and]

/-- … but as soon as one addressed cell holds a value, anything but an exact duplicate (nulls in the same places)
is a conflict: a value replaced by null, a null replaced by a value next to a filled cell, another value -/
theorem birth_filled_cells_conflict {t : Table} {f : Frame} {c : UCol} {k : Col} (hk : t.col? c.name = some k)
    (h1 : ∃ x ∈ locCells t.rows k.cells f.rows, x ≠ .null)
    (h2 : c.vals ≠ locCells t.rows k.cells f.rows) : conflicting t f c = true := by
  unfold conflicting
  rw [hk]
  have : ((locCells t.rows k.cells f.rows).any fun x => decide (x ≠ Val.null)) = true := by
    obtain ⟨x, hx, hn⟩ := h1
    simp only [List.any_eq_true, decide_eq_true_eq]
    exact ⟨x, hx, hn⟩
  simp only [this, Bool.true_and, seriesEquals, Bool.not_eq_true', Bool.and_eq_false_iff, decide_eq_false_iff_not]
  exact Or.inr h2

/-! ### Filling the new rows gives the existing simulants their exact old state back

While a birth is in progress an `int64` column is shown as `float64` and a `bool` column as `object`
(pandas has no integer / boolean NaN).  The initializer that owns the column writes the new simulants'
values with the column's own dtype; `_update_column_and_ensure_dtype` then casts the whole column
back.  These theorems say that the cast back is exact for the existing simulants. -/

theorem cellOf_range_map {n : Nat} (g : Nat → Val) {r : Nat} (hr : r < n) :
    cellOf (List.range n) ((List.range n).map g) r = some (g r) := by
  rw [cellOf_of_mem (List.mem_range.mpr hr), idxOf_range hr, List.getElem?_map, List.getElem?_range hr]
  rfl

/-- an `int` column: grown, then filled by its owner for exactly the new simulants -/
theorem create_fill_restores_int {n k : Nat} {old : Col} (hd : old.dtype = .int) (hl : old.cells.length = n)
    (hty : ∀ v ∈ old.cells, ∃ i, v = .int i)
    {urows : List Nat} {u : UCol} (hu : u.dtype = .int) (hund : urows.Nodup)
    (hcover : ∀ r, r ∈ urows ↔ n ≤ r ∧ r < n + k) (hul : u.vals.length = urows.length)
    (huty : ∀ v ∈ u.vals, ∃ i, v = .int i) :
    ∃ res, updateColumn (List.range (n + k)) (reindexCol (List.range n) (List.range (n + k)) true old) urows u true
        = .ok res ∧
      res.name = old.name ∧ res.dtype = .int ∧
      (∀ r, r < n → cellOf (List.range (n + k)) res.cells r = cellOf (List.range n) old.cells r) ∧
      (∀ r ∈ urows, cellOf (List.range (n + k)) res.cells r = cellOf urows u.vals r) := by
  let base : List Val := (List.range (n + k)).map (fun r => (cellOf (List.range n) old.cells r).getD .null)
  have hcells : (reindexCol (List.range n) (List.range (n + k)) true old).cells = base.map toFlt := by
    simp only [reindexCol, hd, base, List.map_map]
    apply List.map_congr_left
    intro r _
    simp
  have hud : ∀ v, (∃ i, v = Val.int i) → toInt (toFlt v) = .ok v := by
    rintro v ⟨i, rfl⟩
    simp [toFlt, toInt]
  have hbase : ∀ r ∈ List.range (n + k), r ∉ urows →
      ∃ v, cellOf (List.range (n + k)) base r = some v ∧ ∃ i, v = Val.int i := by
    intro r hr hnu
    have hr' : r < n + k := List.mem_range.mp hr
    have hrn : r < n := by
      have : ¬ (n ≤ r ∧ r < n + k) := fun h => hnu ((hcover r).mpr h)
      omega
    obtain ⟨v, hv⟩ := cellOf_isSome (List.mem_range.mpr hrn) (by rw [hl, List.length_range])
    refine ⟨v, ?_, hty v (mem_of_cellOf hv)⟩
    rw [cellOf_range_map _ hr', hv]; rfl
  obtain ⟨out, hout, _, hcell⟩ := fill_roundtrip hud List.nodup_range (by simp [base]) hund
    (fun r hr => List.mem_range.mpr ((hcover r).mp hr).2) hul hbase huty
  refine ⟨⟨old.name, .int, out⟩, ?_, rfl, rfl, ?_, ?_⟩
  · unfold updateColumn
    have hcd : (reindexCol (List.range n) (List.range (n + k)) true old).dtype = .flt := by
      simp [reindexCol, hd, promote]
    rw [hcd, hu, hcells]
    simp only [reduceCtorEq, if_false, Bool.not_true, Bool.false_eq_true, hout]
    rfl
  · intro r hr
    have hnu : r ∉ urows := fun h => by have := (hcover r).mp h; omega
    rw [hcell r, if_neg hnu, cellOf_range_map _ (by omega : r < n + k)]
    obtain ⟨v, hv⟩ := cellOf_isSome (List.mem_range.mpr hr) (by rw [hl, List.length_range] : old.cells.length = (List.range n).length)
    rw [hv]; rfl
  · intro r hr
    rw [hcell r, if_pos hr]

/-- a `bool` column (the manager's own `tracked` column is one): grown, then filled by its owner -/
theorem create_fill_restores_bool {n k : Nat} {old : Col} (hd : old.dtype = .bool) (hl : old.cells.length = n)
    (hty : ∀ v ∈ old.cells, ∃ b, v = .bool b)
    {urows : List Nat} {u : UCol} (hu : u.dtype = .bool) (hund : urows.Nodup)
    (hcover : ∀ r, r ∈ urows ↔ n ≤ r ∧ r < n + k) (hul : u.vals.length = urows.length)
    (huty : ∀ v ∈ u.vals, ∃ b, v = .bool b) :
    ∃ res, updateColumn (List.range (n + k)) (reindexCol (List.range n) (List.range (n + k)) true old) urows u true
        = .ok res ∧
      res.name = old.name ∧ res.dtype = .bool ∧
      (∀ r, r < n → cellOf (List.range (n + k)) res.cells r = cellOf (List.range n) old.cells r) ∧
      (∀ r ∈ urows, cellOf (List.range (n + k)) res.cells r = cellOf urows u.vals r) := by
  let base : List Val := (List.range (n + k)).map (fun r => (cellOf (List.range n) old.cells r).getD .null)
  have hcells : (reindexCol (List.range n) (List.range (n + k)) true old).cells = base.map id := by
    simp only [reindexCol, hd, base, List.map_map]
    apply List.map_congr_left
    intro r _
    simp
  have hud : ∀ v, (∃ b, v = Val.bool b) → toBool (id v) = .ok v := by
    rintro v ⟨b, rfl⟩
    rfl
  have hbase : ∀ r ∈ List.range (n + k), r ∉ urows →
      ∃ v, cellOf (List.range (n + k)) base r = some v ∧ ∃ b, v = Val.bool b := by
    intro r hr hnu
    have hr' : r < n + k := List.mem_range.mp hr
    have hrn : r < n := by
      have : ¬ (n ≤ r ∧ r < n + k) := fun h => hnu ((hcover r).mpr h)
      omega
    obtain ⟨v, hv⟩ := cellOf_isSome (List.mem_range.mpr hrn) (by rw [hl, List.length_range])
    refine ⟨v, ?_, hty v (mem_of_cellOf hv)⟩
    rw [cellOf_range_map _ hr', hv]; rfl
  obtain ⟨out, hout, _, hcell⟩ := fill_roundtrip hud List.nodup_range (by simp [base]) hund
    (fun r hr => List.mem_range.mpr ((hcover r).mp hr).2) hul hbase huty
  refine ⟨⟨old.name, .bool, out⟩, ?_, rfl, rfl, ?_, ?_⟩
  · unfold updateColumn
    have hcd : (reindexCol (List.range n) (List.range (n + k)) true old).dtype = .obj := by
      simp [reindexCol, hd, promote]
    rw [hcd, hu, hcells]
    simp only [List.map_id] at hout ⊢
    simp only [reduceCtorEq, if_false, Bool.not_true, Bool.false_eq_true, hout]
    rfl
  · intro r hr
    have hnu : r ∉ urows := fun h => by have := (hcover r).mp h; omega
    rw [hcell r, if_neg hnu, cellOf_range_map _ (by omega : r < n + k)]
    obtain ⟨v, hv⟩ := cellOf_isSome (List.mem_range.mpr hr) (by rw [hl, List.length_range] : old.cells.length = (List.range n).length)
    rw [hv]; rfl
  · intro r hr
    rw [hcell r, if_pos hr]

/-! ### Non-vacuity: a whole birth, run by the model -/

def exTable : Table :=
  ⟨[0, 1], [⟨"tracked", .bool, [.bool true, .bool false]⟩, ⟨"x", .int, [.int 4, .int 5]⟩, ⟨"y", .str, [.str "p", .null]⟩]⟩
def exM : Mgr := { pop := some exTable }

example : exM.table.WF := ⟨by decide, by decide, by decide⟩
example : exM.table.rows = List.range 2 := rfl
def exGrown : Table :=
  ⟨[0, 1, 2, 3], [⟨"tracked", .obj, [.bool true, .bool false, .null, .null]⟩,
                  ⟨"x", .flt, [.flt 4 0, .flt 5 0, .null, .null]⟩, ⟨"y", .str, [.str "p", .null, .null, .null]⟩]⟩
def exDone : Table :=
  ⟨[0, 1, 2, 3], [⟨"tracked", .bool, [.bool true, .bool false, .bool true, .bool true]⟩,
                  ⟨"x", .int, [.int 4, .int 5, .int 6, .int 7]⟩, ⟨"y", .str, [.str "p", .null, .str "q", .str "r"]⟩]⟩
/-- while the birth is in progress the int column shows 4.0, 5.0, NaN and `tracked` is `object` -/
example : createBegin exM 2 = ({ pop := some exGrown, initial := false, adding := true }, [2, 3]) := by decide
/-- the manager's initializer and a component's initializer fill the new rows; afterwards the old rows
and the dtypes are exactly what they were -/
example :
    (runOps exM [.create 2, .upd trackedView (trackedInit [2, 3]),
                 .upd (mkView ["x", "y"] .tt) (.frame [3, 2] [⟨"x", .int, [.int 7, .int 6]⟩, ⟨"y", .str, [.str "r", .str "q"]⟩]),
                 .endCreate]) = ({ pop := some exDone }, [[2, 3]]) := by decide
/-- a second component supplying other values for `x` at the same birth -/
example : (applyUpdate
    (runOps exM [.create 1, .upd trackedView (trackedInit [2]),
                 .upd (mkView ["x"] .tt) (.frame [2] [⟨"x", .int, [.int 6]⟩])]).1
    (mkView ["x"] .tt) (.frame [2] [⟨"x", .int, [.int 9]⟩])).2 = some .conflict := by decide
/-- an initializer that brings a new column at a birth -/
example : (applyUpdate (createBegin exM 1).1 (mkView ["x", "zz"] .tt)
    (.frame [2] [⟨"x", .int, [.int 6]⟩, ⟨"zz", .int, [.int 1]⟩])).2 = some .newColumn := by decide
/-- the initial creation: new columns accepted, conflicting ones rejected -/
example : (runOps {} [.create 2, .upd trackedView (trackedInit [0, 1]),
    .upd (mkView ["x"] .tt) (.frame [0, 1] [⟨"x", .int, [.int 1, .int 2]⟩]),
    .upd (mkView ["y", "x"] .tt) (.frame [0, 1] [⟨"y", .int, [.int 0, .int 0]⟩, ⟨"x", .int, [.int 1, .int 3]⟩]),
    .endCreate]).1.table.names = ["tracked", "x"] := by decide

/-- lesson 15, initial creation: the first component supplies `y = null` for everybody, the second one values (and a
new column of its own): rejected, the table keeps what it had; an exact duplicate of the nulls is accepted -/
def exNullInit : Mgr := (runOps {} [.create 2, .upd trackedView (trackedInit [0, 1]),
    .upd (mkView ["y"] .tt) (.frame [0, 1] [⟨"y", .time, [.null, .null]⟩])]).1
example : (applyUpdate exNullInit (mkView ["z", "y"] .tt)
    (.frame [0, 1] [⟨"z", .int, [.int 1, .int 1]⟩, ⟨"y", .time, [.time 5, .null]⟩])) = (exNullInit, some .conflict) := by decide
example : (applyUpdate exNullInit (mkView ["z", "y"] .tt)
    (.frame [0, 1] [⟨"z", .int, [.int 1, .int 1]⟩, ⟨"y", .time, [.null, .null]⟩])).2 = none := by decide
/-- lesson 15, birth (the code as it exists): the creator of `y` gives the new simulant null, a second component a value –
accepted, the null is overwritten (observed, not a finding); with one filled cell among the addressed ones it is a conflict -/
def exNullBirth (ys : List Val) : Mgr := (runOps exM [.create 2, .upd trackedView (trackedInit [2, 3]),
    .upd (mkView ["x", "y"] .tt) (.frame [2, 3] [⟨"x", .int, [.int 6, .int 7]⟩, ⟨"y", .str, ys⟩])]).1
theorem birth_null_first_example :
    (applyUpdate (exNullBirth [.null, .null]) (mkView ["y"] .tt) (.frame [2, 3] [⟨"y", .str, [.str "q", .str "r"]⟩])).2 = none ∧
    (applyUpdate (exNullBirth [.null, .str "r"]) (mkView ["y"] .tt) (.frame [2, 3] [⟨"y", .str, [.str "q", .str "r"]⟩])).2 = some .conflict ∧
    (applyUpdate (exNullBirth [.str "q", .str "r"]) (mkView ["y"] .tt) (.frame [2, 3] [⟨"y", .str, [.null, .str "r"]⟩])).2 = some .conflict := by
  decide

end Viv.Props.C13
