import VivModel.Model.Table
import VivModel.Gen.Src
import VivModel.Lemmas.PyAst
import VivModel.Lemmas.PyState
/-! C13, source tie: the Python source of `PopulationManager._create_simulants` (`Gen/Src.lean`, regenerated from the tree
under test on every run) evaluated by `Py.evalBlock` IS the model's `createBegin` … initializers … `createEnd`
(`Model/Table.lean`): the state table is re-indexed to `range(len(table) + count)`, the new labels are the difference with
the old index, `adding_simulants` (and, for the first creation, `creating_initial_population`) are set before and cleared
after the initializers, every registered initializer is called exactly once in the order of `self.resources` with
`SimulantData(new labels, population_configuration, clock(), step_size())`, and the new labels are what is returned.
Initializers are ARBITRARY transformers of the manager (they may raise); the manager is the state of a state monad under
the exception monad. `DataFrame.reindex`, `Index.difference`, `len`, `range` are the model's primitives. -/
namespace Viv.Props.C13Src
open Viv.Py Viv.Table

inductive PFn where
  | dataFrame | len | range | reindex (t : Table) | difference (a : List Nat) | clock | stepSize | simData
  | init (j : Nat)

/-- the Python objects `PopulationManager._create_simulants` touches -/
inductive PV where
  | none | bool (b : Bool) | int (i : Int) | str (s : String)
  | self | modPd | cfg | clockV | stepV
  | table (t : Table)
  | rangeV (n : Nat)
  | labels (l : List Nat)
  /-- `SimulantData(index, user_data, creation_time, creation_window)` -/
  | simData (l : List Nat)
  | fn (f : PFn)
  | list (vs : List PV)

abbrev M := SM Mgr

def pGetAttr (ninit : Nat) : PV → String → M PV
  | .self, a =>
    if a == "_population" then do
      let m ← (get : M Mgr)
      pure (match m.pop with | some t => .table t | Option.none => .none)
    else if a == "resources" then pure (.list ((List.range ninit).map fun j => .fn (.init j)))
    else if a == "clock" then pure (.fn .clock)
    else if a == "step_size" then pure (.fn .stepSize)
    else throw "AttributeError"
  | .modPd, a => if a == "DataFrame" then pure (.fn .dataFrame) else throw "AttributeError"
  | .table t, a =>
    if a == "reindex" then pure (.fn (.reindex t))
    else if a == "index" then pure (.labels t.rows)
    else throw "AttributeError"
  | .labels l, a => if a == "difference" then pure (.fn (.difference l)) else throw "AttributeError"
  | _, _ => throw "AttributeError"

def pSetAttr : PV → String → PV → M Unit
  | .self, a, v =>
    if a == "_population" then match v with
      | .table t => modify fun m => { m with pop := some t }
      | _ => throw "TypeError"
    else if a == "creating_initial_population" then match v with
      | .bool b => modify fun m => { m with initial := b }
      | _ => throw "TypeError"
    else if a == "adding_simulants" then match v with
      | .bool b => modify fun m => { m with adding := b }
      | _ => throw "TypeError"
    else throw "AttributeError"
  | _, _, _ => throw "AttributeError"

/-- an initializer: what it does to the manager when handed the new labels (`none` = it raises) -/
abbrev Init := List Nat → Mgr → Option Mgr

def pPrim (inits : List Init) : PFn → List PV → List (String × PV) → M PV
  | .dataFrame, [], [] => pure (.table Table.empty)
  | .len, [.table t], [] => pure (.int t.rows.length)
  | .range, [.int n], [] => pure (.rangeV n.toNat)
  | .reindex t, [.rangeV n], [] => pure (.table (reindex t (List.range n)))
  | .difference a, [.labels b], [] => pure (.labels (a.filter fun r => !b.contains r))
  | .clock, [], [] => pure .clockV
  | .stepSize, [], [] => pure .stepV
  | .simData, [.labels l, .cfg, .clockV, .stepV], [] => pure (.simData l)
  | .init j, [.simData l], [] => do
    let m ← (get : M Mgr)
    match inits[j]? with
    | some f => match f l m with
      | some m' => set m'; pure .none
      | Option.none => throw "InitializerError"
    | Option.none => throw "IndexError"
  | _, _, _ => throw "TypeError"

def pGlobal (n : String) : M PV :=
  if n == "pd" then pure .modPd else if n == "len" then pure (.fn .len) else if n == "range" then pure (.fn .range)
  else if n == "SimulantData" then pure (.fn .simData) else throw "NameError"

def pworld (inits : List Init) : World M PV where
  none := .none
  bool := .bool
  int := .int
  str := .str
  list := .list
  newList vs := pure (.list vs)
  tuple := .list
  global := pGlobal
  truthy
    | .none => pure false
    | .bool b => pure b
    | _ => pure true
  getAttr := pGetAttr inits.length
  setAttr := pSetAttr
  call f args kws := match f with
    | .fn g => pPrim inits g args kws
    | _ => throw "TypeError"
  cmp op l r := match r with
    | .none =>
      if op == "Is" then pure (.bool (match l with | .none => true | _ => false)) else throw "TypeError"
    | _ => throw "TypeError"
  bin op l r := match l, r with
    | .int a, .int b => if op == "Add" then pure (.int (a + b)) else throw "TypeError"
    | _, _ => throw "TypeError"
  neg _ := throw "TypeError"
  sub _ _ := throw "TypeError"
  slice _ _ := .none
  setItem _ _ _ := throw "TypeError"
  iter
    | .list vs => pure vs
    | _ => throw "TypeError"
  unstar _ := throw "TypeError"
  format _ := throw "TypeError"
  concat _ := throw "TypeError"
  dict _ := throw "TypeError"
  whileLoop _ _ _ := throw "Unsupported"
  other s := if s == "{}" then pure .cfg else throw "Unsupported"
  throw cls := throw cls
  rethrow := throw "reraise"
  catchAll body handler := tryCatch body (fun _ => handler)
  catchCls cls body handler := tryCatch body (fun e => if e == cls then handler else throw e)

/-- one pass of the initializer loop -/
def istep (inits : List Init) (labels : List Nat) : PV → Mgr → Option Mgr
  | .fn (.init j), m => match inits[j]? with
    | some f => f labels m
    | Option.none => Option.none
  | _, _ => Option.none

theorem fold_inits_from (inits : List Init) (labels : List Nat) :
    ∀ (pre suf : List Init) (st : Mgr), inits = pre ++ suf →
      ((List.range' pre.length suf.length).map fun j => PV.fn (.init j)).foldlM (fun st x => istep inits labels x st) st
        = suf.foldlM (fun m f => f labels m) st
  | pre, [], st, _ => rfl
  | pre, f :: suf, st, h => by
    have hget : inits[pre.length]? = some f := by
      subst h; simp
    have hi : istep inits labels (PV.fn (.init pre.length)) st = f labels st := by simp [istep, hget]
    simp only [List.length_cons, List.range'_succ, List.map_cons, List.foldlM_cons, hi]
    cases hfm : f labels st with
    | none => rfl
    | some st1 =>
      have := fold_inits_from inits labels (pre ++ [f]) suf st1 (by simp [h])
      simpa using this

theorem fold_inits (inits : List Init) (labels : List Nat) (st : Mgr) :
    ((List.range inits.length).map fun j => PV.fn (.init j)).foldlM (fun st x => istep inits labels x st) st
      = inits.foldlM (fun m f => f labels m) st := by
  rw [List.range_eq_range']
  simpa using fold_inits_from inits labels [] inits st rfl

/-- the locals the loop and the statements after it read -/
def Inv (labels : List Nat) (loc : Locals PV) : Prop :=
  loc.get "self" = some PV.self ∧ loc.get "index" = some (PV.labels labels) ∧ loc.get "population_configuration" = some PV.cfg

set_option hygiene false in
/-- the loop over the initializers and what follows it, once the table has been grown -/
macro "create_tail" : tactic => `(tactic| (
  rw [runM_block_cons, evalStmt]
  simp only [runM_bind]
  conv in (runM (evalExpr _ _ _) _) => simp [evalExpr, pworld, pGetAttr]
  dsimp only
  conv in (runM ((pworld inits).iter _) _) => simp [pworld]
  dsimp only
  generalize hrun : runM (forLoop _ _ _) _ = r
  obtain ⟨loc', hr, h1, h2, h3⟩ : ∃ loc', r = (.ok (.next, loc'), m') ∧ Inv (createBegin m k).2 loc' := by
    rw [← hrun]
    refine runM_forLoop_some (Inv := Inv (createBegin m k).2) (step := istep inits (createBegin m k).2) ?_ ?_ ?_
    · rw [fold_inits]
      simpa [createBegin, Mgr.table, hp, hnat] using hf
    · intro loc x st hx hinv
      obtain ⟨j, _, rfl⟩ := List.mem_map.mp hx
      obtain ⟨h1, h2, h3⟩ := hinv
      simp only [istep]
      cases hj : inits[j]? with
      | none =>
        simp [assignTo, evalBlock, evalStmt, evalExpr, evalArgs, evalKws, pworld, pGetAttr, pPrim, pGlobal, h1, h2, h3, hj]
      | some f =>
        cases hfm : f (createBegin m k).2 st with
        | none =>
          simp [assignTo, evalBlock, evalStmt, evalExpr, evalArgs, evalKws, pworld, pGetAttr, pPrim, pGlobal, h1, h2, h3, hj, hfm]
        | some st1 =>
          simp [assignTo, evalBlock, evalStmt, evalExpr, evalArgs, evalKws, pworld, pGetAttr, pPrim, pGlobal, h1, h2, h3, hj, hfm, Inv]
    · simp [Inv, createBegin, Mgr.table, hp, hnat, reindex]
  subst hr
  dsimp only
  pystep [pworld, pGetAttr, pSetAttr, pPrim, pGlobal, h1, h2, h3]
  pystep [pworld, pGetAttr, pSetAttr, pPrim, pGlobal, h1, h2, h3]
  pystep [pworld, pGetAttr, pSetAttr, pPrim, pGlobal, h1, h2, h3]
  simp [createEnd]))

set_option maxHeartbeats 1600000 in
/-- `PopulationManager._create_simulants(count, population_configuration)` when no initializer raises: the table is
grown by `count` rows labelled `len(table) … len(table)+count-1` (`createBegin`), the flags are set, EVERY registered
initializer is called exactly once, in the order of `self.resources`, with `SimulantData(new labels, configuration,
clock(), step_size())`, the flags are cleared (`createEnd`) and exactly the new labels are returned. -/
theorem createSimulants_ok (inits : List Init) (m : Mgr) (k : Nat) (cfgGiven : Bool) (m' : Mgr)
    (hf : inits.foldlM (fun acc f => f (createBegin m k).2 acc) (createBegin m k).1 = some m') :
    runM (Gen.Src.createSimulants.run (pworld inits)
        [("self", .self), ("count", .int k), ("population_configuration", if cfgGiven then .cfg else .none)]) m
      = (.ok (PV.labels (createBegin m k).2), createEnd m') := by
  rw [runM_func]
  simp only [Gen.Src.createSimulants]
  cases cfgGiven <;>
  ( pystep [pworld, pGetAttr, pSetAttr, pPrim, pGlobal]
    cases hp : m.pop with
    | none =>
      have hnat : ((Table.empty.rows.length : Int) + (k : Int)).toNat = Table.empty.rows.length + k := by omega
      pystep [pworld, pGetAttr, pSetAttr, pPrim, pGlobal, hp]
      pystep [pworld, pGetAttr, pSetAttr, pPrim, pGlobal, hp]
      pystep [pworld, pGetAttr, pSetAttr, pPrim, pGlobal, hp]
      pystep [pworld, pGetAttr, pSetAttr, pPrim, pGlobal, hp]
      pystep [pworld, pGetAttr, pSetAttr, pPrim, pGlobal, hp]
      pystep [pworld, pGetAttr, pSetAttr, pPrim, pGlobal, hp]
      create_tail
    | some t =>
      have hnat : ((t.rows.length : Int) + (k : Int)).toNat = t.rows.length + k := by omega
      pystep [pworld, pGetAttr, pSetAttr, pPrim, pGlobal, hp]
      pystep [pworld, pGetAttr, pSetAttr, pPrim, pGlobal, hp]
      pystep [pworld, pGetAttr, pSetAttr, pPrim, pGlobal, hp]
      pystep [pworld, pGetAttr, pSetAttr, pPrim, pGlobal, hp]
      pystep [pworld, pGetAttr, pSetAttr, pPrim, pGlobal, hp]
      pystep [pworld, pGetAttr, pSetAttr, pPrim, pGlobal, hp]
      create_tail )

end Viv.Props.C13Src
