import VivModel.Model.Pipeline
/-! C14 — a pipeline value is source, then modifiers in order, then post-processing.

The model (`Model/Pipeline.lean`) lets user callables have effects in an arbitrary monad. Here the
monad is a logging state monad: every probe callable appends its own tag to the log *when it is
invoked* and is otherwise an arbitrary pure function. "Exactly once, in registration order" is then a
theorem about the log left behind by `Pipeline.call`, for EVERY source, EVERY list of modifiers, EVERY
post-processor and EVERY argument. -/
namespace Viv.Props.C14
open Viv.Pipeline

/-! ### probes -/

inductive Call | src | mut (i : Nat) | post
  deriving DecidableEq, Repr

abbrev Logged := StateM (List Call)

/-- a callable that records that it was invoked and returns `x` -/
def logged {α : Type} (c : Call) (x : α) : Logged α := fun log => pure (x, log ++ [c])

@[simp] theorem run_logged {α : Type} (c : Call) (x : α) (l : List Call) :
    (logged c x).run l = pure (x, l ++ [c]) := rfl

variable {A V C : Type}

/-- the `i`-th registered replacing modifier `f` as a probe -/
def probeMuts (fs : List (A → V → V)) (k : Nat := 0) : List (A → V → Logged V) :=
  (fs.zipIdx k).map fun (f, i) => fun a v => logged (.mut i) (f a v)

/-- the `i`-th registered list modifier `f` as a probe -/
def probeListMuts (fs : List (A → C)) (k : Nat := 0) : List (A → Logged C) :=
  (fs.zipIdx k).map fun (f, i) => fun a => logged (.mut i) (f a)

/-- a replace-combiner pipeline made of probes -/
def probeReplace (src : A → V) (fs : List (A → V → V)) (post : Option (V → V)) :
    Pipeline Logged A V (A → V → Logged V) :=
  { mutators := probeMuts fs,
    cfg := some { source := fun a => logged .src (src a), combiner := replaceCombiner,
                  post := post.map fun f v => logged .post (f v) } }

/-- a list-combiner pipeline made of probes; the post-processor may reduce the list (`W`-valued
post-processors are covered by taking `C := W ⊕ …`; here it maps lists to lists) -/
def probeList (src : A → List C) (fs : List (A → C)) (post : Option (List C → List C)) :
    Pipeline Logged A (List C) (A → Logged C) :=
  { mutators := probeListMuts fs,
    cfg := some { source := fun a => logged .src (src a), combiner := listCombiner,
                  post := post.map fun f v => logged .post (f v) } }

theorem foldlM_probe (fs : List (A → V → V)) (k : Nat) (args : A) (v : V) (log : List Call) :
    ((probeMuts fs k).foldlM (fun v mu => replaceCombiner v mu args) v).run log
      = pure (fs.foldl (fun v f => f args v) v, log ++ (List.range' k fs.length).map Call.mut) := by
  induction fs generalizing k v log with
  | nil => simp [probeMuts]
  | cons f fs ih =>
    simp only [probeMuts, replaceCombiner, List.zipIdx_cons, List.map_cons, List.foldlM_cons,
      StateT.run_bind] at ih ⊢
    simp [ih, List.range'_succ]

theorem foldlM_probe_list (fs : List (A → C)) (k : Nat) (args : A) (v : List C) (log : List Call) :
    ((probeListMuts fs k).foldlM (fun v mu => listCombiner v mu args) v).run log
      = pure (v ++ fs.map (· args), log ++ (List.range' k fs.length).map Call.mut) := by
  induction fs generalizing k v log with
  | nil => simp [probeListMuts]
  | cons f fs ih =>
    simp only [probeListMuts, listCombiner, List.zipIdx_cons, List.map_cons, List.foldlM_cons,
      StateT.run_bind, bind_pure_comp, StateT.run_map] at ih ⊢
    simp [ih, List.range'_succ]

/-- what the post-processing stage does to a value -/
def postValue {W : Type} (post : Option (W → W)) (skip : Bool) (v : W) : W :=
  match post, skip with
  | some f, false => f v
  | _, _ => v

/-- … and to the log -/
def postTrace {W : Type} (post : Option (W → W)) (skip : Bool) : List Call :=
  match post, skip with
  | some _, false => [Call.post]
  | _, _ => []

/-- **call_trace** (replace combiner). For every source, modifier list, post-processor, argument and
earlier log: the call is accepted, invokes the source once, then modifier 0, 1, …, n-1 once each in
registration order, then the post-processor once – unless there is none or the caller skips it – and
nothing else; and the value is the fold of the modifiers over the source value. -/
theorem call_trace (src : A → V) (fs : List (A → V → V)) (post : Option (V → V)) (args : A)
    (skip : Bool) (log : List Call) :
    ∃ run, (probeReplace src fs post).call args skip = .ok run ∧
      run.run log = pure
        (postValue post skip (fs.foldl (fun v f => f args v) (src args)),
         log ++ [Call.src] ++ (List.range fs.length).map Call.mut ++ postTrace post skip) := by
  refine ⟨_, rfl, ?_⟩
  simp only [probeReplace, StateT.run_bind, run_logged, pure_bind, foldlM_probe]
  cases post <;> cases skip <;> simp [List.range_eq_range', postValue, postTrace]

/-- **call_trace** for the list combiner: same trace; the value is the source's list followed by one
entry per modifier, in registration order. -/
theorem call_trace_list (src : A → List C) (fs : List (A → C)) (post : Option (List C → List C))
    (args : A) (skip : Bool) (log : List Call) :
    ∃ run, (probeList src fs post).call args skip = .ok run ∧
      run.run log = pure
        (postValue post skip (src args ++ fs.map (· args)),
         log ++ [Call.src] ++ (List.range fs.length).map Call.mut ++ postTrace post skip) := by
  refine ⟨_, rfl, ?_⟩
  simp only [probeList, StateT.run_bind, run_logged, pure_bind, foldlM_probe_list]
  cases post <;> cases skip <;> simp [List.range_eq_range', postValue, postTrace]

/-- every tag occurs exactly once in the trace of a call (source, each modifier, post-processor) -/
theorem trace_nodup (n : Nat) (tail : List Call) (h : tail = [] ∨ tail = [Call.post]) :
    ([Call.src] ++ (List.range n).map Call.mut ++ tail).Nodup := by
  have hm : ((List.range n).map Call.mut).Nodup :=
    List.Pairwise.map Call.mut (fun a b h hc => h (by cases hc; rfl)) List.nodup_range
  have hs : Call.src ∉ (List.range n).map Call.mut := by
    intro hc; obtain ⟨_, _, hx⟩ := List.mem_map.mp hc; cases hx
  have hp : Call.post ∉ (List.range n).map Call.mut := by
    intro hc; obtain ⟨_, _, hx⟩ := List.mem_map.mp hc; cases hx
  rcases h with rfl | rfl
  · simp only [List.append_nil, List.singleton_append, List.nodup_cons]
    exact ⟨hs, hm⟩
  · rw [List.append_assoc, List.singleton_append, List.nodup_cons]
    refine ⟨?_, ?_⟩
    · simp only [List.mem_append, List.mem_singleton, not_or]
      exact ⟨hs, by intro hc; cases hc⟩
    · rw [List.nodup_append]
      refine ⟨hm, by simp, ?_⟩
      intro a ha b hb hab
      simp only [List.mem_singleton] at hb
      subst hb; subst hab
      exact hp ha

/-! ### values (pure callables: the identity monad) -/

/-- a pipeline of pure callables under the replace combiner -/
def pureReplace (src : A → V) (fs : List (A → V → V)) (post : Option (V → V)) :
    Pipeline Id A V (A → V → Id V) :=
  { mutators := fs, cfg := some { source := src, combiner := replaceCombiner, post := post } }

/-- a pipeline of pure callables under the list combiner -/
def pureList (src : A → List C) (fs : List (A → C)) :
    Pipeline Id A (List C) (A → Id C) :=
  { mutators := fs, cfg := some { source := src, combiner := listCombiner, post := none } }

theorem id_bind (x : Id V) {W : Type} (f : V → Id W) : (x >>= f) = f x := rfl

theorem foldlM_id (fs : List (A → V → V)) (args : A) (v : V) :
    (fs.foldlM (m := Id) (fun v (mu : A → V → Id V) => replaceCombiner v mu args) v) = pure (fs.foldl (fun v f => f args v) v) := by
  induction fs generalizing v with
  | nil => rfl
  | cons f fs ih => simp only [List.foldlM_cons, List.foldl_cons, replaceCombiner] at ih ⊢; exact ih _

/-- **call_replace**: the value is `post (mₙ(args, … m₂(args, m₁(args, src args))))`, written as the
left fold over the mutator list … -/
theorem call_replace (src : A → V) (fs : List (A → V → V)) (post : Option (V → V)) (args : A) (skip : Bool) :
    (pureReplace src fs post).call args skip
      = .ok (pure (postValue post skip (fs.foldl (fun v f => f args v) (src args)))) := by
  simp only [pureReplace, Pipeline.call]
  congr 1
  rw [id_bind, foldlM_id, pure_bind]
  cases post <;> cases skip <;> rfl

/-- the un-post-processed value of a replace pipeline -/
def replaceValue (src : A → V) (fs : List (A → V → V)) (args : A) : V :=
  fs.foldl (fun v f => f args v) (src args)

/-- … which is the nesting the property describes: the last registered modifier is outermost and
receives the value of the pipeline without it as its last argument. -/
theorem call_replace_nested (src : A → V) (fs : List (A → V → V)) (f : A → V → V) (args : A) :
    replaceValue src (fs ++ [f]) args = f args (replaceValue src fs args) := by
  simp [replaceValue, List.foldl_append]

theorem call_replace_nil (src : A → V) (args : A) : replaceValue src [] args = src args := rfl

theorem foldlM_id_list (fs : List (A → C)) (args : A) (v : List C) :
    (fs.foldlM (m := Id) (fun v (mu : A → Id C) => listCombiner v mu args) v) = pure (v ++ fs.map (· args)) := by
  induction fs generalizing v with
  | nil => simp only [List.foldlM_nil, List.map_nil, List.append_nil]
  | cons f fs ih =>
    simp only [List.foldlM_cons, listCombiner, List.map_cons] at ih ⊢
    rw [id_bind, id_bind, ih]
    exact congrArg (pure : List C → Id (List C))
      (by simp : (v ++ [f args]) ++ fs.map (· args) = v ++ f args :: fs.map (· args))

/-- **call_list**: under the list combiner the value is `[src, m₁, …, mₙ]` – the source's list with one
entry appended per modifier, in registration order, each evaluated on the caller's arguments. -/
theorem call_list (s : A → C) (fs : List (A → C)) (args : A) (skip : Bool) :
    (pureList (fun a => [s a]) fs).call args skip = .ok (pure (s args :: fs.map (· args))) := by
  simp only [pureList, Pipeline.call]
  congr 1
  rw [id_bind, foldlM_id_list]; simp

/-- a source that returns the SAME Python list object on every call: `list_combiner` appends to that object
in place, so what the source returns at the next call is what the previous call left. One call maps
the content `L` to `L ++ [m₁ args, …, mₙ args]` (`call_trace_list` with `src := fun _ => L`) … -/
def growOnce (fs : List (A → C)) (args : A) (L : List C) : List C := L ++ fs.map (· args)

/-- … hence after `n` calls (with the same arguments) the object holds the original content followed
by `n` copies of the modifiers' entries – every call by itself is "source value, then one appended entry
per modifier", the growth is the source's own aliasing. -/
theorem aliased_source_accumulates (fs : List (A → C)) (args : A) (L : List C) (n : Nat) :
    (Nat.repeat (growOnce fs args) n L) = L ++ (List.replicate n (fs.map (· args))).flatten := by
  induction n with
  | zero => simp [Nat.repeat]
  | succ n ih =>
    simp only [Nat.repeat, ih, growOnce, List.replicate_succ', List.flatten_append, List.flatten_cons,
      List.flatten_nil, List.append_nil, List.append_assoc]

/-- a call has no memory of its own: `Pipeline.call` is a function of the pipeline, the arguments and the
skip flag – repeating a call verbatim gives the same computation (any difference between two results
comes from the callables' own state or from what the post-processor reads at that moment, e.g. the
step sizes, which are inputs: `rescale st`). -/
theorem call_repeat {m' : Type → Type} [Monad m'] {M' : Type} (p : Pipeline m' A V M') (args args' : A) (skip skip' : Bool)
    (h1 : args = args') (h2 : skip = skip') : p.call args skip = p.call args' skip' := by
  subst h1; subst h2; rfl

/-! ### registration -/

variable {m : Type → Type} {M : Type}

theorem lookup_setPipe_self (n : String) (p : Pipeline m A V M) (l : List (String × Pipeline m A V M)) :
    (setPipe n p l).lookup n = some p := by
  induction l with
  | nil => simp [setPipe]
  | cons q l ih =>
    obtain ⟨n', q⟩ := q
    unfold setPipe
    by_cases h : n = n'
    · subst h; simp
    · have h' : (n == n') = false := by simpa using h
      simp [h', List.lookup, ih]

theorem lookup_setPipe_other (n n' : String) (hn : n' ≠ n) (p : Pipeline m A V M)
    (l : List (String × Pipeline m A V M)) : (setPipe n p l).lookup n' = l.lookup n' := by
  induction l with
  | nil =>
    have : (n' == n) = false := by simpa using hn
    simp [setPipe, List.lookup, this]
  | cons q l ih =>
    obtain ⟨k, q⟩ := q
    unfold setPipe
    by_cases h : n = k
    · subst h
      have : (n' == n) = false := by simpa using hn
      simp [List.lookup, this]
    · have h' : (n == k) = false := by simpa using h
      simp only [h', Bool.false_eq_true, if_false, List.lookup]
      split <;> simp_all

theorem getValue_registerModifier_self (g : Manager m A V M) (n : String) (mu : M) :
    (g.registerModifier n mu).getValue n
      = { g.getValue n with mutators := (g.getValue n).mutators ++ [mu] } := by
  simp [Manager.registerModifier, Manager.getValue, lookup_setPipe_self]

theorem getValue_registerModifier_other (g : Manager m A V M) (n n' : String) (hn : n' ≠ n) (mu : M) :
    (g.registerModifier n mu).getValue n' = g.getValue n' := by
  simp [Manager.registerModifier, Manager.getValue, lookup_setPipe_other n n' hn]

/-- the modifiers registered for pipeline `n` by a list of registration calls, in call order,
whichever component made the call -/
def modsFor (n : String) : List (Op m A V M) → List M
  | [] => []
  | .modifier _ n' mu :: ops => if n' = n then mu :: modsFor n ops else modsFor n ops
  | .producer .. :: ops => modsFor n ops

/-- the sources offered for pipeline `n`, in call order -/
def prodsFor (n : String) : List (Op m A V M) → List (Config m A V M)
  | [] => []
  | .producer _ n' c :: ops => if n' = n then c :: prodsFor n ops else prodsFor n ops
  | .modifier .. :: ops => prodsFor n ops

theorem modsFor_append (n : String) (a b : List (Op m A V M)) :
    modsFor n (a ++ b) = modsFor n a ++ modsFor n b := by
  induction a with
  | nil => rfl
  | cons op a ih => cases op <;> simp only [List.cons_append, modsFor, ih] <;> split <;> simp

theorem prodsFor_append (n : String) (a b : List (Op m A V M)) :
    prodsFor n (a ++ b) = prodsFor n a ++ prodsFor n b := by
  induction a with
  | nil => rfl
  | cons op a ih => cases op <;> simp only [List.cons_append, prodsFor, ih] <;> split <;> simp

/-- the pipeline `n` after any sequence of registration calls: its mutators are the old ones followed
by the modifiers registered for `n` in call order; its configuration is the old one if it had a source,
else the FIRST source offered (later ones are rejected). Nothing else matters: not the position of the
source among the modifiers, not the registering components, not registrations for other pipelines. -/
theorem run_pipeline (g : Manager m A V M) (ops : List (Op m A V M)) (n : String) :
    ((g.run ops).1.getValue n).mutators = (g.getValue n).mutators ++ modsFor n ops ∧
    ((g.run ops).1.getValue n).cfg = ((g.getValue n).cfg <|> (prodsFor n ops).head?) := by
  induction ops generalizing g with
  | nil => simp [Manager.run, modsFor, prodsFor]
  | cons op ops ih =>
    simp only [Manager.run]
    cases op with
    | modifier comp n' mu =>
      simp only [Manager.apply, modsFor, prodsFor]
      obtain ⟨ih1, ih2⟩ := ih (g.registerModifier n' mu)
      by_cases h : n' = n
      · subst h
        rw [ih1, ih2, getValue_registerModifier_self]
        simp
      · rw [ih1, ih2, getValue_registerModifier_other g n' n (Ne.symm h)]
        simp [h]
    | producer comp n' c =>
      simp only [Manager.apply, modsFor, prodsFor]
      cases hr : g.registerProducer n' c with
      | error e =>
        simp only
        obtain ⟨ih1, ih2⟩ := ih g
        rw [ih1, ih2]
        refine ⟨rfl, ?_⟩
        by_cases h : n' = n
        · subst h
          have : (g.getValue n').cfg.isSome := by
            unfold Manager.registerProducer at hr
            split at hr
            · assumption
            · cases hr
          obtain ⟨c0, hc0⟩ := Option.isSome_iff_exists.mp this
          simp [hc0]
        · simp [h]
      | ok g' =>
        simp only
        obtain ⟨ih1, ih2⟩ := ih g'
        rw [ih1, ih2]
        unfold Manager.registerProducer at hr
        split at hr
        · cases hr
        · rename_i hnone
          cases hr
          by_cases h : n' = n
          · subst h
            have hn : (g.getValue n').cfg = none := by simpa using hnone
            simp only [Manager.getValue, lookup_setPipe_self, Option.getD_some, if_true, List.head?_cons]
            simp only [Manager.getValue] at hn
            rw [hn]; simp
          · simp [Manager.getValue, lookup_setPipe_other n' n (Ne.symm h), h]

/-- the pipeline `n` built from nothing by a list of registration calls -/
theorem built_pipeline (ops : List (Op m A V M)) (n : String) :
    ((({} : Manager m A V M).run ops).1.getValue n)
      = { mutators := modsFor n ops, cfg := (prodsFor n ops).head? } := by
  obtain ⟨h1, h2⟩ := run_pipeline ({} : Manager m A V M) ops n
  have e : (({} : Manager m A V M).getValue n) = {} := by simp [Manager.getValue, List.lookup]
  rw [e] at h1 h2
  cases hp : (({} : Manager m A V M).run ops).1.getValue n with
  | mk mu cf =>
    rw [hp] at h1 h2
    simp only at h1 h2
    simp [h1, h2]

/-- **register_order_free**: modifiers may be registered before the source, and by any component.
With the modifier registrations `pre` made before and `post` made after the source (neither offering
another source for `n`), the pipeline is the one obtained by registering the source first – from any
component `c'` – and all the modifiers afterwards: mutators in registration order, source as given. -/
theorem register_order_free (pre post : List (Op m A V M)) (n c c' : String) (cfg : Config m A V M)
    (h1 : prodsFor n pre = []) (h2 : prodsFor n post = []) :
    (({} : Manager m A V M).run (pre ++ [.producer c n cfg] ++ post)).1.getValue n
      = (({} : Manager m A V M).run ([.producer c' n cfg] ++ pre ++ post)).1.getValue n ∧
    (({} : Manager m A V M).run (pre ++ [.producer c n cfg] ++ post)).1.getValue n
      = { mutators := modsFor n pre ++ modsFor n post, cfg := some cfg } := by
  rw [built_pipeline, built_pipeline]
  simp [modsFor_append, prodsFor_append, modsFor, prodsFor, h1, h2]

/-- … and in general: two registration histories that offer the same modifiers for `n` in the same
relative order and the same first source build the same pipeline `n`. -/
theorem register_order_free_general (ops ops' : List (Op m A V M)) (n : String)
    (hm : modsFor n ops = modsFor n ops') (hp : (prodsFor n ops).head? = (prodsFor n ops').head?) :
    (({} : Manager m A V M).run ops).1.getValue n = (({} : Manager m A V M).run ops').1.getValue n := by
  rw [built_pipeline, built_pipeline, hm, hp]

/-- **second_source_rejected**: once a source has been accepted for `n`, every later attempt to
register a source for `n` – after any further registrations, from any component – is rejected … -/
theorem second_source_rejected (g g' : Manager m A V M) (n : String) (c c' : Config m A V M)
    (ops : List (Op m A V M)) (h : g.registerProducer n c = .ok g') :
    (g'.run ops).1.registerProducer n c' = .error .dupSource := by
  have hs : (g'.getValue n).cfg = some c := by
    unfold Manager.registerProducer at h
    split at h
    · cases h
    · cases h; simp [Manager.getValue, lookup_setPipe_self]
  obtain ⟨_, h2⟩ := run_pipeline g' ops n
  unfold Manager.registerProducer
  rw [h2, hs]
  simp

/-- … and the rejected call changes nothing: the manager (every pipeline, in particular the first
source of `n` and its mutators) is exactly as before. -/
theorem second_source_no_effect (g : Manager m A V M) (comp n : String) (c' : Config m A V M)
    (h : (g.getValue n).cfg.isSome) : g.apply (.producer comp n c') = (g, false) := by
  simp [Manager.apply, Manager.registerProducer, h]

/-- **no_source_rejected**: a call to a pipeline is rejected exactly when no source was ever
registered for it (however many modifiers it has). -/
theorem no_source_rejected [Monad m] (ops : List (Op m A V M)) (n : String) (args : A) (skip : Bool) :
    (∃ e, ((({} : Manager m A V M).run ops).1.getValue n).call args skip = .error e) ↔ prodsFor n ops = [] := by
  rw [built_pipeline]
  unfold Pipeline.call
  cases hp : prodsFor n ops with
  | nil => simp
  | cons c cs => simp

theorem no_source_error [Monad m] (p : Pipeline m A V M) (args : A) (skip : Bool) (h : p.cfg = none) :
    p.call args skip = .error .noSource := by simp [Pipeline.call, h]

/-! ### rescale -/

theorem mapM_some {α β : Type} (f : α → Option β) (g : α → β) (l : List α)
    (h : ∀ a ∈ l, f a = some (g a)) : l.mapM f = some (l.map g) := by
  induction l with
  | nil => rfl
  | cons a l ih =>
    rw [List.mapM_cons, h a List.mem_cons_self, ih (fun b hb => h b (List.mem_cons_of_mem _ hb))]
    rfl

theorem lookup_map_self (l : List Nat) (f : Nat → Rat) (i : Nat) (hi : i ∈ l) :
    (l.map fun j => (j, f j)).lookup i = some (f i) := by
  induction l with
  | nil => cases hi
  | cons j l ih =>
    simp only [List.map_cons, List.lookup]
    by_cases h : i = j
    · subst h; simp
    · have : (i == j) = false := by simpa using h
      simp only [this]
      exact ih (by simpa [h] using hi)

theorem mapM_aligned (l : List Nat) (f : Nat → Rat) (v : Series) (hv : ∀ p ∈ v, p.1 ∈ l) :
    v.mapM (fun (p : Nat × Rat) => ((l.map fun j => (j, f j)).lookup p.1).map fun y => (p.1, p.2 * y))
      = some (v.map fun p => (p.1, p.2 * f p.1)) := by
  induction v with
  | nil => rfl
  | cons p v ih =>
    rw [List.mapM_cons, lookup_map_self l f p.1 (hv p List.mem_cons_self), ih (fun q hq => hv q (List.mem_cons_of_mem _ hq))]
    rfl

/-- label-aligned multiplication by the per-simulant factors of an index that contains every label of `v` -/
theorem mulAligned_factors (st : Steps) (index : List Nat) (v : Series) (hv : ∀ p ∈ v, p.1 ∈ index) :
    mulAligned v (st.factors index) = some (v.map fun p => (p.1, p.2 * (st.sim p.1 / yearSeconds))) := by
  unfold mulAligned Steps.factors Steps.simulantStepSizes
  have := mapM_aligned index (fun i => st.sim i / yearSeconds) v hv
  simp only [List.map_map, Function.comp_def] at this ⊢
  exact this

/-- **rescale_spec** (indexed values): every entry of the Series is multiplied by THAT simulant's step
size over one year – whatever the order of the requested index, and whether or not other simulants
with other step sizes are in the request. -/
theorem rescale_spec (st : Steps) (v : Series) :
    rescale st (.se v) = some (.se (v.map fun p => (p.1, p.2 * (st.sim p.1 / yearSeconds)))) := by
  show (mulAligned v (st.factors (v.map (·.1)))).map Item.se = _
  rw [mulAligned_factors st _ v (fun p hp => List.mem_map.mpr ⟨p, hp, rfl⟩)]; rfl

/-- **rescale_spec** (several rates per simulant): every cell of every column of a DataFrame indexed by
simulant is multiplied by the step size of the simulant of ITS ROW over one year – never by the global
step. Hypothesis: the columns carry one common index (what a DataFrame is). -/
theorem rescale_spec_frame (st : Steps) (cols : Frame) (index : List Nat)
    (h : ∀ c ∈ cols, c.2.map (·.1) = index) :
    rescale st (.fr cols)
      = some (.fr (cols.map fun c => (c.1, c.2.map fun p => (p.1, p.2 * (st.sim p.1 / yearSeconds))))) := by
  show (cols.mapM fun (c : String × Series) =>
    (mulAligned c.2 (st.factors (frameIndex cols))).map fun s => (c.1, s)).map Item.fr = _
  have hidx : cols ≠ [] → frameIndex cols = index := by
    intro hne
    cases cols with
    | nil => exact absurd rfl hne
    | cons c cs => simp [frameIndex, h c List.mem_cons_self]
  have : cols.mapM (fun (c : String × Series) => (mulAligned c.2 (st.factors (frameIndex cols))).map fun s => (c.1, s))
      = some (cols.map fun c => (c.1, c.2.map fun p => (p.1, p.2 * (st.sim p.1 / yearSeconds)))) := by
    by_cases hne : cols = []
    · subst hne; rfl
    · rw [hidx hne]
      apply mapM_some
      intro c hc
      rw [mulAligned_factors st index c.2 (fun p hp => by rw [← h c hc]; exact List.mem_map.mpr ⟨p, hp, rfl⟩)]
      rfl
  rw [this]; rfl

/-- every requested simulant keeps its place and receives a number: the labels of the rescaled Series are
the labels of the annual rates, in order. Whether a simulant is tracked is not an input of the model –
`Steps.sim` (the `step_size` column of the state table) is total over simulant labels – so this holds
for untracked simulants in the request exactly as for tracked ones (the code reads the steps through a
view that includes the `tracked` column, i.e. one that does not filter). -/
theorem rescale_labels (st : Steps) (v : Series) :
    ∃ w, rescale st (.se v) = some (.se w) ∧ w.map (·.1) = v.map (·.1) := by
  refine ⟨_, rescale_spec st v, ?_⟩
  rw [List.map_map]; rfl

theorem rescale_labels_frame (st : Steps) (cols : Frame) (index : List Nat)
    (h : ∀ c ∈ cols, c.2.map (·.1) = index) :
    ∃ out, rescale st (.fr cols) = some (.fr out) ∧ ∀ c ∈ out, c.2.map (·.1) = index := by
  refine ⟨_, rescale_spec_frame st cols index h, ?_⟩
  intro c hc
  obtain ⟨c0, hc0, rfl⟩ := List.mem_map.mp hc
  simp only [List.map_map]
  exact h c0 hc0

/-- a value without an index – a `np.ndarray` – is scaled by the global step, entry by entry (the code
cannot know whose rates these are) -/
theorem rescale_spec_array (st : Steps) (xs : List Rat) :
    rescale st (.arr xs) = some (.arr (xs.map fun x => x * (st.global / yearSeconds))) := rfl

/-- which branch of `rescale_post_processor` a value takes -/
theorem rescale_branch (st : Steps) (v : Item) (h : v.hasIndexAttr = false) :
    (∃ x, v = .sc x ∧ rescale st v = some (.sc (fromYearly x st.global))) ∨
    (∃ xs, v = .arr xs ∧ rescale st v = some (.arr (xs.map fun x => fromYearly x st.global))) := by
  cases v with
  | sc x => exact Or.inl ⟨x, rfl, rfl⟩
  | arr xs => exact Or.inr ⟨xs, rfl, rfl⟩
  | se _ => cases h
  | fr _ => cases h

/-- **rescale_spec** (un-indexed values): a plain number is scaled by the global step over one year. -/
theorem rescale_spec_scalar (st : Steps) (x : Rat) :
    rescale st (.sc x) = some (.sc (x * (st.global / yearSeconds))) := rfl

/-- `value · (step / year)` is `value · step / year` -/
theorem scale_eq (x s : Rat) : x * (s / yearSeconds) = x * s / yearSeconds := by
  rw [Rat.div_def, Rat.div_def, Rat.mul_assoc]

/-- a step of exactly one year leaves an annual rate unchanged; half a year halves it -/
theorem scale_year (x : Rat) : x * (yearSeconds / yearSeconds) = x := by
  have : yearSeconds / yearSeconds = 1 := by unfold yearSeconds; grind
  rw [this, Rat.mul_one]

/-- without per-simulant clocks every simulant's step is the global one, so Series and numbers scale alike -/
theorem rescale_uniform (g : Rat) (v : Series) :
    rescale ⟨g, fun _ => g⟩ (.se v) = some (.se (v.map fun p => (p.1, fromYearly p.2 g))) :=
  rescale_spec ⟨g, fun _ => g⟩ v

/-! ### union -/

/-- `Π (1 - pᵢ)` -/
def compl (ps : List Rat) : Rat := (ps.map (1 - ·)).foldr (· * ·) 1

theorem foldl_compl (ps : List Rat) (a : Rat) :
    ps.foldl (fun acc p => acc * (1 - p)) a = a * compl ps := by
  induction ps generalizing a with
  | nil => simp [compl, Rat.mul_one]
  | cons p ps ih =>
    simp only [List.foldl_cons, ih]
    simp only [compl, List.map_cons, List.foldr_cons]
    rw [Rat.mul_assoc]

/-- **union_spec**: the union post-processor returns `1 − Π(1 − pᵢ)` – for every list, including the
singleton the code special-cases and the empty list. -/
theorem union_spec (ps : List Rat) : union ps = 1 - compl ps := by
  unfold union
  split
  · rename_i p
    simp only [compl, List.map_cons, List.map_nil, List.foldr_cons, List.foldr_nil]
    grind
  · rw [foldl_compl, Rat.one_mul]

theorem union_singleton (p : Rat) : union [p] = p := rfl

theorem union_pair (p q : Rat) : union [p, q] = p + q - p * q := by
  rw [union_spec]; simp only [compl, List.map_cons, List.map_nil, List.foldr_cons, List.foldr_nil]; grind

theorem compl_unit (ps : List Rat) (h : ∀ p ∈ ps, 0 ≤ p ∧ p ≤ 1) : 0 ≤ compl ps ∧ compl ps ≤ 1 := by
  induction ps with
  | nil => simp only [compl, List.map_nil, List.foldr_nil]; exact ⟨by decide, by decide⟩
  | cons p ps ih =>
    obtain ⟨h0, h1⟩ := ih (fun q hq => h q (List.mem_cons_of_mem _ hq))
    obtain ⟨hp0, hp1⟩ := h p List.mem_cons_self
    have e : compl (p :: ps) = (1 - p) * compl ps := by simp [compl]
    rw [e]
    have a0 : (0 : Rat) ≤ 1 - p := by grind
    have a1 : (1 - p : Rat) ≤ 1 := by grind
    refine ⟨Rat.mul_nonneg a0 h0, ?_⟩
    have := Rat.mul_le_mul_of_nonneg_left h1 a0
    grind

/-- probabilities stay probabilities -/
theorem union_unit_interval (ps : List Rat) (h : ∀ p ∈ ps, 0 ≤ p ∧ p ≤ 1) :
    0 ≤ union ps ∧ union ps ≤ 1 := by
  rw [union_spec]
  obtain ⟨h0, h1⟩ := compl_unit ps h
  constructor <;> grind

theorem compl_perm {ps qs : List Rat} (h : ps.Perm qs) : compl ps = compl qs := by
  induction h with
  | nil => rfl
  | cons x _ ih => simp only [compl, List.map_cons, List.foldr_cons] at ih ⊢; rw [ih]
  | swap x y l => simp only [compl, List.map_cons, List.foldr_cons]; grind
  | trans _ _ ih1 ih2 => rw [ih1, ih2]

/-- the order in which modifiers contributed their probabilities does not matter -/
theorem union_perm {ps qs : List Rat} (h : ps.Perm qs) : union ps = union qs := by
  rw [union_spec, union_spec, compl_perm h]

/-- the union is at least as likely as each of its events -/
theorem union_ge (ps : List Rat) (h : ∀ p ∈ ps, 0 ≤ p ∧ p ≤ 1) (p : Rat) (hp : p ∈ ps) : p ≤ union ps := by
  rw [union_spec]
  induction ps with
  | nil => cases hp
  | cons q ps ih =>
    have e : compl (q :: ps) = (1 - q) * compl ps := by simp [compl]
    obtain ⟨c0, c1⟩ := compl_unit ps (fun r hr => h r (List.mem_cons_of_mem _ hr))
    obtain ⟨q0, q1⟩ := h q List.mem_cons_self
    have a0 : (0 : Rat) ≤ 1 - q := by grind
    rw [e]
    rcases List.mem_cons.mp hp with rfl | hp'
    · have := Rat.mul_le_mul_of_nonneg_left c1 a0
      grind
    · have ih' := ih (fun r hr => h r (List.mem_cons_of_mem _ hr)) hp'
      have hc : compl ps ≤ 1 - p := by grind
      have := Rat.mul_le_mul_of_nonneg_right (c := compl ps) (show (1 - q : Rat) ≤ 1 by grind) c0
      grind

/-! ### union on Series -/

/-- the contribution of one callable as a Series over the requested labels -/
def ser (labels : List Nat) (f : Nat → Rat) : Item := .se (labels.map fun i => (i, f i))

theorem foldlM_union_series (labels : List Nat) (gs : List (Nat → Rat)) (acc : Nat → Rat) :
    (gs.map (ser labels)).foldlM (fun (a : Item) v => a.mul v.oneMinus) (ser labels acc)
      = some (ser labels fun i => (gs.map (· i)).foldl (fun a p => a * (1 - p)) (acc i)) := by
  induction gs generalizing acc with
  | nil => simp [ser]
  | cons g gs ih =>
    simp only [List.map_cons, List.foldlM_cons, List.foldl_cons]
    have : (ser labels acc).mul (ser labels g).oneMinus = some (ser labels fun i => acc i * (1 - g i)) := by
      simp only [ser, Item.oneMinus, Item.mul, List.map_map]
      rw [if_pos (by simp [Function.comp_def])]
      simp [List.zip_map', Function.comp_def]
    rw [this]
    exact ih _

/-- `union_post_processor` on Series is the numeric union, simulant by simulant: every label keeps its
place and receives `1 − Π(1 − pₖ(label))` over the contributions in any order. -/
theorem union_series (labels : List Nat) (g : Nat → Rat) (gs : List (Nat → Rat)) :
    unionItems ((g :: gs).map (ser labels)) = some (ser labels fun i => union ((g :: gs).map (· i))) := by
  cases gs with
  | nil => simp [unionItems, union]
  | cons h gs =>
    unfold unionItems
    simp only [List.map_cons, List.foldlM_cons]
    have h1 : (Item.sc 1).mul (ser labels g).oneMinus = some (ser labels fun i => 1 - g i) := by
      simp [ser, Item.oneMinus, Item.mul, Function.comp_def, Rat.one_mul]
    have h2 : (ser labels fun i => 1 - g i).mul (ser labels h).oneMinus = some (ser labels fun i => (1 - g i) * (1 - h i)) := by
      simp only [ser, Item.oneMinus, Item.mul, List.map_map]
      rw [if_pos (by simp [Function.comp_def])]
      simp [List.zip_map', Function.comp_def]
    rw [h1]
    simp only [Option.bind_eq_bind, Option.bind_some, h2]
    rw [foldlM_union_series]
    simp only [Option.map_some, ser, Item.oneMinus, List.map_map, Function.comp_def]
    congr 2
    apply List.map_congr_left
    intro i _
    simp [union, List.foldl_cons, Rat.one_mul]

/-! ### non-vacuity -/

-- three non-commuting modifiers x ↦ 2x+1, x ↦ x², x ↦ x + arg: value and trace
example : ((probeReplace (fun (a : Int) => a) [fun _ v => 2 * v + 1, fun _ v => v * v, fun a v => v + a]
            (some fun v => v - 1)).call 3 false).toOption.map (fun r => (r.run []).run)
          = some (51, [.src, .mut 0, .mut 1, .mut 2, .post]) := by decide
example : ((probeReplace (fun (a : Int) => a) [fun _ v => v * v, fun _ v => 2 * v + 1] none).call 3 false
            ).toOption.map (fun r => (r.run []).run) = some (19, [.src, .mut 0, .mut 1]) := by decide
example : ((probeReplace (fun (a : Int) => a) [] (some fun v => v - 1)).call 3 true
            ).toOption.map (fun r => (r.run []).run) = some (3, [.src]) := by decide
-- a modifier registered before the source by another component
example : ((({} : Manager Id Nat Nat (Nat → Nat → Id Nat)).run
            [.modifier "c1" "p" (fun _ v => 2 * v), .producer "c0" "p" ⟨fun a => a, replaceCombiner, none⟩,
             .modifier "c2" "p" (fun _ v => v + 1), .producer "c2" "p" ⟨fun _ => 0, replaceCombiner, none⟩]).2)
          = [true, true, true, false] := by decide
-- rescale: simulants 7 and 3 with steps of 1/8 and 1/4 year, requested in the order 7, 3
example : rescale ⟨yearSeconds / 8, fun i => if i = 7 then yearSeconds / 8 else yearSeconds / 4⟩ (.se [(7, 1/2), (3, 1/2)])
          = some (.se [(7, 1/16), (3, 1/8)]) := by
  simp [rescale, mulAligned, Steps.factors, Steps.simulantStepSizes, yearSeconds, List.lookup]
  grind
example : union [1/2, 1/4, 1/8] = 43/64 := by simp [union]; grind
example : union [] = 0 := by simp [union]; grind

end Viv.Props.C14
