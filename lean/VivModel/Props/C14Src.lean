import VivModel.Model.Pipeline
import VivModel.Gen.Src
import VivModel.Lemmas.PyAst
/-! C14, source tie: the Python source of `Pipeline._call`, `replace_combiner` and `list_combiner`
(`Gen/Src.lean`, regenerated from the tree under test on every run) evaluated by `Py.evalBlock` IS the model
(`Model/Pipeline.lean`) the C14 theorems are about - for every pipeline, every argument, both values of
`skip_post_processor`, callables with arbitrary effects that may themselves raise.

The `World` below is the dictionary between Python objects and model entities (trusted, small): which attribute of
`self` is which field of the model's `Pipeline`, that calling the source / combiner / post-processor objects runs the
model's effectful functions, truthiness of `None` / callables / lists. Writes to attributes the model does not have
(`value.name = self.name`, a remembered last value …) are ignored; READS of anything the model does not have raise,
so a source edit that makes `_call` depend on new state breaks the theorem instead of being ignored. -/
namespace Viv.Props.C14Src
open Viv.Py Viv.Pipeline

/-- the Python objects a call of `Pipeline._call` can touch, as seen by the model -/
inductive PV (A V M : Type) where
  | none | bool (b : Bool) | int (i : Int) | str (s : String)
  | self | manager | nameAttr
  | source | combiner | post
  | mutr (mu : M)
  | args (a : A)
  | kwargs
  | val (v : V)
  | builtin (n : String)
  | list (vs : List (PV A V M))

variable {m : Type → Type} [Monad m] {A V M : Type}

def world (p : Pipeline (ExceptT String m) A V M) (isSeries : V → Bool) : World (ExceptT String m) (PV A V M) where
  none := .none
  bool := .bool
  int := .int
  str := .str
  list := .list
  newList vs := pure (.list vs)
  tuple := .list
  global n := pure (.builtin n)
  truthy
    | .none => pure false
    | .bool b => pure b
    | .list vs => pure (!vs.isEmpty)
    | _ => pure true
  getAttr o a := match o with
    | .self =>
      if a == "source" then pure (if p.cfg.isSome then .source else .none)
      else if a == "mutators" then pure (.list (p.mutators.map .mutr))
      else if a == "combiner" then pure .combiner
      else if a == "post_processor" then pure (if (p.cfg.bind (·.post)).isSome then .post else .none)
      else if a == "manager" then pure .manager
      else if a == "name" then pure .nameAttr
      else throw "AttributeError"
    | .builtin n => if n == "pd" && a == "Series" then pure (.builtin "pd.Series") else throw "AttributeError"
    | _ => throw "AttributeError"
  setAttr o a _ := match o with
    | .val _ => pure ()
    | .self => if ["source", "mutators", "combiner", "post_processor", "manager", "name"].contains a
        then throw "ModelledAttributeWritten" else pure ()
    | _ => throw "AttributeError"
  call f args kws := match f with
    | .source => match args, kws with
      | [.args a], [(_, .kwargs)] => match p.cfg with
        | some c => .val <$> c.source a
        | none => throw "TypeError"
      | _, _ => throw "TypeError"
    | .combiner => match args, kws with
      | [.val v, .mutr mu, .args a], [(_, .kwargs)] => match p.cfg with
        | some c => .val <$> c.combiner v mu a
        | none => throw "TypeError"
      | _, _ => throw "TypeError"
    | .post => match args, kws with
      | [.val v, .manager], [] => match p.cfg.bind (·.post) with
        | some post => .val <$> post v
        | none => throw "TypeError"
      | _, _ => throw "TypeError"
    | .builtin n => match args, kws with
      | [.val v, .builtin t], [] => if n == "isinstance" && t == "pd.Series" then pure (.bool (isSeries v)) else throw "TypeError"
      | [.list vs], [] => if n == "list" || n == "tuple" then pure (.list vs) else throw "TypeError"
      | _, _ => throw "TypeError"
    | _ => throw "TypeError"
  cmp _ _ _ := throw "TypeError"
  bin _ _ _ := throw "TypeError"
  neg _ := throw "TypeError"
  sub _ _ := throw "TypeError"
  slice _ _ := .none
  setItem _ _ _ := throw "TypeError"
  iter
    | .list vs => pure vs
    | _ => throw "TypeError"
  unstar
    | .args a => pure [.args a]
    | _ => throw "TypeError"
  format _ := throw "TypeError"
  concat _ := throw "TypeError"
  dict _ := throw "TypeError"
  whileLoop _ _ _ := throw "Unsupported"
  other _ := throw "Unsupported"
  throw cls := throw cls
  rethrow := throw "reraise"
  catchAll body handler := tryCatch body (fun _ => handler)
  catchCls cls body handler := tryCatch body (fun e => if e == cls then handler else throw e)


def params (a : A) (skip : Bool) : Locals (PV A V M) :=
  [("self", .self), ("args", .args a), ("skip_post_processor", .bool skip), ("kwargs", .kwargs)]

/-- what the model says `_call` does, in the evaluator's vocabulary -/
def expected (p : Pipeline (ExceptT String m) A V M) (a : A) (skip : Bool) : ExceptT String m (PV A V M) :=
  match p.call a skip with
  | .error _ => throw "DynamicValueError"
  | .ok act => .val <$> act

/-- what follows the modifier loop: the post-processor unless skipped -/
def postK (post : Option (V → ExceptT String m V)) (skip : Bool) (v : V) : ExceptT String m (PV A V M) :=
  PV.val <$> match post, skip with
    | some f, false => f v
    | _, _ => pure v

theorem pipelineCall_refines [LawfulMonad m] (p : Pipeline (ExceptT String m) A V M) (isSeries : V → Bool) (a : A) (skip : Bool) :
    Gen.Src.pipelineCall.run (world p isSeries) (params a skip) = expected p a skip := by
  rcases p with ⟨mus, cfg⟩
  cases cfg with
  | none =>
    simp [Func.run, Gen.Src.pipelineCall, evalBlock, evalStmt, evalExpr, params, world, expected, Pipeline.call]
  | some c =>
    rcases c with ⟨src, comb, post⟩
    simp [Func.run, Gen.Src.pipelineCall, evalBlock, evalStmt, evalExpr, evalArgs, evalKws, params, assignTo,
      world, expected, Pipeline.call]
    refine bind_congr fun v0 => ?_
    refine Eq.trans (forLoop_foldlM (m := ExceptT String m) (V := PV A V M) (σ := V) (β := PV A V M)
      (Inv := fun v loc => loc.get "self" = some PV.self ∧ loc.get "args" = some (PV.args a) ∧ loc.get "kwargs" = some PV.kwargs
        ∧ loc.get "skip_post_processor" = some (PV.bool skip) ∧ loc.get "value" = some (PV.val v))
      (f := fun v x => match x with | PV.mutr mu => comb v mu a | _ => throw "TypeError")
      (k' := postK post skip) (s := v0) (xs := _) (loc := _) (k := _) (body := _) (hbody := ?hbody) (hinv := ?hinv) (hk := ?hk)) ?_
    case hbody =>
      rintro s loc x k k' ⟨h1, h2, h3, h4, h5⟩ hk
      simp only [h1, h2, h3, h5]
      cases x
      case mutr mu =>
        simp
        refine bind_congr fun v' => ?_
        exact hk v' _ (by simp [h1, h2, h3, h4])
      all_goals simp
    case hinv => simp
    case hk =>
      rintro s' loc' ⟨h1, h2, h3, h4, h5⟩
      simp only [h1, h4, h5, postK]
      cases post <;> cases skip <;> cases hs : isSeries s' <;> simp [h1, h5, hs]
    · simp only [List.foldlM_map]
      refine bind_congr fun v => ?_
      unfold postK
      cases post <;> cases skip <;> rfl

/-! ### the two shipped combiners -/

/-- Python objects of a combiner call: the `*args` tuple (the positional arguments of the pipeline call, bundled),
the list built from it, the keyword dictionary, pipeline values, the mutator -/
inductive CV (A V : Type) where
  | none | bool (b : Bool) | int (i : Int) | str (s : String)
  | args (a : A)
  /-- `list(args) + [...]`: the positional arguments followed by further values -/
  | argl (a : A) (extra : List (CV A V))
  | kwargs
  | val (v : V)
  | fn
  /-- the Python list `value` of `list_combiner` (its content lives in the state) -/
  | lst
  | appendFn
  | builtin (n : String)
  | list (vs : List (CV A V))

/-- `mutator(*args, value, **kwargs)`: the model's replace-style mutator takes the pipeline arguments and the previous
value; the list-style one takes the arguments only. The state is the content of the Python list `value`. -/
def cworld (mu : A → Option V → ExceptT String m V) : World (StateT (List V) (ExceptT String m)) (CV A V) where
  none := .none
  bool := .bool
  int := .int
  str := .str
  list := .list
  newList vs := pure (.list vs)
  tuple := .list
  global n := pure (.builtin n)
  truthy
    | .none => pure false
    | .bool b => pure b
    | _ => pure true
  getAttr o a := match o with
    | .lst => if a == "append" then pure .appendFn else throw "AttributeError"
    | _ => throw "AttributeError"
  setAttr _ _ _ := throw "AttributeError"
  call f args kws := match f with
    | .fn => match args, kws with
      | [.args a, .val v], [(_, .kwargs)] => .val <$> (mu a (some v) : ExceptT String m V)
      | [.args a], [(_, .kwargs)] => .val <$> (mu a none : ExceptT String m V)
      | _, _ => throw "TypeError"
    | .builtin n => match args, kws with
      | [.args a], [] => if n == "list" then pure (.argl a []) else throw "TypeError"
      | _, _ => throw "TypeError"
    | .appendFn => match args, kws with
      | [.val c], [] => do modify (· ++ [c]); pure .none
      | _, _ => throw "TypeError"
    | _ => throw "TypeError"
  cmp _ _ _ := throw "TypeError"
  bin op l r := match l, r with
    | .argl a ex, .list vs => if op == "Add" then pure (.argl a (ex ++ vs)) else throw "TypeError"
    | _, _ => throw "TypeError"
  neg _ := throw "TypeError"
  sub _ _ := throw "TypeError"
  slice _ _ := .none
  setItem _ _ _ := throw "TypeError"
  iter _ := throw "TypeError"
  unstar
    | .args a => pure [.args a]
    | .argl a ex => pure (.args a :: ex)
    | _ => throw "TypeError"
  format _ := throw "TypeError"
  concat _ := throw "TypeError"
  dict _ := throw "TypeError"
  whileLoop _ _ _ := throw "Unsupported"
  other _ := throw "Unsupported"
  throw cls := throw cls
  rethrow := throw "reraise"
  catchAll body handler := tryCatch body (fun _ => handler)
  catchCls cls body handler := tryCatch body (fun e => if e == cls then handler else throw e)

/-- `replace_combiner(value, mutator, *args, **kwargs)` calls the mutator once, with the pipeline's arguments followed by
the previous value, and returns what it returns: the model's `replaceCombiner`. -/
theorem replaceCombiner_refines [LawfulMonad m] (mu : A → V → ExceptT String m V) (v : V) (a : A) (st : List V) :
    (Gen.Src.replaceCombiner.run (cworld fun a ov => match ov with | some v => mu a v | none => throw "TypeError")
        [("value", .val v), ("mutator", .fn), ("args", .args a), ("kwargs", .kwargs)]).run st
      = (fun r => (CV.val r, st)) <$> replaceCombiner v mu a := by
  simp [Func.run, Gen.Src.replaceCombiner, evalBlock, evalStmt, evalExpr, evalArgs, evalKws, assignTo, cworld,
    replaceCombiner]

/-- `list_combiner(value, mutator, *args, **kwargs)` calls the mutator once with the pipeline's arguments, appends
what it returns to the list `value` (in place) and returns that same list: the model's `listCombiner`. -/
theorem listCombiner_refines [LawfulMonad m] (mu : A → ExceptT String m V) (a : A) (st : List V) :
    (Gen.Src.listCombiner.run (cworld fun a ov => match ov with | none => mu a | some _ => throw "TypeError")
        [("value", .lst), ("mutator", .fn), ("args", .args a), ("kwargs", .kwargs)]).run st
      = (fun r => (CV.lst, r)) <$> listCombiner st mu a := by
  simp [Func.run, Gen.Src.listCombiner, evalBlock, evalStmt, evalExpr, evalArgs, evalKws, assignTo, cworld,
    listCombiner]

end Viv.Props.C14Src
