import VivModel.Model.Lookup
import VivModel.Model.Util
/-! C15 — lookup tables return each simulant's own row of data.

`digitize_spec`: the bin search. `interp_eq_spec`: on well-formed binned data (`wellFormed`, the
decidable predicate evaluated by the driver on every generated table) the algorithm of the code –
sorted distinct left edges, `digitize`, clamp, left merge on the left edges – returns the unique row
whose bins cover the parameter values, using the nearest edge bin outside the covered range.
`lookup_pointwise` / `result_index`: grouping by key and writing back by label is the same as looking
every simulant up on its own. -/
namespace Viv.Props.C15
open Viv.Lookup

/-! ### digitize -/

theorem digitize_le_length (bins : List Int) (x : Int) : digitize bins x ≤ bins.length :=
  List.length_filter_le _ _

theorem digitize_cons (b : Int) (bs : List Int) (x : Int) :
    digitize (b :: bs) x = (if b ≤ x then 1 else 0) + digitize bs x := by
  unfold digitize
  by_cases h : b ≤ x <;> simp [h] <;> omega

/-- for strictly increasing edges the edges `≤ x` are exactly the first `digitize bins x` ones -/
theorem lt_digitize_iff (bins : List Int) (hs : bins.Pairwise (· < ·)) (x : Int) (j : Nat)
    (hj : j < bins.length) : j < digitize bins x ↔ bins[j] ≤ x := by
  induction bins generalizing j with
  | nil => simp at hj
  | cons b bs ih =>
    rw [List.pairwise_cons] at hs
    rw [digitize_cons]
    by_cases hb : b ≤ x
    · cases j with
      | zero => simp only [hb, if_true, List.getElem_cons_zero, iff_true]; omega
      | succ j =>
        simp only [hb, if_true, List.getElem_cons_succ]
        rw [← ih hs.2 j (by simpa using hj)]
        omega
    · have hall : ∀ c ∈ bs, ¬ c ≤ x := fun c hc => by have := hs.1 c hc; omega
      have hd : digitize bs x = 0 := by
        unfold digitize
        rw [List.filter_eq_nil_iff.mpr]; rfl
        intro c hc; simpa using hall c hc
      simp only [hb, if_false, hd]
      cases j with
      | zero => simp [hb]
      | succ j =>
        simp only [List.getElem_cons_succ]
        have hj' : j < bs.length := by simpa using hj
        have := hall bs[j] (List.getElem_mem hj')
        omega

/-- **digitize_spec**: for sorted distinct (strictly increasing) non-empty left edges, the chosen bin
`i = binIndex bins x` is a valid bin; when `x` is not below the first edge it is THE bin with
`bins[i] ≤ x < bins[i+1]` (left-closed, right-open; the last bin has no right neighbour, so every
`x` at or beyond the last left edge lands there); below the first edge the first bin is used. -/
theorem digitize_spec (bins : List Int) (hs : bins.Pairwise (· < ·)) (hne : bins ≠ []) (x : Int) :
    ∃ hi : binIndex bins x < bins.length,
      (bins[0]'(List.length_pos_iff.mpr hne) ≤ x → bins[binIndex bins x] ≤ x) ∧
      (∀ (h : binIndex bins x + 1 < bins.length), bins[0]'(List.length_pos_iff.mpr hne) ≤ x → x < bins[binIndex bins x + 1]) ∧
      (x < bins[0]'(List.length_pos_iff.mpr hne) → binIndex bins x = 0) := by
  have hpos : 0 < bins.length := List.length_pos_iff.mpr hne
  have hle := digitize_le_length bins x
  have h0 := lt_digitize_iff bins hs x 0 hpos
  have hi : binIndex bins x < bins.length := by unfold binIndex; omega
  refine ⟨hi, ?_, ?_, ?_⟩
  · intro hx
    have hd : 0 < digitize bins x := h0.mpr hx
    exact (lt_digitize_iff bins hs x _ hi).mp (by unfold binIndex; omega)
  · intro h hx
    have hd : 0 < digitize bins x := h0.mpr hx
    have := (lt_digitize_iff bins hs x _ h)
    have hn : ¬ (binIndex bins x + 1 < digitize bins x) := by unfold binIndex; omega
    have := mt this.mpr hn
    omega
  · intro hx
    have : ¬ 0 < digitize bins x := fun h => by have := h0.mp h; omega
    unfold binIndex; omega

/-- … and it is the only such bin: any bin `j` with `bins[j] ≤ x` whose right neighbour (if it has
one) is beyond `x` is the chosen one. -/
theorem digitize_unique (bins : List Int) (hs : bins.Pairwise (· < ·)) (x : Int) (j : Nat)
    (hj : j < bins.length) (h1 : bins[j] ≤ x) (h2 : ∀ (h : j + 1 < bins.length), x < bins[j + 1]) :
    binIndex bins x = j := by
  have a := (lt_digitize_iff bins hs x j hj).mpr h1
  have hle := digitize_le_length bins x
  by_cases h : j + 1 < bins.length
  · have b := lt_digitize_iff bins hs x (j + 1) h
    have := h2 h
    have : ¬ (j + 1 < digitize bins x) := fun hc => by have := b.mp hc; omega
    unfold binIndex; omega
  · unfold binIndex; omega

/-! ### sorted distinct left edges -/

theorem mem_insertSorted (x a : Int) (l : List Int) : a ∈ insertSorted x l ↔ a = x ∨ a ∈ l := by
  induction l with
  | nil => simp [insertSorted]
  | cons y ys ih =>
    unfold insertSorted
    split
    · simp
    · split
      · rename_i h; subst h; simp
      · simp only [List.mem_cons, ih]
        constructor
        · rintro (h | h | h) <;> simp [h]
        · rintro (h | h | h) <;> simp [h]

theorem insertSorted_sorted (x : Int) (l : List Int) (hs : l.Pairwise (· < ·)) :
    (insertSorted x l).Pairwise (· < ·) := by
  induction l with
  | nil => simp [insertSorted]
  | cons y ys ih =>
    rw [List.pairwise_cons] at hs
    unfold insertSorted
    split
    · rename_i h
      rw [List.pairwise_cons]
      refine ⟨?_, List.pairwise_cons.mpr hs⟩
      intro a ha
      rcases List.mem_cons.mp ha with rfl | ha
      · exact h
      · have := hs.1 a ha; omega
    · split
      · exact List.pairwise_cons.mpr hs
      · rename_i h1 h2
        rw [List.pairwise_cons]
        refine ⟨?_, ih hs.2⟩
        intro a ha
        rcases (mem_insertSorted x a ys).mp ha with rfl | ha
        · omega
        · exact hs.1 a ha

theorem mem_sortDedup (a : Int) (xs : List Int) : a ∈ sortDedup xs ↔ a ∈ xs := by
  induction xs with
  | nil => simp [sortDedup]
  | cons x xs ih =>
    have : sortDedup (x :: xs) = insertSorted x (sortDedup xs) := rfl
    rw [this, mem_insertSorted, ih]; simp

theorem sortDedup_sorted (xs : List Int) : (sortDedup xs).Pairwise (· < ·) := by
  induction xs with
  | nil => simp [sortDedup]
  | cons x xs ih => exact insertSorted_sorted x _ ih

theorem strictlySorted_iff (l : List Int) : strictlySorted l = true ↔ l.Pairwise (· < ·) := by
  induction l with
  | nil => simp [strictlySorted]
  | cons a l ih =>
    cases l with
    | nil => simp [strictlySorted]
    | cons b l =>
      simp only [strictlySorted, Bool.and_eq_true, decide_eq_true_eq, ih]
      constructor
      · rintro ⟨hab, hp⟩
        rw [List.pairwise_cons]
        refine ⟨?_, hp⟩
        intro c hc
        rcases List.mem_cons.mp hc with rfl | hc
        · exact hab
        · have := (List.pairwise_cons.mp hp).1 c hc; omega
      · intro hp
        rw [List.pairwise_cons] at hp
        exact ⟨hp.1 b List.mem_cons_self, hp.2⟩

/-- a strictly increasing list is injective in its positions -/
theorem sorted_inj (l : List Int) (hs : l.Pairwise (· < ·)) (i j : Nat) (hi : i < l.length) (hj : j < l.length)
    (h : l[i] = l[j]) : i = j := by
  rw [List.pairwise_iff_getElem] at hs
  rcases Nat.lt_trichotomy i j with hlt | heq | hgt
  · have := hs i j hi hj hlt; omega
  · exact heq
  · have := hs j i hj hi hgt; omega

/-! ### well-formed binned data (one key group) -/

/-- what `wellFormed rows np = true` says -/
structure WF (rows : List Row) (np : Nat) : Prop where
  nonempty : rows ≠ []
  pos : 0 < np
  sorted : ∀ p, p < np → (edges rows p).Pairwise (· < ·)
  lens : ∀ r ∈ rows, r.starts.length = np ∧ r.ends.length = np
  onGrid : ∀ r ∈ rows, ∀ p, p < np → ∃ i, ∃ h : i + 1 < (edges rows p).length,
    (edges rows p)[i] = r.start p ∧ (edges rows p)[i + 1] = r.stop p
  complete : ∀ ss ∈ cartesian ((List.range np).map (leftEdges rows)), ∃ r ∈ rows, r.starts = ss
  distinct : (rows.map (·.starts)).Nodup

theorem rowOnGrid_iff (E : List Int) (s e : Int) :
    rowOnGrid E s e = true ↔ ∃ i, ∃ h : i + 1 < E.length, E[i] = s ∧ E[i + 1] = e := by
  unfold rowOnGrid
  simp only [List.any_eq_true, List.mem_range, Bool.and_eq_true, beq_iff_eq]
  constructor
  · rintro ⟨i, hi, h1, h2⟩
    have hlt : i + 1 < E.length := by omega
    refine ⟨i, hlt, ?_, ?_⟩
    · rw [List.getElem?_eq_getElem (by omega)] at h1; exact Option.some.inj h1
    · rw [List.getElem?_eq_getElem hlt] at h2; exact Option.some.inj h2
  · rintro ⟨i, h, h1, h2⟩
    refine ⟨i, by omega, ?_, ?_⟩
    · rw [List.getElem?_eq_getElem (by omega), h1]
    · rw [List.getElem?_eq_getElem h, h2]

/-- the decidable check the driver evaluates is the hypothesis of the theorems below -/
theorem wf_of_wellFormed (rows : List Row) (np : Nat) (h : wellFormed rows np = true) : WF rows np := by
  unfold wellFormed at h
  simp only [Bool.and_eq_true, Bool.not_eq_true', List.isEmpty_eq_false_iff, decide_eq_true_eq, List.all_eq_true,
    List.mem_range, beq_iff_eq, List.any_eq_true] at h
  obtain ⟨⟨⟨⟨⟨h1, h2⟩, h3⟩, h4⟩, h5⟩, h6⟩ := h
  refine ⟨h1, h2, fun p hp => (strictlySorted_iff _).mp (h3 p hp), fun r hr => ⟨(h4 r hr).1.1, (h4 r hr).1.2⟩,
    fun r hr p hp => (rowOnGrid_iff _ _ _).mp ((h4 r hr).2 p hp), ?_, h6⟩
  intro ss hss
  obtain ⟨r, hr, he⟩ := h5 ss hss
  exact ⟨r, hr, he⟩

theorem maxOf_isSome (l : List Int) (h : l ≠ []) : ∃ m, maxOf l = some m := by
  cases l with
  | nil => exact absurd rfl h
  | cons x xs => exact ⟨_, rfl⟩

theorem edges_eq (rows : List Row) (p : Nat) (h : rows ≠ []) :
    ∃ hi, maxRight rows p = some hi ∧ edges rows p = leftEdges rows p ++ [hi] := by
  obtain ⟨m, hm⟩ := maxOf_isSome (rows.map (·.stop p)) (by simpa using h)
  exact ⟨m, hm, by simp [edges, maxRight, hm]⟩

theorem leftEdges_sorted (rows : List Row) (p : Nat) : (leftEdges rows p).Pairwise (· < ·) :=
  sortDedup_sorted _

theorem start_mem_leftEdges (rows : List Row) (p : Nat) (r : Row) (hr : r ∈ rows) :
    r.start p ∈ leftEdges rows p := (mem_sortDedup _ _).mpr (List.mem_map.mpr ⟨r, hr, rfl⟩)

theorem leftEdges_ne_nil (rows : List Row) (p : Nat) (h : rows ≠ []) : leftEdges rows p ≠ [] := by
  cases rows with
  | nil => exact absurd rfl h
  | cons r rs => exact List.ne_nil_of_mem (start_mem_leftEdges (r :: rs) p r List.mem_cons_self)

theorem mapM_option_some {α β : Type} (f : α → Option β) (g : α → β) (l : List α)
    (h : ∀ a ∈ l, f a = some (g a)) : l.mapM f = some (l.map g) := by
  induction l with
  | nil => rfl
  | cons a l ih =>
    rw [List.mapM_cons, h a List.mem_cons_self, ih (fun b hb => h b (List.mem_cons_of_mem _ hb))]
    rfl

theorem map_mem_cartesian (l : List Nat) (g : Nat → Int) (F : Nat → List Int) (h : ∀ p ∈ l, g p ∈ F p) :
    l.map g ∈ cartesian (l.map F) := by
  induction l with
  | nil => simp [cartesian]
  | cons a l ih =>
    simp only [List.map_cons, cartesian, List.mem_flatMap, List.mem_map]
    exact ⟨g a, h a List.mem_cons_self, l.map g, ih (fun p hp => h p (List.mem_cons_of_mem _ hp)), rfl⟩

theorem eq_map_range (l : List Int) (n : Nat) (h : l.length = n) :
    l = (List.range n).map (fun p => l.getD p 0) := by
  apply List.ext_getElem
  · simp [h]
  · intro i h1 h2
    simp only [List.getElem_map, List.getElem_range, List.getD_eq_getElem?_getD]
    rw [List.getElem?_eq_getElem h1]; rfl

theorem nodup_map_inj {α β : Type} (f : α → β) (l : List α) (h : (l.map f).Nodup) (a b : α)
    (ha : a ∈ l) (hb : b ∈ l) (hab : f a = f b) : a = b := by
  induction l with
  | nil => cases ha
  | cons x l ih =>
    rw [List.map_cons, List.nodup_cons] at h
    rcases List.mem_cons.mp ha with rfl | ha' <;> rcases List.mem_cons.mp hb with rfl | hb'
    · rfl
    · exact absurd (List.mem_map.mpr ⟨b, hb', hab.symm⟩) h.1
    · exact absurd (List.mem_map.mpr ⟨a, ha', hab⟩) h.1
    · exact ih h.2 ha' hb'

/-- the value `x` of parameter `p` is covered by row `r`: inside the row's half-open bin, or below the
whole covered range with `r` in the first bin, or at / beyond its end with `r` in the last bin
(extrapolation to the nearest edge bin). -/
def Covers (rows : List Row) (r : Row) (p : Nat) (x : Int) : Prop :=
  (r.start p ≤ x ∧ x < r.stop p) ∨
  (∃ lo, (leftEdges rows p).head? = some lo ∧ x < lo ∧ r.start p = lo) ∨
  (∃ hi, maxRight rows p = some hi ∧ hi ≤ x ∧ r.stop p = hi)

/-- the bin index the code computes for parameter `p` -/
def idx (rows : List Row) (p : Nat) (x : Int) : Nat := binIndex (leftEdges rows p) x

theorem idx_lt (rows : List Row) (p : Nat) (x : Int) (h : rows ≠ []) :
    idx rows p x < (leftEdges rows p).length :=
  (digitize_spec _ (leftEdges_sorted rows p) (leftEdges_ne_nil rows p h) x).1

theorem chosenStarts_eq (rows : List Row) (np : Nat) (xs : List Int) (hne : rows ≠ []) (hx : xs.length = np) :
    chosenStarts rows np xs
      = some ((List.range np).map fun p => (leftEdges rows p).getD (idx rows p (xs.getD p 0)) 0) := by
  unfold chosenStarts
  apply mapM_option_some
  intro p hp
  have hp' : p < xs.length := by rw [hx]; exact List.mem_range.mp hp
  have hx0 : xs.getD p 0 = xs[p] := by rw [List.getD_eq_getElem?_getD, List.getElem?_eq_getElem hp']; rfl
  rw [List.getElem?_eq_getElem hp', Option.bind_some, hx0]
  unfold chosenStart
  have := idx_lt rows p xs[p] hne
  unfold idx at this ⊢
  rw [List.getElem?_eq_getElem this, List.getD_eq_getElem?_getD, List.getElem?_eq_getElem this]; rfl

/-- facts about one row of well-formed data and one parameter -/
theorem row_bin (rows : List Row) (np : Nat) (hwf : WF rows np) (r : Row) (hr : r ∈ rows) (p : Nat) (hp : p < np) :
    ∃ hi, maxRight rows p = some hi ∧ edges rows p = leftEdges rows p ++ [hi] ∧
      ∃ j, ∃ hj : j < (leftEdges rows p).length, (leftEdges rows p)[j] = r.start p ∧
        ((∃ h : j + 1 < (leftEdges rows p).length, (leftEdges rows p)[j + 1] = r.stop p) ∨
         (j + 1 = (leftEdges rows p).length ∧ r.stop p = hi)) ∧ r.start p < r.stop p := by
  obtain ⟨hi, hm, he⟩ := edges_eq rows p hwf.nonempty
  obtain ⟨j, hj, h1, h2⟩ := hwf.onGrid r hr p hp
  have hs := hwf.sorted p hp
  refine ⟨hi, hm, he, j, ?_⟩
  have hlen : (edges rows p).length = (leftEdges rows p).length + 1 := by rw [he]; simp
  have hj' : j < (leftEdges rows p).length := by omega
  have e1 : (edges rows p)[j]'(by omega) = (leftEdges rows p)[j] := by
    simp only [he]; exact List.getElem_append_left hj'
  have hlt : (edges rows p)[j]'(by omega) < (edges rows p)[j + 1] :=
    (List.pairwise_iff_getElem.mp hs) j (j + 1) (by omega) hj (by omega)
  refine ⟨hj', by rw [← e1, h1], ?_, by rw [← h1, ← h2]; exact hlt⟩
  by_cases hh : j + 1 < (leftEdges rows p).length
  · left
    refine ⟨hh, ?_⟩
    rw [← h2]; simp only [he]; exact (List.getElem_append_left hh).symm
  · right
    refine ⟨by omega, ?_⟩
    rw [← h2]; simp only [he]
    rw [List.getElem_append_right (by omega)]
    simp

/-- in well-formed data, the row whose left edge for `p` is the chosen bin covers `x` -/
theorem covers_of_start (rows : List Row) (np : Nat) (hwf : WF rows np) (r : Row) (hr : r ∈ rows)
    (p : Nat) (hp : p < np) (x : Int)
    (hs : r.start p = (leftEdges rows p)[idx rows p x]'(idx_lt rows p x hwf.nonempty)) :
    Covers rows r p x := by
  obtain ⟨hi, hm, he, j, hj, hj1, hj2, hlt⟩ := row_bin rows np hwf r hr p hp
  have hsort := leftEdges_sorted rows p
  have hne := leftEdges_ne_nil rows p hwf.nonempty
  have hji : j = idx rows p x := sorted_inj _ hsort j _ hj (idx_lt rows p x hwf.nonempty) (by rw [hj1, hs])
  obtain ⟨hlt', d1, d2, d3⟩ := digitize_spec _ hsort hne x
  have hpos : 0 < (leftEdges rows p).length := List.length_pos_iff.mpr hne
  have hhead : (leftEdges rows p).head? = some ((leftEdges rows p)[0]) := by
    rw [List.head?_eq_getElem?, List.getElem?_eq_getElem hpos]
  by_cases hx : (leftEdges rows p)[0] ≤ x
  · have hle : r.start p ≤ x := by rw [hs]; exact d1 hx
    rcases hj2 with ⟨h, hstop⟩ | ⟨hlast, hstop⟩
    · left
      refine ⟨hle, ?_⟩
      rw [← hstop]
      have := d2 (by unfold idx at hji; omega) hx
      simp only [idx] at hji
      subst hji
      exact this
    · by_cases hxh : x < hi
      · left; exact ⟨hle, by rw [hstop]; exact hxh⟩
      · right; right; exact ⟨hi, hm, by omega, hstop⟩
  · right; left
    refine ⟨_, hhead, by omega, ?_⟩
    have h0 := d3 (by omega)
    rw [hs]
    simp only [idx, h0]

/-- in well-formed data, a row that covers `x` for parameter `p` starts at the chosen bin -/
theorem start_of_covers (rows : List Row) (np : Nat) (hwf : WF rows np) (r : Row) (hr : r ∈ rows)
    (p : Nat) (hp : p < np) (x : Int) (hc : Covers rows r p x) :
    r.start p = (leftEdges rows p)[idx rows p x]'(idx_lt rows p x hwf.nonempty) := by
  obtain ⟨hi, hm, he, j, hj, hj1, hj2, hlt⟩ := row_bin rows np hwf r hr p hp
  have hsort := leftEdges_sorted rows p
  have hne := leftEdges_ne_nil rows p hwf.nonempty
  have hpos : 0 < (leftEdges rows p).length := List.length_pos_iff.mpr hne
  suffices hji : idx rows p x = j by
    rw [← hj1]; simp only [hji]
  unfold idx
  rcases hc with ⟨c1, c2⟩ | ⟨lo, hlo, c1, c2⟩ | ⟨hi', hhi, c1, c2⟩
  · apply digitize_unique _ hsort x j hj (by rw [hj1]; exact c1)
    intro h
    rcases hj2 with ⟨_, hstop⟩ | ⟨hlast, _⟩
    · rw [hstop]; exact c2
    · omega
  · rw [List.head?_eq_getElem?, List.getElem?_eq_getElem hpos] at hlo
    have hlo' : (leftEdges rows p)[0] = lo := Option.some.inj hlo
    have hj0 : j = 0 := sorted_inj _ hsort j 0 hj hpos (by rw [hj1, c2, hlo'])
    obtain ⟨_, _, _, d3⟩ := digitize_spec _ hsort hne x
    rw [hj0]; exact d3 (by omega)
  · have hh : hi' = hi := by rw [hm] at hhi; exact (Option.some.inj hhi).symm
    subst hh
    rcases hj2 with ⟨h, hstop⟩ | ⟨hlast, hstop⟩
    · -- the row's right edge is an inner left edge, yet equals the largest right edge: impossible
      exfalso
      have hs := hwf.sorted p hp
      have hlen : (edges rows p).length = (leftEdges rows p).length + 1 := by rw [he]; simp
      have e1 : (edges rows p)[j + 1]'(by omega) = (leftEdges rows p)[j + 1] := by
        simp only [he]; exact List.getElem_append_left h
      have e2 : (edges rows p)[(leftEdges rows p).length]'(by omega) = hi' := by
        simp only [he]; rw [List.getElem_append_right (by omega)]; simp
      have := (List.pairwise_iff_getElem.mp hs) (j + 1) (leftEdges rows p).length (by omega) (by omega) h
      rw [e1, e2, hstop, c2] at this
      omega
    · apply digitize_unique _ hsort x j hj (by rw [hj1]; omega)
      intro h; omega

/-- **interp_eq_spec**: on well-formed binned data (complete cartesian grid of contiguous bins) the
algorithm of `Order0Interp.__call__` – `digitize` against the sorted distinct left edges, clamp, left
merge on the left edges – returns, for every vector of parameter values, a data row that covers every
parameter value, and that row is the only one that does. -/
theorem interp_eq_spec (rows : List Row) (np : Nat) (hwf : WF rows np) (xs : List Int) (hx : xs.length = np) :
    ∃ r, interpRow rows np xs = some r ∧ r ∈ rows ∧
      (∀ p, p < np → Covers rows r p (xs.getD p 0)) ∧
      (∀ r' ∈ rows, (∀ p, p < np → Covers rows r' p (xs.getD p 0)) → r' = r) := by
  -- the chosen left edges
  let c : Nat → Int := fun p => (leftEdges rows p).getD (idx rows p (xs.getD p 0)) 0
  have hc : ∀ p, c p = (leftEdges rows p)[idx rows p (xs.getD p 0)]'(idx_lt rows p _ hwf.nonempty) := by
    intro p
    simp only [c, List.getD_eq_getElem?_getD]
    rw [List.getElem?_eq_getElem (idx_lt rows p _ hwf.nonempty)]; rfl
  have hchosen := chosenStarts_eq rows np xs hwf.nonempty hx
  -- they form a combination of bins, for which complete data has a row
  have hmem : (List.range np).map c ∈ cartesian ((List.range np).map (leftEdges rows)) :=
    map_mem_cartesian _ c _ (fun p _ => by rw [hc p]; exact List.getElem_mem _)
  obtain ⟨r1, hr1, hs1⟩ := hwf.complete _ hmem
  -- so the left merge finds a row with exactly these left edges
  have hfind : ∃ r, leftMerge rows ((List.range np).map c) = some r := by
    unfold leftMerge
    cases hf : rows.find? (fun r => r.starts == (List.range np).map c) with
    | some r => exact ⟨r, rfl⟩
    | none =>
      have := (List.find?_eq_none.mp hf) r1 hr1
      simp [hs1] at this
  obtain ⟨r, hr⟩ := hfind
  have hrmem : r ∈ rows := List.mem_of_find?_eq_some hr
  have hrs : r.starts = (List.range np).map c := by
    have := List.find?_some hr; simpa using this
  have hstart : ∀ (q : Row), q.starts = (List.range np).map c → ∀ p, p < np → q.start p = c p := by
    intro q hq p hp
    unfold Row.start
    rw [hq, List.getD_eq_getElem?_getD, List.getElem?_eq_getElem (by simpa using hp)]
    simp
  refine ⟨r, ?_, hrmem, ?_, ?_⟩
  · unfold interpRow; rw [hchosen]; exact hr
  · intro p hp
    exact covers_of_start rows np hwf r hrmem p hp _ (by rw [hstart r hrs p hp, hc p])
  · intro r' hr' hcov
    apply nodup_map_inj (·.starts) rows hwf.distinct r' r hr' hrmem
    rw [hrs, eq_map_range r'.starts np (hwf.lens r' hr').1]
    apply List.map_congr_left
    intro p hp
    have hp' := List.mem_range.mp hp
    have := start_of_covers rows np hwf r' hr' p hp' _ (hcov p hp')
    rw [← hc p] at this
    exact this

/-- **extrapolate_nearest**: below the covered range the selected row is in the first bin, at or beyond
its end in the last bin, and inside the range the row's half-open bin contains the value. -/
theorem extrapolate_nearest (rows : List Row) (np : Nat) (hwf : WF rows np) (xs : List Int) (hx : xs.length = np)
    (r : Row) (hr : interpRow rows np xs = some r) (p : Nat) (hp : p < np) (lo hi : Int)
    (hlo : (leftEdges rows p).head? = some lo) (hhi : maxRight rows p = some hi) :
    (xs.getD p 0 < lo → r.start p = lo) ∧ (hi ≤ xs.getD p 0 → r.stop p = hi) ∧
    (lo ≤ xs.getD p 0 → xs.getD p 0 < hi → r.start p ≤ xs.getD p 0 ∧ xs.getD p 0 < r.stop p) := by
  obtain ⟨r0, h0, hmem, hcov, _⟩ := interp_eq_spec rows np hwf xs hx
  rw [hr] at h0; cases h0
  obtain ⟨hi', hm, he, j, hj, hj1, hj2, hlt⟩ := row_bin rows np hwf r hmem p hp
  have hhi' : hi' = hi := by rw [hm] at hhi; exact Option.some.inj hhi
  subst hhi'
  have hsort := leftEdges_sorted rows p
  have hpos : 0 < (leftEdges rows p).length := List.length_pos_iff.mpr (leftEdges_ne_nil rows p hwf.nonempty)
  rw [List.head?_eq_getElem?, List.getElem?_eq_getElem hpos] at hlo
  have hlo' : (leftEdges rows p)[0] = lo := Option.some.inj hlo
  -- every left edge is ≥ lo, every right edge ≤ hi
  have hge : lo ≤ r.start p := by
    rw [← hj1, ← hlo']
    rcases Nat.eq_zero_or_pos j with h | h
    · subst h; omega
    · have := (List.pairwise_iff_getElem.mp hsort) 0 j hpos hj h; omega
  have hle : r.stop p ≤ hi' := by
    rcases hj2 with ⟨h, hstop⟩ | ⟨_, hstop⟩
    · have hs := hwf.sorted p hp
      have hlen : (edges rows p).length = (leftEdges rows p).length + 1 := by rw [he]; simp
      have e1 : (edges rows p)[j + 1]'(by omega) = (leftEdges rows p)[j + 1] := by
        simp only [he]; exact List.getElem_append_left h
      have e2 : (edges rows p)[(leftEdges rows p).length]'(by omega) = hi' := by
        simp only [he]; rw [List.getElem_append_right (by omega)]; simp
      have := (List.pairwise_iff_getElem.mp hs) (j + 1) (leftEdges rows p).length (by omega) (by omega) h
      rw [e1, e2, hstop] at this; omega
    · omega
  rcases hcov p hp with ⟨c1, c2⟩ | ⟨lo', hl, c1, c2⟩ | ⟨hi'', hh, c1, c2⟩
  · refine ⟨fun h => by omega, fun h => by omega, fun _ _ => ⟨c1, c2⟩⟩
  · rw [List.head?_eq_getElem?, List.getElem?_eq_getElem hpos] at hl
    have : lo' = lo := by rw [← hlo']; exact (Option.some.inj hl).symm
    subst this
    exact ⟨fun _ => c2, fun h => by omega, fun h _ => by omega⟩
  · have : hi'' = hi' := by rw [hm] at hh; exact (Option.some.inj hh).symm
    subst this
    exact ⟨fun h => by omega, fun _ => c2, fun _ h => by omega⟩

/-! ### whole requests: grouping by key, the extrapolation guard, writing back by label -/

theorem foldlM_guard {β κ : Type} (bad : κ → Option Err) (g : β → κ → β) (l : List κ) (init : β) :
    l.foldlM (fun b k => match bad k with
        | some e => (Except.error e : Except Err β)
        | none => .ok (g b k)) init
      = match l.findSome? bad with
        | some e => .error e
        | none => .ok (l.foldl g init) := by
  induction l generalizing init with
  | nil => rfl
  | cons k l ih =>
    rw [List.foldlM_cons, List.findSome?_cons]
    cases hb : bad k with
    | some e => rfl
    | none => simp only [List.foldl_cons]; exact ih _

/-- the keys of the request, as `groupby` enumerates them -/
def reqKeys (req : List Req) : List (List String) := (req.map (·.keys)).eraseDups

theorem mem_reqKeys (req : List Req) (r : Req) (h : r ∈ req) : r.keys ∈ reqKeys req :=
  List.mem_eraseDups.mpr (List.mem_map.mpr ⟨r, h, rfl⟩)

theorem of_mem_reqKeys (req : List Req) (k : List String) (h : k ∈ reqKeys req) : ∃ r ∈ req, r.keys = k := by
  obtain ⟨r, hr, he⟩ := List.mem_map.mp (List.mem_eraseDups.mp h)
  exact ⟨r, hr, he⟩

theorem interpolate_eq (t : Table) (req : List Req) :
    t.interpolate req = match (reqKeys req).findSome? (t.groupCheck req) with
      | some e => .error e
      | none => .ok ((reqKeys req).foldl (t.groupFill req) (req.map fun r => (r.label, none))) :=
  foldlM_guard _ _ _ _

theorem categorical_eq (t : Table) (req : List Req) :
    t.categorical req = match (reqKeys req).findSome? t.catCheck with
      | some e => .error e
      | none => .ok ((reqKeys req).foldl (t.catFill req) (req.map fun r => (r.label, none))) :=
  foldlM_guard _ _ _ _

theorem outsideAny_iff (rows : List Row) (np : Nat) (xs : List Int) (hx : xs.length = np) :
    outsideAny rows np xs = true ↔
      ∃ p, p < np ∧ ∃ lo hi, (leftEdges rows p).head? = some lo ∧ maxRight rows p = some hi ∧
        (xs.getD p 0 < lo ∨ hi ≤ xs.getD p 0) := by
  unfold outsideAny
  simp only [List.any_eq_true, List.mem_range]
  constructor
  · rintro ⟨p, hp, h⟩
    have hp' : p < xs.length := by omega
    rw [List.getElem?_eq_getElem hp'] at h
    refine ⟨p, hp, ?_⟩
    have hx0 : xs.getD p 0 = xs[p] := by rw [List.getD_eq_getElem?_getD, List.getElem?_eq_getElem hp']; rfl
    simp only [outside] at h
    split at h
    · rename_i lo hi h1 h2
      refine ⟨lo, hi, h1, h2, ?_⟩
      rw [hx0]; simpa using h
    · cases h
  · rintro ⟨p, hp, lo, hi, h1, h2, h3⟩
    have hp' : p < xs.length := by omega
    have hx0 : xs.getD p 0 = xs[p] := by rw [List.getD_eq_getElem?_getD, List.getElem?_eq_getElem hp']; rfl
    refine ⟨p, hp, ?_⟩
    rw [List.getElem?_eq_getElem hp']
    simp only [outside, h1, h2]
    rw [hx0] at h3; simpa using h3

/-- **no_extrapolate_reject_iff**: with extrapolation off (and every requested key combination present
in the data) the call is rejected – with the extrapolation error and no other – exactly when some
requested simulant has some parameter value outside `[first start, last end)` of its key group. -/
theorem no_extrapolate_reject_iff (t : Table) (req : List Req) (hext : t.extrapolate = false)
    (hkeys : ∀ r ∈ req, groupRows t.rows r.keys ≠ []) (hlen : ∀ r ∈ req, r.xs.length = t.np) :
    ((∃ e, t.interpolate req = .error e) ↔
      ∃ r ∈ req, ∃ p, p < t.np ∧ ∃ lo hi, (leftEdges (groupRows t.rows r.keys) p).head? = some lo ∧
        maxRight (groupRows t.rows r.keys) p = some hi ∧ (r.xs.getD p 0 < lo ∨ hi ≤ r.xs.getD p 0)) ∧
    (∀ e, t.interpolate req = .error e → e = .extrapolation) := by
  have hcheck : ∀ k ∈ reqKeys req, ∀ e, t.groupCheck req k = some e →
      e = .extrapolation ∧ ∃ r ∈ req, r.keys = k ∧ outsideAny (groupRows t.rows k) t.np r.xs = true := by
    intro k hk e he
    obtain ⟨r0, hr0, hk0⟩ := of_mem_reqKeys req k hk
    have hne : (groupRows t.rows k).isEmpty = false := by
      have := hkeys r0 hr0; rw [hk0] at this; simpa using this
    unfold Table.groupCheck at he
    rw [hne] at he
    simp only [Bool.false_eq_true, if_false, hext, Bool.not_false, Bool.true_and] at he
    split at he
    · rename_i h
      obtain ⟨r, hr, ho⟩ := List.any_eq_true.mp h
      obtain ⟨hr1, hr2⟩ := List.mem_filter.mp hr
      exact ⟨(Option.some.inj he).symm, r, hr1, by simpa using hr2, ho⟩
    · cases he
  constructor
  · rw [interpolate_eq]
    constructor
    · rintro ⟨e, he⟩
      cases hf : (reqKeys req).findSome? (t.groupCheck req) with
      | none => rw [hf] at he; cases he
      | some e' =>
        obtain ⟨k, hk, hke⟩ := List.exists_of_findSome?_eq_some hf
        obtain ⟨_, r, hr, hrk, ho⟩ := hcheck k hk e' hke
        subst hrk
        exact ⟨r, hr, (outsideAny_iff _ _ _ (hlen r hr)).mp ho⟩
    · rintro ⟨r, hr, hout⟩
      have ho := (outsideAny_iff _ _ _ (hlen r hr)).mpr hout
      cases hf : (reqKeys req).findSome? (t.groupCheck req) with
      | some e' => exact ⟨e', rfl⟩
      | none =>
        exfalso
        have := (List.findSome?_eq_none_iff.mp hf) r.keys (mem_reqKeys req r hr)
        have hne : (groupRows t.rows r.keys).isEmpty = false := by simpa using hkeys r hr
        unfold Table.groupCheck at this
        rw [hne] at this
        simp only [Bool.false_eq_true, if_false, hext, Bool.not_false, Bool.true_and] at this
        split at this
        · cases this
        · rename_i hn
          apply hn
          exact List.any_eq_true.mpr ⟨r, List.mem_filter.mpr ⟨hr, by simp⟩, ho⟩
  · intro e he
    rw [interpolate_eq] at he
    cases hf : (reqKeys req).findSome? (t.groupCheck req) with
    | none => rw [hf] at he; cases he
    | some e' =>
      rw [hf] at he
      obtain ⟨k, hk, hke⟩ := List.exists_of_findSome?_eq_some hf
      have := (hcheck k hk e' hke).1
      cases he; exact this

/-- with extrapolation on, no parameter value is ever rejected -/
theorem extrapolate_never_rejects (t : Table) (req : List Req) (hext : t.extrapolate = true)
    (hkeys : ∀ r ∈ req, groupRows t.rows r.keys ≠ []) : ∃ res, t.interpolate req = .ok res := by
  rw [interpolate_eq]
  cases hf : (reqKeys req).findSome? (t.groupCheck req) with
  | none => exact ⟨_, rfl⟩
  | some e =>
    exfalso
    obtain ⟨k, hk, hke⟩ := List.exists_of_findSome?_eq_some hf
    obtain ⟨r0, hr0, hk0⟩ := of_mem_reqKeys req k hk
    have hne : (groupRows t.rows k).isEmpty = false := by
      have := hkeys r0 hr0; rw [hk0] at this; simpa using this
    unfold Table.groupCheck at hke
    rw [hne, hext] at hke
    simp at hke

/-- a key combination without data rejects the call (`KeyError`) -/
theorem unknown_key_rejected (t : Table) (req : List Req) (r : Req) (hr : r ∈ req)
    (h : groupRows t.rows r.keys = []) : ∃ e, t.interpolate req = .error e := by
  rw [interpolate_eq]
  cases hf : (reqKeys req).findSome? (t.groupCheck req) with
  | some e => exact ⟨e, rfl⟩
  | none =>
    exfalso
    have := (List.findSome?_eq_none_iff.mp hf) r.keys (mem_reqKeys req r hr)
    unfold Table.groupCheck at this
    rw [h] at this
    simp at this

/-- per-group fill with an arbitrary per-simulant function (instances: `groupFill`, `catFill`) -/
def fillWith (F : List String → Req → Cells) (req : List Req) (res : List (Nat × Cells)) (k : List String) :
    List (Nat × Cells) :=
  scatter res ((req.filter (·.keys == k)).map fun r => (r.label, F k r))

theorem lookup_map_label (sub : List Req) (f : Req → Cells) (l : Nat) :
    (sub.map fun r => (r.label, f r)).lookup l = (sub.find? (fun r => l == r.label)).map f := by
  induction sub with
  | nil => rfl
  | cons r sub ih =>
    simp only [List.map_cons, List.lookup_cons, List.find?_cons]
    cases h : l == r.label <;> simp [ih]

/-- labels identify simulants: two entries of a request with the same label are the same entry (they
are read from the same row of the state table) -/
def Consistent (req : List Req) : Prop := ∀ r ∈ req, ∀ r' ∈ req, r.label = r'.label → r = r'

def partialRes (F : List String → Req → Cells) (req : List Req) (K : List (List String)) : List (Nat × Cells) :=
  req.map fun r => (r.label, if r.keys ∈ K then F r.keys r else none)

theorem fillWith_partial (F : List String → Req → Cells) (req : List Req) (hc : Consistent req)
    (K : List (List String)) (k : List String) :
    fillWith F req (partialRes F req K) k = partialRes F req (K ++ [k]) := by
  unfold fillWith scatter partialRes
  rw [List.map_map]
  apply List.map_congr_left
  intro r hr
  simp only [Function.comp]
  rw [lookup_map_label]
  by_cases hk : r.keys = k
  · have hmem : r ∈ req.filter (·.keys == k) := List.mem_filter.mpr ⟨hr, by simp [hk]⟩
    cases hf : (req.filter (·.keys == k)).find? (fun q => r.label == q.label) with
    | none =>
      have := (List.find?_eq_none.mp hf) r hmem
      simp at this
    | some r' =>
      have h1 : r' ∈ req := (List.mem_filter.mp (List.mem_of_find?_eq_some hf)).1
      have h2 : r.label = r'.label := by simpa using List.find?_some hf
      have : r' = r := (hc r hr r' h1 h2).symm
      subst this
      simp [hk]
  · cases hf : (req.filter (·.keys == k)).find? (fun q => r.label == q.label) with
    | none => simp [hk]
    | some r' =>
      exfalso
      have hm := List.mem_filter.mp (List.mem_of_find?_eq_some hf)
      have h2 : r.label = r'.label := by simpa using List.find?_some hf
      have : r' = r := (hc r hr r' hm.1 h2).symm
      subst this
      exact hk (by simpa using hm.2)

theorem foldl_fillWith (F : List String → Req → Cells) (req : List Req) (hc : Consistent req)
    (K ks : List (List String)) :
    ks.foldl (fillWith F req) (partialRes F req K) = partialRes F req (K ++ ks) := by
  induction ks generalizing K with
  | nil => simp
  | cons k ks ih =>
    rw [List.foldl_cons, fillWith_partial F req hc, ih]
    simp

theorem fill_all (F : List String → Req → Cells) (req : List Req) (hc : Consistent req) :
    (reqKeys req).foldl (fillWith F req) (req.map fun r => (r.label, none))
      = req.map fun r => (r.label, F r.keys r) := by
  have h0 : (req.map fun r => (r.label, (none : Cells))) = partialRes F req [] := by
    simp [partialRes]
  rw [h0, foldl_fillWith F req hc]
  unfold partialRes
  apply List.map_congr_left
  intro r hr
  simp [mem_reqKeys req r hr]

/-- **lookup_pointwise**: an accepted call returns, for every requested simulant, exactly what looking
that simulant up on its own returns – its value does not depend on who else was requested, on the
order of the request or on the grouping – and **result_index**: the result is indexed exactly like the
request (same labels, same order, repeats included). -/
theorem lookup_pointwise (t : Table) (req : List Req) (res : List (Nat × Cells)) (hc : Consistent req)
    (h : t.interpolate req = .ok res) :
    res = req.map fun r => (r.label, interpOne (groupRows t.rows r.keys) t.np r.xs) := by
  rw [interpolate_eq] at h
  cases hf : (reqKeys req).findSome? (t.groupCheck req) with
  | some e => rw [hf] at h; cases h
  | none =>
    rw [hf] at h
    have := fill_all (fun k r => interpOne (groupRows t.rows k) t.np r.xs) req hc
    cases h
    exact this

/-- every requested label is present, in request order, once per occurrence – the result is never shorter
than the request. Tracked status does not occur in the model (see `Req`), so this covers untracked
simulants in the request. -/
theorem result_index (t : Table) (req : List Req) (res : List (Nat × Cells)) (hc : Consistent req)
    (h : t.interpolate req = .ok res) : res.map (·.1) = req.map (·.label) := by
  rw [lookup_pointwise t req res hc h, List.map_map]; rfl

/-- reads have no memory: the model's read is a function of the table, the clock and the CURRENT
attributes of the requested simulants only – no earlier read, no attribute of a simulant outside the
request, no other table enters. In particular a simulant covered by two accepted reads (the same read
repeated, a sub-index, a permutation, another caller) whose attributes did not change in between
receives the same cells in both. -/
theorem read_covered (t : Table) (req req' : List Req) (res res' : List (Nat × Cells))
    (hc : Consistent req) (hc' : Consistent req')
    (h : t.interpolate req = .ok res) (h' : t.interpolate req' = .ok res') (r : Req) (hr : r ∈ req) (hr' : r ∈ req') :
    ∃ cells, (r.label, cells) ∈ res ∧ (r.label, cells) ∈ res' := by
  refine ⟨interpOne (groupRows t.rows r.keys) t.np r.xs, ?_, ?_⟩
  · rw [lookup_pointwise t req res hc h]; exact List.mem_map.mpr ⟨r, hr, rfl⟩
  · rw [lookup_pointwise t req' res' hc' h']; exact List.mem_map.mpr ⟨r, hr', rfl⟩

/-- the whole property for binned tables: in an accepted call on a well-formed table every requested
simulant receives the value cells of THE data row whose key columns equal its attributes and whose
bins cover its parameter values. -/
theorem lookup_spec (t : Table) (req : List Req) (res : List (Nat × Cells)) (hc : Consistent req)
    (hwf : ∀ k, groupRows t.rows k ≠ [] → WF (groupRows t.rows k) t.np)
    (hlen : ∀ r ∈ req, r.xs.length = t.np)
    (h : t.interpolate req = .ok res) (r : Req) (hr : r ∈ req) :
    ∃ row ∈ t.rows, row.keys = r.keys ∧ (∀ p, p < t.np → Covers (groupRows t.rows r.keys) row p (r.xs.getD p 0)) ∧
      (r.label, some row.vals) ∈ res ∧
      (∀ row' ∈ t.rows, row'.keys = r.keys →
        (∀ p, p < t.np → Covers (groupRows t.rows r.keys) row' p (r.xs.getD p 0)) → row' = row) := by
  have hne : groupRows t.rows r.keys ≠ [] := by
    intro hempty
    obtain ⟨e, he⟩ := unknown_key_rejected t req r hr hempty
    rw [he] at h; cases h
  obtain ⟨row, h1, h2, h3, h4⟩ := interp_eq_spec _ _ (hwf _ hne) r.xs (hlen r hr)
  have hm := List.mem_filter.mp h2
  refine ⟨row, hm.1, by simpa using hm.2, h3, ?_, ?_⟩
  · rw [lookup_pointwise t req res hc h]
    exact List.mem_map.mpr ⟨r, hr, by simp [interpOne, h1]⟩
  · intro row' hr' hk' hcov
    exact h4 row' (List.mem_filter.mpr ⟨hr', by simp [hk']⟩) hcov

/-- **categorical_spec**: an accepted call on a table without parameter columns returns, for every
requested simulant, the value cells of the one data row whose key columns equal its attributes,
indexed like the request; the call is rejected when a requested key combination does not have exactly
one data row. -/
theorem categorical_spec (t : Table) (req : List Req) (hc : Consistent req) :
    (∀ res, t.categorical req = .ok res →
      res.map (·.1) = req.map (·.label) ∧
      ∀ r ∈ req, ∃ row, groupRows t.rows r.keys = [row] ∧ (r.label, some row.vals) ∈ res) ∧
    ((∃ e, t.categorical req = .error e) ↔ ∃ r ∈ req, ∀ row, groupRows t.rows r.keys ≠ [row]) := by
  have hcat : ∀ k, t.catCheck k = none ↔ ∃ row, groupRows t.rows k = [row] := by
    intro k
    unfold Table.catCheck
    split
    · rename_i row h; simp [h]
    · rename_i hn
      simp only [reduceCtorEq, false_iff, not_exists]
      intro row h; exact hn row h
  constructor
  · intro res h
    rw [categorical_eq] at h
    cases hf : (reqKeys req).findSome? t.catCheck with
    | some e => rw [hf] at h; cases h
    | none =>
      rw [hf] at h
      have hfill := fill_all (fun k _ => ((groupRows t.rows k).head?).map (·.vals)) req hc
      have hres : res = req.map fun r => (r.label, ((groupRows t.rows r.keys).head?).map (·.vals)) := by
        cases h; exact hfill
      refine ⟨by rw [hres, List.map_map]; rfl, ?_⟩
      intro r hr
      obtain ⟨row, hrow⟩ := (hcat r.keys).mp ((List.findSome?_eq_none_iff.mp hf) r.keys (mem_reqKeys req r hr))
      refine ⟨row, hrow, ?_⟩
      rw [hres]
      exact List.mem_map.mpr ⟨r, hr, by simp [hrow]⟩
  · rw [categorical_eq]
    constructor
    · rintro ⟨e, he⟩
      cases hf : (reqKeys req).findSome? t.catCheck with
      | none => rw [hf] at he; cases he
      | some e' =>
        obtain ⟨k, hk, hke⟩ := List.exists_of_findSome?_eq_some hf
        obtain ⟨r, hr, hrk⟩ := of_mem_reqKeys req k hk
        refine ⟨r, hr, ?_⟩
        intro row hrow
        have := (hcat k).mpr ⟨row, by rw [← hrk]; exact hrow⟩
        rw [this] at hke; cases hke
    · rintro ⟨r, hr, hno⟩
      cases hf : (reqKeys req).findSome? t.catCheck with
      | some e' => exact ⟨e', rfl⟩
      | none =>
        exfalso
        obtain ⟨row, hrow⟩ := (hcat r.keys).mp ((List.findSome?_eq_none_iff.mp hf) r.keys (mem_reqKeys req r hr))
        exact hno row hrow

/-- **scalar_broadcast**: a scalar table returns its value – or all its values, one column each – for
every requested label, indexed exactly like the request. -/
theorem scalar_broadcast (values : List Int) (index : List Nat) :
    (scalarCall values index).map (·.1) = index ∧ ∀ e ∈ scalarCall values index, e.2 = values := by
  unfold scalarCall
  constructor
  · rw [List.map_map]; exact List.map_id' index
  · intro e he
    obtain ⟨i, _, rfl⟩ := List.mem_map.mp he
    rfl

/-! ### the year parameter -/

/-- a table with a `year` parameter is looked up with the clock's value in that position, whatever the
simulant's own attribute there; every other parameter keeps the simulant's attribute … -/
theorem year_param_clock (t : Table) (year yday : Nat) (req : List Req) (h : t.np ≠ 0) :
    t.call year yday req = t.interpolate (req.map (setYear t.yearAt (yearParam year yday))) := by
  simp [Table.call, h]

theorem setYear_at (p : Nat) (y : Int) (r : Req) (hp : p < r.xs.length) :
    (setYear (some p) y r).xs.getD p 0 = y ∧ (setYear (some p) y r).label = r.label ∧
    (setYear (some p) y r).keys = r.keys ∧
    ∀ q, q ≠ p → (setYear (some p) y r).xs.getD q 0 = r.xs.getD q 0 := by
  refine ⟨?_, rfl, rfl, ?_⟩
  · simp [setYear, List.getD_eq_getElem?_getD, hp]
  · intro q hq
    simp only [setYear, List.getD_eq_getElem?_getD]
    rw [List.getElem?_set_ne (Ne.symm hq)]

/-- … and the value is a monotone function of the clock alone. -/
theorem year_param_mono (y y' d d' : Nat) (h : y < y' ∨ (y = y' ∧ d ≤ d')) (hd : d ≤ 366) (hd' : 1 ≤ d') :
    yearParam y d ≤ yearParam y' d' := by
  unfold yearParam
  rcases h with h | ⟨rfl, h⟩ <;> omega

/- **year_param** (full statement, FALSE of the code as it is – finding F16):
     ∀ year yday, 1 ≤ yday → yday ≤ 366 →
       year * 5844 ≤ yearParam year yday ∧ yearParam year yday < (year + 1) * 5844
   "the year parameter is the current simulation year": the value looked up lies in the clock's calendar
   year. `tm_yday / 365.25` exceeds 1 for `tm_yday = 366`, i.e. on 31 December of a leap year. -/

/-- **year_param_partial**: on every day but the 366th of a leap year the year parameter lies within
the clock's calendar year (so yearly bins `[y, y+1)` select the row of the current year). -/
theorem year_param_partial (year yday : Nat) (h1 : 1 ≤ yday) (h : yday ≤ 365) :
    (year : Int) * 5844 ≤ yearParam year yday ∧ yearParam year yday < ((year : Int) + 1) * 5844 := by
  unfold yearParam; omega

/-- the witness: on 2020-12-31 (`tm_yday = 366`) the year parameter is beyond 2021.0 -/
theorem year_param_leap_dec31_witness : ¬ (yearParam 2020 366 < ((2020 : Int) + 1) * 5844) := by decide

/-! ### validation -/

/-- consecutive bins (sorted by left edge) touch: each right edge is the next left edge, and no two
bins start at the same place -/
def Contiguous : List (Int × Int) → Prop
  | a :: b :: rest => a.2 = b.1 ∧ a.1 ≠ b.1 ∧ Contiguous (b :: rest)
  | _ => True

/-- the loop of `check_data_complete` accepts exactly the contiguous sequences: an overlap
(`end > next start`, or a repeated start) and a gap (`end < next start`) are both rejected. -/
theorem checkConsecutive_ok_iff (l : List (Int × Int)) : checkConsecutive l = .ok () ↔ Contiguous l := by
  induction l with
  | nil => simp [checkConsecutive, Contiguous]
  | cons a l ih =>
    cases l with
    | nil => simp [checkConsecutive, Contiguous]
    | cons b rest =>
      unfold checkConsecutive Contiguous
      by_cases h1 : a.2 > b.1 ∨ b.1 = a.1
      · have : (decide (a.2 > b.1) || b.1 == a.1) = true := by
          rcases h1 with h | h <;> simp [h]
        simp only [this, if_true, reduceCtorEq, false_iff, not_and]
        intro h2 h3
        rcases h1 with h | h
        · omega
        · exact absurd h.symm h3
      · have : (decide (a.2 > b.1) || b.1 == a.1) = false := by
          simp only [not_or] at h1
          simp [h1.1, h1.2]
        simp only [this, Bool.false_eq_true, if_false]
        by_cases h2 : a.2 < b.1
        · simp only [h2, if_true, reduceCtorEq, false_iff, not_and]
          intro h; omega
        · simp only [h2, if_false, ih]
          simp only [not_or] at h1
          constructor
          · intro h; exact ⟨by omega, fun h' => h1.2 h'.symm, h⟩
          · intro h; exact h.2.2

/-! ### non-vacuity -/

def demoRows : List Row :=
  [⟨["a"], [0, 10], [4, 20], [1]⟩, ⟨["a"], [4, 10], [10, 20], [2]⟩,
   ⟨["a"], [0, 20], [4, 30], [3]⟩, ⟨["a"], [4, 20], [10, 30], [4]⟩]

example : wellFormed demoRows 2 = true := by decide
example : WF demoRows 2 := wf_of_wellFormed _ _ (by decide)
example : binIndex [0, 10, 25, 40] 10 = 1 := by decide     -- exactly on an edge: left-closed
example : binIndex [0, 10, 25, 40] 9 = 0 := by decide
example : binIndex [0, 10, 25, 40] (-3) = 0 := by decide   -- below: first bin
example : binIndex [0, 10, 25, 40] 99 = 3 := by decide     -- above: last bin
example : interpOne demoRows 2 [4, 19] = some [2] := by decide
example : interpOne demoRows 2 [-3, 99] = some [3] := by decide
example : (build 1 2 demoRows false none).toOption.map (fun t => t.call 2020 1 [⟨0, ["a"], [4, 19]⟩, ⟨5, ["a"], [-3, 99]⟩])
            = some (.error .extrapolation) := by decide
example : (build 1 2 (demoRows.take 3) true none).toOption.isNone = true := by decide

end Viv.Props.C15
