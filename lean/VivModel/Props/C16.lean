import VivModel.Model.Util
import VivModel.Model.Results
import VivModel.Lemmas.Results
/-! C16 — stratified results count every eligible simulant exactly once.

Row layer (`gather`, `runEvents`, `runConcat`): for EVERY list of levels, every list of rows and every list
of events (induction).  Context layer (`addStratification`, `stratify`, `gatherEvent`, `runSim`): for every
registered stratification list and every event.  `observation_conserves` joins the two: the hypotheses of
the row-layer theorems (distinct categories, every eligible row's stratum is one of the reported rows) are
established by the context layer itself; `simulation_result` states the property for a whole run of the
context (`postSetup` + `runSim`). -/
namespace Viv.Props.C16
open Viv.Results

/-! ### each eligible simulant lies in exactly one stratum -/

/-- an eligible simulant whose categories are among the levels belongs to exactly one of the reported
strata (rows of the result). -/
theorem partition_unique (levels : List (List String)) (hnd : ∀ l ∈ levels, l.Nodup) (r : Row)
    (hk : r.key ∈ product levels) :
    ((product levels).filter (fun k => decide (r.key = k))).length = 1 :=
  filter_eq_length_one _ (nodup_product levels hnd) _ hk

/-- … and a simulant that is not eligible (not in the event, fails the filter, or sits in an excluded
category) belongs to none: it changes no stratum's aggregate. -/
theorem ineligible_in_no_stratum (k : Key) (r : Row) (rows : List Row) (h : r.eligible = false) :
    stratumSum k (r :: rows) = stratumSum k rows := by
  simp [stratumSum, h]

/-- an eligible simulant adds its value to its own stratum and to no other -/
theorem eligible_in_own_stratum (k : Key) (r : Row) (rows : List Row) (h : r.eligible = true) :
    stratumSum k (r :: rows) = (if r.key = k then r.val else 0) + stratumSum k rows := by
  by_cases hk : r.key = k
  · simp [stratumSum, h, hk]
  · simp [stratumSum, h, hk]

/-! ### conservation at one event -/

/-- the per-event increments over all strata add up to the aggregate over the eligible simulants -/
theorem sum_conservation (levels : List (List String)) (hnd : ∀ l ∈ levels, l.Nodup) (rows : List Row)
    (hvalid : ∀ r ∈ rows, r.eligible = true → r.key ∈ product levels) :
    ((increment levels rows).map (·.2)).sum = eligibleSum rows := by
  rw [increment_eq, List.map_map]
  have := strata_sum (product levels) (nodup_product levels hnd) Row.key Row.val (rows.filter Row.eligible)
    (fun x hx => by
      rw [List.mem_filter] at hx
      exact hvalid x hx.1 hx.2)
  exact this

/-- counting (`aggregator = len`): the increments add up to the NUMBER of eligible simulants -/
theorem count_conservation (levels : List (List String)) (hnd : ∀ l ∈ levels, l.Nodup) (rows : List Row)
    (hvalid : ∀ r ∈ rows, r.eligible = true → r.key ∈ product levels) (hone : ∀ r ∈ rows, r.val = 1) :
    ((increment levels rows).map (·.2)).sum = (rows.filter Row.eligible).length := by
  rw [sum_conservation levels hnd rows hvalid, eligibleSum, ← sum_ones]
  congr 1
  apply List.map_congr_left
  intro r hr
  exact hone r (List.mem_filter.mp hr).1

/-- the increment of every stratum is the aggregate over exactly the eligible simulants of that stratum,
and the increment table has one row per combination -/
theorem increment_per_stratum (levels : List (List String)) (rows : List Row) :
    increment levels rows = (product levels).map fun k => (k, stratumSum k rows) :=
  increment_eq levels rows

/-! ### `to_observe`, empty events -/

theorem to_observe_false_no_increment (levels : List (List String)) (acc : Table) (rows : List Row) :
    gather levels false acc rows = acc := by
  unfold gather; split <;> simp

/-- an event without eligible simulants leaves the results alone (`if filtered_pop.empty`) -/
theorem no_eligible_no_increment (levels : List (List String)) (t : Bool) (acc : Table) (rows : List Row)
    (h : rows.filter Row.eligible = []) : gather levels t acc rows = acc := by
  simp [gather, h]

/-! ### the reported result is the sum of the per-event increments, in the full shape -/

/-- what one event contributes to stratum `k` -/
def eventTerm (k : Key) (e : Bool × List Row) : Int := if e.1 then stratumSum k e.2 else 0

theorem gather_map (levels : List (List String)) (a : Key → Int) (e : Bool × List Row) :
    gather levels e.1 ((product levels).map fun k => (k, a k)) e.2 =
      (product levels).map fun k => (k, a k + eventTerm k e) := by
  unfold gather eventTerm
  by_cases hempty : (e.2.filter Row.eligible).isEmpty = true
  · have h0 : e.2.filter Row.eligible = [] := List.isEmpty_iff.mp hempty
    rw [if_pos hempty]
    apply List.map_congr_left
    intro k _
    rw [stratumSum_of_no_eligible k e.2 h0]
    split <;> simp
  · rw [if_neg hempty]
    cases ht : e.1
    · simp
    · simp only [if_true]
      rw [increment_eq, addResults_map]

theorem foldl_gather (levels : List (List String)) (events : List (Bool × List Row)) (a : Key → Int) :
    events.foldl (fun acc e => gather levels e.1 acc e.2) ((product levels).map fun k => (k, a k)) =
      (product levels).map fun k => (k, a k + (events.map (eventTerm k)).sum) := by
  induction events generalizing a with
  | nil => simp
  | cons e es ih =>
    rw [List.foldl_cons, gather_map, ih]
    apply List.map_congr_left
    intro k _
    simp only [List.map_cons, List.sum_cons]
    congr 1
    omega

/-- for every sequence of events: one row per combination of the levels, in product order, and the value
of each row is the sum over the events of that event's increment (0 for events not observed) -/
theorem result_is_sum_of_increments (levels : List (List String)) (events : List (Bool × List Row)) :
    runEvents levels events = (product levels).map fun k => (k, (events.map (eventTerm k)).sum) := by
  unfold runEvents initResults
  rw [foldl_gather levels events (fun _ => 0)]
  apply List.map_congr_left
  intro k _
  simp

/-- exact repeats: an event that occurs AGAIN later (the same rows, the same `to_observe`), after any number of other
events, is counted again in full – the result after the repeat is the result before it plus that event's increment;
nothing about earlier events is remembered or skipped -/
theorem repeated_event_counts_again (levels : List (List String)) (es es' : List (Bool × List Row))
    (e : Bool × List Row) :
    runEvents levels (es ++ e :: es' ++ [e]) =
      (product levels).map fun k => (k, ((es ++ e :: es').map (eventTerm k)).sum + eventTerm k e) := by
  rw [result_is_sum_of_increments]
  apply List.map_congr_left
  intro k _
  congr 1
  have : es ++ e :: es' ++ [e] = (es ++ e :: es') ++ [e] := by simp
  rw [this, List.map_append, List.sum_append]
  simp

/-- … and what an event adds does not depend on what was accumulated before (no state besides the running totals) -/
theorem increment_independent_of_history (es₁ es₂ : List (Bool × List Row))
    (e : Bool × List Row) (k : Key) :
    (((es₁ ++ [e]).map (eventTerm k)).sum - (es₁.map (eventTerm k)).sum) =
    (((es₂ ++ [e]).map (eventTerm k)).sum - (es₂.map (eventTerm k)).sum) := by
  simp only [List.map_append, List.sum_append, List.map_cons, List.map_nil, List.sum_cons, List.sum_nil]
  omega

/-- shape: exactly the combinations of the (non-excluded) categories, whatever was observed -/
theorem result_shape (levels : List (List String)) (events : List (Bool × List Row)) :
    (runEvents levels events).map (·.1) = product levels := by
  rw [result_is_sum_of_increments, List.map_map]
  exact List.map_id _

/-- … each combination once (categories are distinct), so the number of rows is the product of the level
sizes -/
theorem result_rows_distinct (levels : List (List String)) (hnd : ∀ l ∈ levels, l.Nodup)
    (events : List (Bool × List Row)) :
    ((runEvents levels events).map (·.1)).Nodup ∧
    (runEvents levels events).length = (levels.map List.length).foldr (· * ·) 1 := by
  constructor
  · rw [result_shape]; exact nodup_product levels hnd
  · have := congrArg List.length (result_shape levels events)
    rw [List.length_map] at this
    rw [this, length_product]

/-- zero where nothing was observed -/
theorem result_zero_where_nothing_observed (levels : List (List String)) (events : List (Bool × List Row))
    (k : Key) (hk : k ∈ product levels)
    (hnone : ∀ e ∈ events, e.1 = true → ∀ r ∈ e.2, r.eligible = true → r.key ≠ k) :
    (k, (0 : Int)) ∈ runEvents levels events := by
  rw [result_is_sum_of_increments, List.mem_map]
  refine ⟨k, hk, ?_⟩
  congr 1
  apply sum_map_zero
  intro e he
  unfold eventTerm
  cases ht : e.1
  · simp
  · simp only [if_true]
    unfold stratumSum
    have : (e.2.filter Row.eligible).filter (fun r => decide (r.key = k)) = [] := by
      rw [List.filter_eq_nil_iff]
      intro r hr
      rw [List.mem_filter] at hr
      simpa using hnone e he ht r hr.1 hr.2
    simp [this]

/-- conservation over the whole run: the reported values add up to the aggregate over all eligible
simulants of all observed events -/
theorem total_conservation (levels : List (List String)) (hnd : ∀ l ∈ levels, l.Nodup)
    (events : List (Bool × List Row))
    (hvalid : ∀ e ∈ events, ∀ r ∈ e.2, r.eligible = true → r.key ∈ product levels) :
    ((runEvents levels events).map (·.2)).sum =
      (events.map fun e => if e.1 then eligibleSum e.2 else 0).sum := by
  rw [result_is_sum_of_increments, List.map_map]
  induction events with
  | nil => exact sum_map_zero _ _ (fun _ _ => rfl)
  | cons e es ih =>
    have hes : ∀ e' ∈ es, ∀ r ∈ e'.2, r.eligible = true → r.key ∈ product levels :=
      fun e' he' => hvalid e' (List.mem_cons_of_mem _ he')
    have h1 : ((product levels).map ((fun x : Key × Int => x.2) ∘ fun k => (k, ((e :: es).map (eventTerm k)).sum))) =
        (product levels).map (fun k => eventTerm k e + (es.map (eventTerm k)).sum) := by
      apply List.map_congr_left; intro k _; simp [Function.comp]
    rw [h1, sum_map_add, List.map_cons, List.sum_cons]
    have h2 : ((product levels).map fun k => (es.map (eventTerm k)).sum).sum =
        (es.map fun e => if e.1 then eligibleSum e.2 else 0).sum := by
      rw [← ih hes]; congr 1
    rw [h2]
    congr 1
    unfold eventTerm
    cases ht : e.1
    · simp; exact sum_map_zero _ _ (fun _ _ => rfl)
    · simp only [if_true]
      have := sum_conservation levels hnd e.2 (hvalid e List.mem_cons_self)
      rw [increment_eq, List.map_map] at this
      exact this

/-! ### excluded categories -/

/-- a simulant in an excluded category (NaN after `stratify`) is dropped: no increment anywhere -/
theorem excluded_dropped (levels : List (List String)) (r : Row) (rows : List Row)
    (hex : r.cats.any Option.isNone = true) : increment levels (r :: rows) = increment levels rows := by
  have hne : r.eligible = false := by
    unfold Row.eligible
    have : r.cats.all Option.isSome = false := by
      rw [List.any_eq_true] at hex
      obtain ⟨c, hc, hn⟩ := hex
      rw [← Bool.not_eq_true, List.all_eq_true]
      intro hall
      have h := hall c hc
      cases c
      · simp at h
      · simp at hn
    simp [this]
  simp [increment, hne]

/-- registration removes the excluded categories from the levels (so no row is reported for them) and
keeps the categories distinct; exclusions given in code win over the configuration -/
theorem addStratification_spec (cfg : List (String × List String)) (ss ss' : List Strat) (name : String)
    (cats : List String) (code : Option (List String)) (bins : Option (List Int))
    (h : addStratification cfg ss name cats code bins = .ok ss') :
    ∃ s, ss' = ss ++ [s] ∧ s.name = name ∧ s.cats.Nodup ∧ s.cats ≠ [] ∧
      s.excl = exclusionsFor cfg name code ∧
      (∀ c, c ∈ s.cats ↔ (c ∈ cats ∧ c ∉ s.excl)) ∧ (∀ c ∈ s.excl, c ∈ cats) ∧
      ¬ ss.any (fun t => t.name = name) = true := by
  unfold addStratification at h
  split at h; · cases h
  split at h; · cases h
  split at h; · cases h
  split at h; · cases h
  split at h; · cases h
  rename_i hb hdup hnd hex hempty
  cases h
  refine ⟨_, rfl, rfl, ?_, ?_, rfl, ?_, ?_, hdup⟩
  · exact List.Nodup.sublist List.filter_sublist (Classical.not_not.mp hnd)
  · intro h0; exact hempty (List.isEmpty_iff.mpr h0)
  · intro c; simp [List.mem_filter]
  · intro c hc
    apply Classical.byContradiction
    intro hn
    apply hex
    rw [List.any_eq_true]
    exact ⟨c, hc, by simpa using hn⟩

/-! ### unknown categories stop the simulation -/

/-- `stratify` on one simulant: a known category is kept, an excluded one becomes NaN, anything else
(including a missing value) is an error – never a silent drop -/
theorem stratify_spec (s : Strat) (raw : String) :
    (stratify s raw = .ok (some raw) ∧ raw ≠ nanTok ∧ raw ∈ s.cats) ∨
    (stratify s raw = .ok none ∧ raw ≠ nanTok ∧ raw ∉ s.cats ∧ raw ∈ s.excl) ∨
    (stratify s raw = .error .unknownCat ∧ (raw = nanTok ∨ (raw ∉ s.cats ∧ raw ∉ s.excl))) := by
  unfold stratify
  by_cases h0 : raw = nanTok
  · simp [h0]
  · by_cases h1 : raw ∈ s.cats
    · simp [h0, h1]
    · by_cases h2 : raw ∈ s.excl
      · simp [h0, h1, h2]
      · simp [h0, h1, h2]

theorem stratifyRow_error (ss : List Strat) (xs : List String) (s : Strat) (x : String)
    (hmem : (s, x) ∈ ss.zip xs) (hbad : stratify s x = .error .unknownCat) :
    stratifyRow ss xs = .error .unknownCat := by
  induction ss generalizing xs with
  | nil => simp at hmem
  | cons s0 ss ih =>
    cases xs with
    | nil => simp at hmem
    | cons x0 xs =>
      rw [List.zip_cons_cons, List.mem_cons] at hmem
      unfold stratifyRow
      rcases hmem with heq | hmem
      · cases heq
        simp [hbad, bind, Except.bind]
      · rcases stratify_spec s0 x0 with h | h | h
        · simp [h.1, ih xs hmem, bind, Except.bind]
        · simp [h.1, ih xs hmem, bind, Except.bind]
        · simp [h.1, bind, Except.bind]

theorem stratifyRow_only_unknown (ss : List Strat) (xs : List String) (e : Err)
    (h : stratifyRow ss xs = .error e) : e = .unknownCat := by
  induction ss generalizing xs e with
  | nil => simp [stratifyRow] at h
  | cons s0 ss ih =>
    cases xs with
    | nil => simp [stratifyRow] at h
    | cons x0 xs =>
      unfold stratifyRow at h
      rcases stratify_spec s0 x0 with h0 | h0 | h0
      · simp only [h0.1, bind, Except.bind] at h
        cases h' : stratifyRow ss xs with
        | ok v => simp [h', pure, Except.pure] at h
        | error e' => simp [h'] at h; rw [← h]; exact ih xs e' h'
      · simp only [h0.1, bind, Except.bind] at h
        cases h' : stratifyRow ss xs with
        | ok v => simp [h', pure, Except.pure] at h
        | error e' => simp [h'] at h; rw [← h]; exact ih xs e' h'
      · simp only [h0.1, bind, Except.bind] at h
        cases h; rfl

theorem stratifyAll_error (ss : List Strat) (rows : List RawRow) (r : RawRow) (hr : r ∈ rows)
    (hin : r.inEvent = true) (hbad : stratifyRow ss r.raw = .error .unknownCat) :
    stratifyAll ss rows = .error .unknownCat := by
  induction rows with
  | nil => cases hr
  | cons r0 rows ih =>
    unfold stratifyAll
    rcases List.mem_cons.mp hr with heq | hmem
    · subst heq
      simp [hin, hbad, bind, Except.bind]
    · by_cases h0 : r0.inEvent = true
      · cases h1 : stratifyRow ss r0.raw with
        | ok v => simp [h0, ih hmem, bind, Except.bind]
        | error e =>
          have := stratifyRow_only_unknown ss r0.raw e h1
          subst this
          simp [h0, bind, Except.bind]
      · simp [h0, ih hmem, bind, Except.bind, pure, Except.pure]

/-- a mapper that produces an unknown category (or a missing value) for ANY simulant of the event makes
`gather_results` raise: the event is not recorded at all -/
theorem unknown_category_raises (c : Ctx) (phase : String) (time : Int) (rows : List RawRow)
    (inputs : List ObsInput) (r : RawRow) (hr : r ∈ rows) (hin : r.inEvent = true)
    (s : Strat) (x : String) (hmem : (s, x) ∈ c.strats.zip r.raw)
    (hbad : x = nanTok ∨ (x ∉ s.cats ∧ x ∉ s.excl)) :
    gatherEvent c phase time rows inputs = .error .unknownCat := by
  have h1 : stratify s x = .error .unknownCat := by
    rcases stratify_spec s x with h | h | h
    · rcases hbad with hb | hb
      · exact absurd hb h.2.1
      · exact absurd h.2.2 hb.1
    · rcases hbad with hb | hb
      · exact absurd hb h.2.1
      · exact absurd h.2.2.2 hb.2
    · exact h.1
  have h2 := stratifyRow_error c.strats r.raw s x hmem h1
  have h3 := stratifyAll_error c.strats rows r hr hin h2
  unfold gatherEvent
  have hne : ¬ (rows.filter (·.inEvent)).isEmpty = true := by
    intro he
    have := List.isEmpty_iff.mp he
    have hmem' : r ∈ rows.filter (·.inEvent) := List.mem_filter.mpr ⟨hr, hin⟩
    rw [this] at hmem'
    cases hmem'
  rw [if_neg hne, h3]
  rfl

/-- the simulation stops there: whatever events would follow are never processed, the run ends in the
error (`unknown_category_stops`) -/
theorem unknown_category_stops (c c' : Ctx)
    (pre post : List (String × Int × List RawRow × List ObsInput))
    (ev : String × Int × List RawRow × List ObsInput) (e : Err)
    (hpre : runSim c pre = .ok c') (hev : gatherEvent c' ev.1 ev.2.1 ev.2.2.1 ev.2.2.2 = .error e) :
    runSim c (pre ++ ev :: post) = .error e := by
  induction pre generalizing c with
  | nil =>
    simp only [runSim] at hpre
    cases hpre
    obtain ⟨ph, t, rows, inputs⟩ := ev
    simp only [List.nil_append, runSim]
    simp only at hev
    rw [hev]; rfl
  | cons p pre ih =>
    obtain ⟨ph, t, rows, inputs⟩ := p
    simp only [List.cons_append, runSim] at hpre ⊢
    cases hg : gatherEvent c ph t rows inputs with
    | ok c1 =>
      rw [hg] at hpre
      simp only [bind, Except.bind] at hpre ⊢
      exact ih c1 hpre
    | error e' =>
      rw [hg] at hpre
      simp [bind, Except.bind] at hpre

theorem stratifyAll_only_unknown (ss : List Strat) (rows : List RawRow) (e : Err)
    (h : stratifyAll ss rows = .error e) : e = .unknownCat := by
  induction rows generalizing e with
  | nil => simp [stratifyAll] at h
  | cons r0 rows ih =>
    unfold stratifyAll at h
    by_cases h0 : r0.inEvent = true
    · cases h1 : stratifyRow ss r0.raw with
      | ok v =>
        simp only [h0, h1, if_true, bind, Except.bind] at h
        cases h2 : stratifyAll ss rows with
        | ok v2 => simp [h2, pure, Except.pure] at h
        | error e2 => simp [h2] at h; rw [← h]; exact ih e2 h2
      | error e1 =>
        simp only [h0, h1, if_true, bind, Except.bind] at h
        cases h
        exact stratifyRow_only_unknown _ _ _ h1
    · simp only [h0, bind, Except.bind, pure, Except.pure] at h
      cases h2 : stratifyAll ss rows with
      | ok v2 => simp [h2] at h
      | error e2 => simp [h2] at h; rw [← h]; exact ih e2 h2

/-- … and nothing else ever stops an event: `gather_results` can only fail with an unknown category -/
theorem only_unknown_category_raises (c : Ctx) (phase : String) (time : Int) (rows : List RawRow)
    (inputs : List ObsInput) (e : Err) (h : gatherEvent c phase time rows inputs = .error e) :
    e = .unknownCat := by
  unfold gatherEvent at h
  split at h
  · cases h
  · cases hs : stratifyAll c.strats rows with
    | ok m => rw [hs] at h; simp [bind, Except.bind, pure, Except.pure] at h
    | error e' =>
      rw [hs] at h
      simp only [bind, Except.bind] at h
      cases h
      exact stratifyAll_only_unknown _ _ _ hs

/-! ### concatenating observations -/

/-- the rows one event contributes to a concatenating observation: the eligible simulants (in the event,
passing the filter), stamped with the event time -/
def concatTerm (e : Bool × Int × List CRow) : List (List Int) :=
  if e.1 then (e.2.2.filter CRow.eligible).map fun r => e.2.1 :: r.payload else []

theorem concatGather_eq (t : Bool) (acc : List (List Int)) (time : Int) (rows : List CRow) :
    concatGather t acc time rows = acc ++ concatTerm (t, time, rows) := by
  unfold concatGather concatTerm
  simp only
  by_cases he : ((rows.filter CRow.eligible).map fun r => time :: r.payload).isEmpty = true
  · have := List.isEmpty_iff.mp he
    rw [if_pos he, this]
    cases t <;> simp
  · rw [if_neg he]
    cases t
    · simp
    · by_cases ha : acc.isEmpty = true
      · have := List.isEmpty_iff.mp ha
        simp [this]
      · simp [ha]

/-- a concatenating observation returns the rows of exactly the eligible simulants, event after event -/
theorem concat_rows (events : List (Bool × Int × List CRow)) :
    runConcat events = events.flatMap concatTerm := by
  unfold runConcat
  have gen : ∀ acc : List (List Int),
      events.foldl (fun acc e => concatGather e.1 acc e.2.1 e.2.2) acc = acc ++ events.flatMap concatTerm := by
    induction events with
    | nil => intro acc; simp
    | cons e es ih =>
      intro acc
      rw [List.foldl_cons, ih, concatGather_eq, List.flatMap_cons, List.append_assoc]
  simpa using gen []

/-! ### the context layer establishes the hypotheses of the row layer -/

theorem stratifyRow_find (ss : List Strat) (xs : List String) (m : List (String × Option String))
    (h : stratifyRow ss xs = .ok m) (n : String) (e : String × Option String) (c : String)
    (hf : m.find? (fun e => e.1 = n) = some e) (hc : e.2 = some c) :
    ∃ s, findStrat ss n = some s ∧ c ∈ s.cats := by
  induction ss generalizing xs m with
  | nil => simp [stratifyRow] at h; subst h; simp at hf
  | cons s0 ss ih =>
    cases xs with
    | nil => simp [stratifyRow] at h; subst h; simp at hf
    | cons x0 xs =>
      unfold stratifyRow at h
      cases h0 : stratify s0 x0 with
      | error e0 => simp [h0, bind, Except.bind] at h
      | ok c0 =>
        cases h1 : stratifyRow ss xs with
        | error e1 => simp [h0, h1, bind, Except.bind] at h
        | ok rest =>
          simp only [h0, h1, bind, Except.bind, pure, Except.pure] at h
          cases h
          by_cases hn : s0.name = n
          · simp only [List.find?_cons, hn, decide_true] at hf
            cases hf
            simp only at hc
            subst hc
            refine ⟨s0, by simp [findStrat, hn], ?_⟩
            rcases stratify_spec s0 x0 with h | h | h
            · rw [h.1] at h0; cases h0; exact h.2.2
            · rw [h.1] at h0; cases h0
            · rw [h.1] at h0; cases h0
          · have : (decide (s0.name = n)) = false := by simp [hn]
            simp only [List.find?_cons, this] at hf
            obtain ⟨s, hs, hcs⟩ := ih xs rest h1 hf
            exact ⟨s, by simp [findStrat, hn] at hs ⊢; exact hs, hcs⟩

theorem catsFor_key_mem_product (ss : List Strat) (xs : List String) (m : List (String × Option String))
    (h : stratifyRow ss xs = .ok m ∨ m = []) (names : List String)
    (hall : (catsFor names m).all Option.isSome = true) :
    (catsFor names m).filterMap id ∈ product (levelsOf ss names) := by
  induction names with
  | nil => simp [catsFor, levelsOf, product]
  | cons n ns ih =>
    simp only [catsFor, List.map_cons, List.all_cons, Bool.and_eq_true] at hall
    obtain ⟨h1, h2⟩ := hall
    cases hf : m.find? (fun e => e.1 = n) with
    | none => simp [hf] at h1
    | some e =>
      rcases h with h | h
      · cases hc : e.2 with
        | none => simp [hf, hc] at h1
        | some c =>
          obtain ⟨s, hs, hcs⟩ := stratifyRow_find ss xs m h n e c hf hc
          have ih' := ih (by simpa [catsFor] using h2)
          simp only [catsFor, levelsOf, List.map_cons, hf, hs, Option.map_some, Option.getD_some, hc,
            List.filterMap_cons, id]
          rw [mem_product_cons]
          exact ⟨c, _, rfl, hcs, by simpa [catsFor, levelsOf] using ih'⟩
      · subst h; simp at hf

theorem stratifyAll_mem (ss : List Strat) (rows : List RawRow) (mapped : List (List (String × Option String)))
    (h : stratifyAll ss rows = .ok mapped) :
    ∀ m ∈ mapped, (∃ xs, stratifyRow ss xs = .ok m) ∨ m = [] := by
  induction rows generalizing mapped with
  | nil => simp [stratifyAll] at h; subst h; simp
  | cons r0 rows ih =>
    unfold stratifyAll at h
    cases h2 : stratifyAll ss rows with
    | error e2 =>
      by_cases h0 : r0.inEvent = true
      · cases h1 : stratifyRow ss r0.raw <;> simp [h0, h1, h2, bind, Except.bind] at h
      · simp [h0, h2, bind, Except.bind, pure, Except.pure] at h
    | ok rest =>
      by_cases h0 : r0.inEvent = true
      · cases h1 : stratifyRow ss r0.raw with
        | error e1 => simp [h0, h1, bind, Except.bind] at h
        | ok m0 =>
          simp only [h0, h1, h2, if_true, bind, Except.bind, pure, Except.pure] at h
          cases h
          intro m hm
          rcases List.mem_cons.mp hm with rfl | hm
          · exact .inl ⟨_, h1⟩
          · exact ih rest h2 m hm
      · simp only [h0, h2, bind, Except.bind, pure, Except.pure] at h
        cases h
        intro m hm
        rcases List.mem_cons.mp hm with rfl | hm
        · exact .inr rfl
        · exact ih rest h2 m hm

/-- every row the context hands to an observation is valid: if it is eligible, its stratum is one of the
combinations of the observation's levels -/
theorem mkRows_valid (ss : List Strat) (rows : List RawRow) (mapped : List (List (String × Option String)))
    (h : stratifyAll ss rows = .ok mapped) (names : List String) (passes : List Bool) (vals : List Int) :
    ∀ r ∈ mkRows names rows mapped passes vals, r.eligible = true → r.key ∈ product (levelsOf ss names) := by
  intro r hr hel
  unfold mkRows at hr
  rw [List.mem_map] at hr
  obtain ⟨⟨r0, m, p, v⟩, hz, rfl⟩ := hr
  have hm : m ∈ mapped := (List.of_mem_zip (List.of_mem_zip hz).2).1
  have hall : (catsFor names m).all Option.isSome = true := by
    simp only [Row.eligible, Bool.and_eq_true] at hel
    exact hel.2
  rcases stratifyAll_mem ss rows mapped h m hm with ⟨xs, hx⟩ | hx
  · exact catsFor_key_mem_product ss xs m (.inl hx) names hall
  · exact catsFor_key_mem_product ss [] m (.inr hx) names hall

theorem levelsOf_nodup (ss : List Strat) (hss : ∀ s ∈ ss, s.cats.Nodup) (names : List String) :
    ∀ l ∈ levelsOf ss names, l.Nodup := by
  intro l hl
  unfold levelsOf at hl
  rw [List.mem_map] at hl
  obtain ⟨n, _, rfl⟩ := hl
  cases hf : findStrat ss n with
  | none => simp
  | some s =>
    simp only [Option.map_some, Option.getD_some]
    exact hss s (List.mem_of_find?_eq_some hf)

/-- registering through `add_stratification` keeps every registered stratification's categories distinct -/
theorem registered_cats_nodup (cfg : List (String × List String)) (ss ss' : List Strat) (name : String)
    (cats : List String) (code : Option (List String)) (bins : Option (List Int))
    (hss : ∀ s ∈ ss, s.cats.Nodup) (h : addStratification cfg ss name cats code bins = .ok ss') :
    ∀ s ∈ ss', s.cats.Nodup := by
  obtain ⟨s, rfl, _, hnd, _⟩ := addStratification_spec cfg ss ss' name cats code bins h
  intro t ht
  rcases List.mem_append.mp ht with ht | ht
  · exact hss t ht
  · simp at ht; subst ht; exact hnd

/-- the property at the level of the results context, without side hypotheses about the rows: whenever the
stratification of an event succeeds, the increments an adding observation records over all its strata add
up to the aggregate over its eligible simulants -/
theorem observation_conserves (ss : List Strat) (hss : ∀ s ∈ ss, s.cats.Nodup) (rows : List RawRow)
    (mapped : List (List (String × Option String))) (h : stratifyAll ss rows = .ok mapped)
    (names : List String) (passes : List Bool) (vals : List Int) :
    ((increment (levelsOf ss names) (mkRows names rows mapped passes vals)).map (·.2)).sum =
      eligibleSum (mkRows names rows mapped passes vals) :=
  sum_conservation _ (levelsOf_nodup ss hss names) _ (mkRows_valid ss rows mapped h names passes vals)

/-! ### from `gather_results` of the manager down to the row layer -/

/-- what `gather_results` does to ONE adding observation of the phase: exactly the row-layer `gather` on the
rows built from the stratified population – independently of the other observations processed in the same
event (observation names are unique: `register_observation` refuses duplicates) -/
theorem foldl_stepObs_adding (time : Int) (rows : List RawRow) (mapped : List (List (String × Option String)))
    (inputs : List ObsInput) (os : List Obs) (hnd : (os.map (·.name)).Nodup) (c : Ctx) (o : Obs) (ho : o ∈ os)
    (hk : o.kind = .adding) (i : ObsInput) (hi : inputs.find? (fun i => i.name = o.name) = some i)
    (acc : Table) (hacc : getAssoc o.name c.adding = some acc) :
    getAssoc o.name (os.foldl (stepObs time rows mapped inputs) c).adding =
      some (gather (levelsOf c.strats o.strats) i.toObserve acc (mkRows o.strats rows mapped i.passes i.vals)) := by
  induction os generalizing c with
  | nil => cases ho
  | cons o0 os ih =>
    rw [List.map_cons, List.nodup_cons] at hnd
    rw [List.foldl_cons]
    rcases List.mem_cons.mp ho with heq | hmem
    · subst heq
      have hothers : ∀ o' ∈ os, o'.name ≠ o.name := by
        intro o' ho' he
        exact hnd.1 (he ▸ List.mem_map_of_mem ho')
      rw [(foldl_stepObs_frame time rows mapped inputs os _ o.name hothers).1]
      unfold stepObs
      rw [hi]
      unfold observeOne
      rw [hk]
      simp only [hacc]
      exact getAssoc_setAssoc_eq _ _ _ _ hacc
    · have hne : o0.name ≠ o.name := by
        intro he
        exact hnd.1 (he ▸ List.mem_map_of_mem hmem)
      have h0 := stepObs_frame time rows mapped inputs c o0 o.name hne
      have := ih hnd.2 (stepObs time rows mapped inputs c o0) hmem (h0.1.trans hacc)
      rw [h0.2] at this
      exact this

theorem gatherEvent_adding (c c' : Ctx) (phase : String) (time : Int) (rows : List RawRow) (inputs : List ObsInput)
    (hne : (rows.filter (·.inEvent)).isEmpty = false)
    (h : gatherEvent c phase time rows inputs = .ok c')
    (hnd : (c.obs.map (·.name)).Nodup) (o : Obs) (ho : o ∈ c.obs) (hph : o.phase = phase)
    (hk : o.kind = .adding) (i : ObsInput) (hi : inputs.find? (fun i => i.name = o.name) = some i)
    (acc : Table) (hacc : getAssoc o.name c.adding = some acc) :
    ∃ mapped, stratifyAll c.strats rows = .ok mapped ∧
      getAssoc o.name c'.adding =
        some (gather (levelsOf c.strats o.strats) i.toObserve acc (mkRows o.strats rows mapped i.passes i.vals)) := by
  unfold gatherEvent at h
  rw [hne] at h
  simp only [Bool.false_eq_true, if_false] at h
  cases hs : stratifyAll c.strats rows with
  | error e => rw [hs] at h; simp [bind, Except.bind] at h
  | ok mapped =>
    rw [hs] at h
    simp only [bind, Except.bind, pure, Except.pure] at h
    cases h
    refine ⟨mapped, rfl, ?_⟩
    have hsub : ((traversal (c.obs.filter (fun o => o.phase = phase))).map (·.name)).Nodup :=
      traversal_nodup_names _ (List.Nodup.sublist (List.Sublist.map _ List.filter_sublist) hnd)
    have hmem : o ∈ traversal (c.obs.filter (fun o => o.phase = phase)) :=
      (mem_traversal _ _).mpr (List.mem_filter.mpr ⟨ho, by simp [hph]⟩)
    exact foldl_stepObs_adding time rows mapped inputs _ hsub c o hmem hk i hi acc hacc

/-- the sum over all strata grows by exactly the aggregate over the eligible simulants of the event (when
observed), whatever the running totals were -/
theorem gather_conserves (levels : List (List String)) (hnd : ∀ l ∈ levels, l.Nodup) (a : Key → Int) (t : Bool)
    (rows : List Row) (hvalid : ∀ r ∈ rows, r.eligible = true → r.key ∈ product levels) :
    ((gather levels t ((product levels).map fun k => (k, a k)) rows).map (·.2)).sum =
      (((product levels).map fun k => (k, a k)).map (·.2)).sum + (if t then eligibleSum rows else 0) := by
  have := gather_map levels a (t, rows)
  simp only at this
  rw [this, List.map_map, List.map_map]
  have h1 : ((product levels).map ((fun x : Key × Int => x.2) ∘ fun k => (k, a k + eventTerm k (t, rows)))) =
      (product levels).map (fun k => a k + eventTerm k (t, rows)) := rfl
  have h2 : ((product levels).map ((fun x : Key × Int => x.2) ∘ fun k => (k, a k))) = (product levels).map a := rfl
  rw [h1, h2, sum_map_add]
  congr 1
  unfold eventTerm
  cases t
  · simp; exact sum_map_zero _ _ (fun _ _ => rfl)
  · simp only [if_true]
    have := sum_conservation levels hnd rows hvalid
    rw [increment_eq, List.map_map] at this
    exact this

/-- each eligible simulant handed to an observation by the context lies in exactly one reported stratum -/
theorem eligible_row_in_exactly_one_stratum (ss : List Strat) (hss : ∀ s ∈ ss, s.cats.Nodup) (rows : List RawRow)
    (mapped : List (List (String × Option String))) (h : stratifyAll ss rows = .ok mapped)
    (names : List String) (passes : List Bool) (vals : List Int) :
    ∀ r ∈ mkRows names rows mapped passes vals, r.eligible = true →
      ((product (levelsOf ss names)).filter (fun k => decide (r.key = k))).length = 1 :=
  fun r hr hel => partition_unique _ (levelsOf_nodup ss hss names) r (mkRows_valid ss rows mapped h names passes vals r hr hel)

/-! ### the whole simulation, seen from one adding observation -/

/-- the stratified population of an event (`[]` if stratification fails – then the event raises anyway) -/
def mappedOf (ss : List Strat) (rows : List RawRow) : List (List (String × Option String)) :=
  match stratifyAll ss rows with
  | .ok m => m
  | .error _ => []

/-- one simulation event as seen by ONE adding observation: a row-layer event `(to_observe?, rows)`;
events of other phases, events nobody is in, and events without input for the observation contribute nothing -/
def eventFor (ss : List Strat) (o : Obs) (ev : String × Int × List RawRow × List ObsInput) : Bool × List Row :=
  if ev.1 = o.phase ∧ (ev.2.2.1.filter (·.inEvent)).isEmpty = false then
    match ev.2.2.2.find? (fun i => i.name = o.name) with
    | some i => (i.toObserve, mkRows o.strats ev.2.2.1 (mappedOf ss ev.2.2.1) i.passes i.vals)
    | none => (false, [])
  else (false, [])

theorem gatherEvent_entry (c c' : Ctx) (ev : String × Int × List RawRow × List ObsInput)
    (h : gatherEvent c ev.1 ev.2.1 ev.2.2.1 ev.2.2.2 = .ok c')
    (hnd : (c.obs.map (·.name)).Nodup) (o : Obs) (ho : o ∈ c.obs) (hk : o.kind = .adding)
    (acc : Table) (hacc : getAssoc o.name c.adding = some acc) :
    c'.obs = c.obs ∧ c'.strats = c.strats ∧
    getAssoc o.name c'.adding =
      some (gather (levelsOf c.strats o.strats) (eventFor c.strats o ev).1 acc (eventFor c.strats o ev).2) := by
  obtain ⟨ph, time, rows, inputs⟩ := ev
  simp only at h
  by_cases hempty : (rows.filter (·.inEvent)).isEmpty = true
  · -- nobody in the event
    unfold gatherEvent at h
    rw [if_pos hempty] at h
    cases h
    refine ⟨rfl, rfl, ?_⟩
    have : eventFor c.strats o (ph, time, rows, inputs) = (false, []) := by
      unfold eventFor; simp [hempty]
    rw [this, to_observe_false_no_increment]; exact hacc
  · have hne : (rows.filter (·.inEvent)).isEmpty = false := by simpa using hempty
    unfold gatherEvent at h
    rw [if_neg hempty] at h
    cases hs : stratifyAll c.strats rows with
    | error e => rw [hs] at h; simp [bind, Except.bind] at h
    | ok mapped =>
      rw [hs] at h
      simp only [bind, Except.bind, pure, Except.pure] at h
      cases h
      have hfr := foldl_stepObs_obs time rows mapped inputs (traversal (c.obs.filter (fun o => o.phase = ph))) c
      refine ⟨hfr.1, hfr.2, ?_⟩
      have hmapped : mappedOf c.strats rows = mapped := by simp [mappedOf, hs]
      have hsub : ((traversal (c.obs.filter (fun o => o.phase = ph))).map (·.name)).Nodup :=
        traversal_nodup_names _ (List.Nodup.sublist (List.Sublist.map _ List.filter_sublist) hnd)
      by_cases hph : ph = o.phase
      · have hmem : o ∈ traversal (c.obs.filter (fun o => o.phase = ph)) :=
          (mem_traversal _ _).mpr (List.mem_filter.mpr ⟨ho, by simp [hph]⟩)
        cases hi : inputs.find? (fun i => i.name = o.name) with
        | some i =>
          have : eventFor c.strats o (ph, time, rows, inputs) =
              (i.toObserve, mkRows o.strats rows mapped i.passes i.vals) := by
            unfold eventFor; simp [hph, hne, hi, hmapped]
          rw [this]
          exact foldl_stepObs_adding time rows mapped inputs _ hsub c o hmem hk i hi acc hacc
        | none =>
          have : eventFor c.strats o (ph, time, rows, inputs) = (false, []) := by
            unfold eventFor; simp [hph, hne, hi]
          rw [this, to_observe_false_no_increment]
          -- no input: `stepObs` skips the observation, the others do not touch its entry
          have key : ∀ (os : List Obs) (c0 : Ctx), getAssoc o.name c0.adding = some acc →
              (∀ o' ∈ os, o'.name = o.name → o' = o) →
              getAssoc o.name (os.foldl (stepObs time rows mapped inputs) c0).adding = some acc := by
            intro os
            induction os with
            | nil => intro c0 h0 _; exact h0
            | cons o0 os ih =>
              intro c0 h0 hall
              rw [List.foldl_cons]
              apply ih
              · by_cases hn : o0.name = o.name
                · have := hall o0 List.mem_cons_self hn
                  subst this
                  unfold stepObs; rw [hi]; exact h0
                · exact ((stepObs_frame time rows mapped inputs c0 o0 o.name hn).1).trans h0
              · exact fun o' ho' => hall o' (List.mem_cons_of_mem _ ho')
          exact key _ c hacc (fun o' ho' hn =>
            eq_of_name_eq hnd (List.mem_filter.mp ((mem_traversal _ _).mp ho')).1 ho hn)
      · have : eventFor c.strats o (ph, time, rows, inputs) = (false, []) := by
          unfold eventFor; simp [hph]
        rw [this, to_observe_false_no_increment]
        have hothers : ∀ o' ∈ traversal (c.obs.filter (fun o => o.phase = ph)), o'.name ≠ o.name := by
          intro o' ho' hn
          have h1 := List.mem_filter.mp ((mem_traversal _ _).mp ho')
          have heq := eq_of_name_eq hnd h1.1 ho hn
          have h2 : o'.phase = ph := by simpa using h1.2
          rw [heq] at h2
          exact hph h2.symm
        exact ((foldl_stepObs_frame time rows mapped inputs _ c o.name hothers).1).trans hacc

/-- a whole simulation, seen from one adding observation: its raw results after `runSim` are the row-layer fold of
`gather` over the events as that observation sees them -/
theorem runSim_adding (c c' : Ctx) (events : List (String × Int × List RawRow × List ObsInput))
    (h : runSim c events = .ok c') (hnd : (c.obs.map (·.name)).Nodup) (o : Obs) (ho : o ∈ c.obs)
    (hk : o.kind = .adding) (acc : Table) (hacc : getAssoc o.name c.adding = some acc) :
    getAssoc o.name c'.adding =
      some ((events.map (eventFor c.strats o)).foldl
        (fun acc e => gather (levelsOf c.strats o.strats) e.1 acc e.2) acc) := by
  induction events generalizing c acc with
  | nil => simp only [runSim] at h; cases h; simpa using hacc
  | cons ev es ih =>
    obtain ⟨ph, time, rows, inputs⟩ := ev
    simp only [runSim] at h
    cases hg : gatherEvent c ph time rows inputs with
    | error e => rw [hg] at h; simp [bind, Except.bind] at h
    | ok c1 =>
      rw [hg] at h
      simp only [bind, Except.bind] at h
      obtain ⟨hobs, hstr, hent⟩ := gatherEvent_entry c c1 (ph, time, rows, inputs) hg hnd o ho hk acc hacc
      have := ih c1 h (hobs ▸ hnd) (hobs ▸ ho) _ hent
      rw [hstr] at this
      simpa using this

/-- the property for a whole simulation: after `on_post_setup` and any sequence of events that did not raise,
the reported result of an adding observation has one row per combination of its non-excluded categories and
each value is the sum over the events of that event's increment -/
theorem simulation_result (c0 c c' : Ctx) (events : List (String × Int × List RawRow × List ObsInput))
    (hsetup : postSetup c0 = .ok c) (h : runSim c events = .ok c') (hnd : (c0.obs.map (·.name)).Nodup)
    (o : Obs) (ho : o ∈ c0.obs) (hk : o.kind = .adding) :
    getAssoc o.name c'.adding =
      some ((product (levelsOf c0.strats o.strats)).map fun k =>
        (k, ((events.map (eventFor c0.strats o)).map (eventTerm k)).sum)) := by
  unfold postSetup at hsetup
  split at hsetup
  · cases hsetup
  · cases hsetup
    have hacc : getAssoc o.name
        ((c0.obs.filter (fun o => o.kind = .adding)).map fun o => (o.name, initResults (levelsOf c0.strats o.strats))) =
        some (initResults (levelsOf c0.strats o.strats)) := by
      have hmem : o ∈ c0.obs.filter (fun o => o.kind = .adding) := List.mem_filter.mpr ⟨ho, by simp [hk]⟩
      have hsub : ((c0.obs.filter (fun o => o.kind = .adding)).map (·.name)).Nodup :=
        List.Nodup.sublist (List.Sublist.map _ List.filter_sublist) hnd
      generalize c0.obs.filter (fun o => o.kind = .adding) = l at hmem hsub
      induction l with
      | nil => cases hmem
      | cons x xs ih =>
        rw [List.map_cons, List.nodup_cons] at hsub
        rcases List.mem_cons.mp hmem with rfl | hm
        · simp [getAssoc]
        · have hne : ¬ x.name = o.name := fun e => hsub.1 (e ▸ List.mem_map_of_mem hm)
          simp only [List.map_cons, getAssoc, List.find?_cons, hne, decide_false]
          exact ih hm hsub.2
    have := runSim_adding _ c' events h hnd o ho hk _ hacc
    rw [this]
    congr 1
    exact result_is_sum_of_increments _ _

/-! ### failing gatherings (lesson 16): a user callable raises, the caller catches the exception and carries on -/

/-- an event of a history in which the caller catches: phase, time, rows, the callables' outputs (with the callable
that raises when it is called, per observation) and the failures of the event as a whole -/
abbrev EventC := String × Int × List RawRow × List ObsInput × EventFault

/-- the observations (registered as `all`) that the gathering of the event reaches before anything raises -/
def reachedList (all : List Obs) (phase : String) (rows : List RawRow) (mapped : List (List (String × Option String)))
    (inputs : List ObsInput) : List Obs :=
  (traversal (all.filter (fun o => o.phase = phase))).takeWhile (fun o => !raisesAt rows mapped inputs o)

theorem reachedObs_eq (c : Ctx) (phase : String) (rows : List RawRow) (mapped : List (List (String × Option String)))
    (inputs : List ObsInput) : reachedObs c phase rows mapped inputs = reachedList c.obs phase rows mapped inputs := rfl

/-- one event of such a history as seen by ONE adding observation: the event as `eventFor` shows it when the
observation was actually gathered (nothing raised before it was reached), nothing at all otherwise -/
def eventForC (ss : List Strat) (all : List Obs) (o : Obs) (ev : EventC) : Bool × List Row :=
  if ev.2.2.2.2.prepare = true ∨ ev.2.2.2.2.mapper = true then (false, [])
  else if o ∈ reachedList all ev.1 ev.2.2.1 (mappedOf ss ev.2.2.1) ev.2.2.2.1 then
    eventFor ss o (ev.1, ev.2.1, ev.2.2.1, ev.2.2.2.1)
  else (false, [])

theorem takeWhile_all {α : Type} (p : α → Bool) (l : List α) (h : ∀ a ∈ l, p a = true) : l.takeWhile p = l := by
  induction l with
  | nil => rfl
  | cons a as ih =>
    rw [List.takeWhile_cons, h a List.mem_cons_self]
    simp only [if_true]
    rw [ih (fun b hb => h b (List.mem_cons_of_mem _ hb))]

/-- an observation without input at the event is skipped; the others do not touch its entry -/
theorem foldl_stepObs_no_input (time : Int) (rows : List RawRow) (mapped : List (List (String × Option String)))
    (inputs : List ObsInput) (o : Obs) (hi : inputs.find? (fun i => i.name = o.name) = none) (acc : Table)
    (os : List Obs) (c0 : Ctx) (h0 : getAssoc o.name c0.adding = some acc)
    (hall : ∀ o' ∈ os, o'.name = o.name → o' = o) :
    getAssoc o.name (os.foldl (stepObs time rows mapped inputs) c0).adding = some acc := by
  induction os generalizing c0 with
  | nil => exact h0
  | cons o0 os ih =>
    rw [List.foldl_cons]
    apply ih
    · by_cases hn : o0.name = o.name
      · have := hall o0 List.mem_cons_self hn
        subst this
        unfold stepObs; rw [hi]; exact h0
      · exact ((stepObs_frame time rows mapped inputs c0 o0 o.name hn).1).trans h0
    · exact fun o' ho' => hall o' (List.mem_cons_of_mem _ ho')

/-- A gathering that raises before any observation is reached – a required pipeline in `_prepare_population`, a
mapper, an unknown category – records NOTHING: the context is what it was, and the exception is reported. -/
theorem failed_before_observations_records_nothing (c : Ctx) (phase : String) (time : Int) (rows : List RawRow)
    (inputs : List ObsInput) (ef : EventFault)
    (h : ef.prepare = true ∨ ((rows.filter (·.inEvent)).isEmpty = false ∧
          (ef.mapper = true ∨ ∃ e, stratifyAll c.strats rows = .error e))) :
    (gatherCaught c phase time rows inputs ef).1 = c ∧ (gatherCaught c phase time rows inputs ef).2 ≠ none := by
  unfold gatherCaught
  by_cases hp : ef.prepare = true
  · simp [hp]
  · rcases h with h | ⟨hne, h⟩
    · exact absurd h hp
    · simp only [hp, hne, Bool.false_eq_true, if_false]
      by_cases hm : ef.mapper = true
      · simp [hm]
      · rcases h with h | ⟨e, he⟩
        · exact absurd h hm
        · simp [hm, he]

/-- without failing callables `gatherCaught` is `gatherEvent`: the fault-free theorems above are theorems about it -/
theorem gatherCaught_no_fault (c : Ctx) (phase : String) (time : Int) (rows : List RawRow) (inputs : List ObsInput)
    (hnf : ∀ i ∈ inputs, i.fault = .none) :
    gatherCaught c phase time rows inputs {} =
      match gatherEvent c phase time rows inputs with
      | .ok c' => (c', none)
      | .error e => (c, some e) := by
  unfold gatherCaught gatherEvent
  by_cases hempty : (rows.filter (·.inEvent)).isEmpty = true
  · simp [hempty]
  · simp only [hempty, Bool.false_eq_true, if_false]
    cases hs : stratifyAll c.strats rows with
    | error e => simp [bind, Except.bind]
    | ok mapped =>
      have hall : reachedObs c phase rows mapped inputs = traversal (c.obs.filter (fun o => o.phase = phase)) := by
        unfold reachedObs
        apply takeWhile_all
        intro o _
        unfold raisesAt
        cases hf : inputs.find? (fun i => i.name = o.name) with
        | none => rfl
        | some i => simp [hnf i (List.mem_of_find?_eq_some hf)]
      simp [bind, Except.bind, pure, Except.pure, hall]

/-- What ONE adding observation sees of an event whose exceptions are caught: if the gathering reached it, exactly
the row-layer `gather` of that event (its full increment, once); if something raised before it was reached – or
the event is of another phase, or nobody is in it – nothing at all.  Registrations are untouched either way. -/
theorem gatherCaught_entry (c : Ctx) (ev : EventC) (hnd : (c.obs.map (·.name)).Nodup) (o : Obs) (ho : o ∈ c.obs)
    (hk : o.kind = .adding) (acc : Table) (hacc : getAssoc o.name c.adding = some acc) :
    (gatherCaught c ev.1 ev.2.1 ev.2.2.1 ev.2.2.2.1 ev.2.2.2.2).1.obs = c.obs ∧
    (gatherCaught c ev.1 ev.2.1 ev.2.2.1 ev.2.2.2.1 ev.2.2.2.2).1.strats = c.strats ∧
    getAssoc o.name (gatherCaught c ev.1 ev.2.1 ev.2.2.1 ev.2.2.2.1 ev.2.2.2.2).1.adding =
      some (gather (levelsOf c.strats o.strats) (eventForC c.strats c.obs o ev).1 acc (eventForC c.strats c.obs o ev).2) := by
  obtain ⟨ph, time, rows, inputs, ef⟩ := ev
  simp only
  unfold gatherCaught
  by_cases hp : ef.prepare = true
  · have : eventForC c.strats c.obs o (ph, time, rows, inputs, ef) = (false, []) := by
      unfold eventForC; simp [hp]
    simp only [hp, if_true, this, to_observe_false_no_increment]
    exact ⟨trivial, trivial, hacc⟩
  simp only [hp, Bool.false_eq_true, if_false]
  by_cases hempty : (rows.filter (·.inEvent)).isEmpty = true
  · have : eventForC c.strats c.obs o (ph, time, rows, inputs, ef) = (false, []) := by
      unfold eventForC eventFor
      simp only [hempty]
      split
      · rfl
      · split <;> simp
    simp only [hempty, if_true, this, to_observe_false_no_increment]
    exact ⟨trivial, trivial, hacc⟩
  have hne : (rows.filter (·.inEvent)).isEmpty = false := by simpa using hempty
  simp only [hempty, Bool.false_eq_true, if_false]
  by_cases hm : ef.mapper = true
  · have : eventForC c.strats c.obs o (ph, time, rows, inputs, ef) = (false, []) := by
      unfold eventForC; simp [hm]
    simp only [hm, if_true, this, to_observe_false_no_increment]
    exact ⟨trivial, trivial, hacc⟩
  simp only [hm, Bool.false_eq_true, if_false]
  have hnof : ¬ (ef.prepare = true ∨ ef.mapper = true) := by
    rintro (h | h)
    · exact hp h
    · exact hm h
  cases hs : stratifyAll c.strats rows with
  | error e =>
    refine ⟨rfl, rfl, ?_⟩
    have hmapped : mappedOf c.strats rows = [] := by simp [mappedOf, hs]
    have : gather (levelsOf c.strats o.strats) (eventForC c.strats c.obs o (ph, time, rows, inputs, ef)).1 acc
        (eventForC c.strats c.obs o (ph, time, rows, inputs, ef)).2 = acc := by
      unfold eventForC
      rw [if_neg hnof]
      split
      · unfold eventFor
        split
        · simp only [hmapped]
          split
          · apply no_eligible_no_increment
            simp [mkRows]
          · exact to_observe_false_no_increment _ _ _
        · exact to_observe_false_no_increment _ _ _
      · exact to_observe_false_no_increment _ _ _
    rw [this]; exact hacc
  | ok mapped =>
    simp only
    have hmapped : mappedOf c.strats rows = mapped := by simp [mappedOf, hs]
    have hfr := foldl_stepObs_obs time rows mapped inputs (reachedObs c ph rows mapped inputs) c
    refine ⟨hfr.1, hfr.2, ?_⟩
    have hsubl : (reachedObs c ph rows mapped inputs).Sublist (traversal (c.obs.filter (fun o => o.phase = ph))) :=
      List.takeWhile_sublist _
    have hsub : ((reachedObs c ph rows mapped inputs).map (·.name)).Nodup :=
      List.Nodup.sublist (List.Sublist.map _ hsubl)
        (traversal_nodup_names _ (List.Nodup.sublist (List.Sublist.map _ List.filter_sublist) hnd))
    have hin : ∀ o' ∈ reachedObs c ph rows mapped inputs, o' ∈ c.obs ∧ o'.phase = ph := by
      intro o' ho'
      have := List.mem_filter.mp ((mem_traversal _ _).mp (hsubl.subset ho'))
      exact ⟨this.1, by simpa using this.2⟩
    by_cases hr : o ∈ reachedObs c ph rows mapped inputs
    · have hph : o.phase = ph := (hin o hr).2
      cases hi : inputs.find? (fun i => i.name = o.name) with
      | some i =>
        have : eventForC c.strats c.obs o (ph, time, rows, inputs, ef) =
            (i.toObserve, mkRows o.strats rows mapped i.passes i.vals) := by
          unfold eventForC
          rw [if_neg hnof]
          simp only [hmapped]
          rw [if_pos (by rw [← reachedObs_eq]; exact hr)]
          unfold eventFor
          simp [hph, hne, hi, hmapped]
        rw [this]
        exact foldl_stepObs_adding time rows mapped inputs _ hsub c o hr hk i hi acc hacc
      | none =>
        have : eventForC c.strats c.obs o (ph, time, rows, inputs, ef) = (false, []) := by
          unfold eventForC
          rw [if_neg hnof]
          simp only [hmapped]
          rw [if_pos (by rw [← reachedObs_eq]; exact hr)]
          unfold eventFor
          simp [hph, hne, hi]
        rw [this, to_observe_false_no_increment]
        exact foldl_stepObs_no_input time rows mapped inputs o hi acc _ c hacc
          (fun o' ho' hn => eq_of_name_eq hnd (hin o' ho').1 ho hn)
    · have : eventForC c.strats c.obs o (ph, time, rows, inputs, ef) = (false, []) := by
        unfold eventForC
        rw [if_neg hnof]
        simp only [hmapped]
        rw [if_neg (by rw [← reachedObs_eq]; exact hr)]
      rw [this, to_observe_false_no_increment]
      have hothers : ∀ o' ∈ reachedObs c ph rows mapped inputs, o'.name ≠ o.name := by
        intro o' ho' hn
        have := eq_of_name_eq hnd (hin o' ho').1 ho hn
        exact hr (this ▸ ho')
      exact ((foldl_stepObs_frame time rows mapped inputs _ c o.name hothers).1).trans hacc

/-- a whole history in which every exception is caught, seen from one adding observation: the row-layer fold of
`gather` over the events as that observation saw them (`eventForC`: not at all when it was not reached) -/
theorem runCaught_adding (c : Ctx) (events : List EventC) (hnd : (c.obs.map (·.name)).Nodup) (o : Obs)
    (ho : o ∈ c.obs) (hk : o.kind = .adding) (acc : Table) (hacc : getAssoc o.name c.adding = some acc) :
    (runCaught c events).obs = c.obs ∧ (runCaught c events).strats = c.strats ∧
    getAssoc o.name (runCaught c events).adding =
      some ((events.map (eventForC c.strats c.obs o)).foldl
        (fun acc e => gather (levelsOf c.strats o.strats) e.1 acc e.2) acc) := by
  induction events generalizing c acc with
  | nil => exact ⟨rfl, rfl, by simpa [runCaught] using hacc⟩
  | cons ev es ih =>
    obtain ⟨hobs, hstr, hent⟩ := gatherCaught_entry c ev hnd o ho hk acc hacc
    have := ih (gatherCaught c ev.1 ev.2.1 ev.2.2.1 ev.2.2.2.1 ev.2.2.2.2).1 (hobs ▸ hnd) (hobs ▸ ho) _ hent
    rw [hobs, hstr] at this
    simpa [runCaught] using this

/-- THE PROPERTY FOR A HISTORY WITH FAILED GATHERINGS.  After `on_post_setup` and any sequence of events – some of
whose gatherings raise, the caller catching the exception, reading results, running the step again – the reported
result of an adding observation has one row per combination of its non-excluded categories, and each value is the
sum, over the events in which the observation WAS ACTUALLY GATHERED, of that event's increment: every such event
contributes exactly once (also a retried one, also one emitted again for the same clock time), an event whose
gathering raised before the observation was reached contributes nothing, and nothing else is remembered. -/
theorem caught_simulation_result (c0 c : Ctx) (events : List EventC) (hsetup : postSetup c0 = .ok c)
    (hnd : (c0.obs.map (·.name)).Nodup) (o : Obs) (ho : o ∈ c0.obs) (hk : o.kind = .adding) :
    getAssoc o.name (runCaught c events).adding =
      some ((product (levelsOf c0.strats o.strats)).map fun k =>
        (k, ((events.map (eventForC c0.strats c0.obs o)).map (eventTerm k)).sum)) := by
  unfold postSetup at hsetup
  split at hsetup
  · cases hsetup
  · have hco : c.obs = c0.obs := by cases hsetup; rfl
    have hcs : c.strats = c0.strats := by cases hsetup; rfl
    have hca : c.adding = (c0.obs.filter (fun o => o.kind = .adding)).map
        fun o => (o.name, initResults (levelsOf c0.strats o.strats)) := by cases hsetup; rfl
    have hacc : getAssoc o.name c.adding = some (initResults (levelsOf c0.strats o.strats)) := by
      rw [hca]
      have hmem : o ∈ c0.obs.filter (fun o => o.kind = .adding) := List.mem_filter.mpr ⟨ho, by simp [hk]⟩
      have hsub : ((c0.obs.filter (fun o => o.kind = .adding)).map (·.name)).Nodup :=
        List.Nodup.sublist (List.Sublist.map _ List.filter_sublist) hnd
      generalize c0.obs.filter (fun o => o.kind = .adding) = l at hmem hsub
      induction l with
      | nil => cases hmem
      | cons x xs ih =>
        rw [List.map_cons, List.nodup_cons] at hsub
        rcases List.mem_cons.mp hmem with rfl | hm
        · simp [getAssoc]
        · have hne : ¬ x.name = o.name := fun e => hsub.1 (e ▸ List.mem_map_of_mem hm)
          simp only [List.map_cons, getAssoc, List.find?_cons, hne, decide_false]
          exact ih hm hsub.2
    have := (runCaught_adding c events (by rw [hco]; exact hnd) o (by rw [hco]; exact ho) hk _ hacc).2.2
    rw [hco, hcs] at this
    rw [this]
    congr 1
    exact result_is_sum_of_increments _ _

/-- An event whose gathering raised before observation `o` was reached changes nothing for `o`, whatever happens
before and after: the history with the failed event and the history without it report the same for `o`.  In
particular the step that is run again after the failure contributes once, not twice and not zero times. -/
theorem failed_event_changes_nothing (c : Ctx) (pre post : List EventC) (ev : EventC)
    (hnd : (c.obs.map (·.name)).Nodup) (o : Obs) (ho : o ∈ c.obs) (hk : o.kind = .adding) (acc : Table)
    (hacc : getAssoc o.name c.adding = some acc)
    (hnot : eventForC c.strats c.obs o ev = (false, [])) :
    getAssoc o.name (runCaught c (pre ++ ev :: post)).adding = getAssoc o.name (runCaught c (pre ++ post)).adding := by
  rw [(runCaught_adding c _ hnd o ho hk acc hacc).2.2, (runCaught_adding c _ hnd o ho hk acc hacc).2.2]
  simp only [List.map_append, List.map_cons, List.foldl_append, List.foldl_cons, hnot,
    to_observe_false_no_increment]

/-- a history without failing callables in which `runSim` goes through is that very run -/
theorem runCaught_eq_runSim (c c' : Ctx) (events : List (String × Int × List RawRow × List ObsInput))
    (hnf : ∀ e ∈ events, ∀ i ∈ e.2.2.2, i.fault = .none) (h : runSim c events = .ok c') :
    runCaught c (events.map fun e => (e.1, e.2.1, e.2.2.1, e.2.2.2, ({} : EventFault))) = c' := by
  induction events generalizing c with
  | nil => simp only [runSim] at h; cases h; rfl
  | cons ev es ih =>
    obtain ⟨ph, time, rows, inputs⟩ := ev
    simp only [runSim] at h
    cases hg : gatherEvent c ph time rows inputs with
    | error e => rw [hg] at h; simp [bind, Except.bind] at h
    | ok c1 =>
      rw [hg] at h
      simp only [bind, Except.bind] at h
      have h1 := gatherCaught_no_fault c ph time rows inputs (hnf _ List.mem_cons_self)
      rw [hg] at h1
      have := ih c1 (fun e he => hnf e (List.mem_cons_of_mem _ he)) h
      simp only [runCaught, List.map_cons, List.foldl_cons, h1]
      simpa [runCaught] using this

/-- `register_observation` keeps observation names unique (a duplicate name is refused), whatever the `pop_filter` -/
theorem registerObservation_names_nodup_filter (c c' : Ctx) (name phase : String) (kind : Kind) (add exc : List String)
    (cb : Bool) (flt : String) (hnd : (c.obs.map (·.name)).Nodup)
    (h : registerObservation c name phase kind add exc cb flt = .ok c') :
    (c'.obs.map (·.name)).Nodup := by
  unfold registerObservation at h
  split at h
  · cases h
  split at h
  · cases h
  · rename_i _ hdup
    cases h
    simp only [List.map_append, List.map_cons, List.map_nil]
    rw [List.nodup_append]
    refine ⟨hnd, by simp, ?_⟩
    intro a ha b hb hab
    simp at hb; subst hb; subst hab
    apply hdup
    rw [List.any_eq_true]
    obtain ⟨o, ho, rfl⟩ := List.mem_map.mp ha
    exact ⟨o, ho, by simp⟩

/-- … in particular with the default filter of the interface (the statement as it was before `pop_filter` was modelled) -/
theorem registerObservation_names_nodup (c c' : Ctx) (name phase : String) (kind : Kind) (add exc : List String)
    (cb : Bool) (hnd : (c.obs.map (·.name)).Nodup) (h : registerObservation c name phase kind add exc cb = .ok c') :
    (c'.obs.map (·.name)).Nodup :=
  registerObservation_names_nodup_filter c c' name phase kind add exc cb defaultFilter hnd h

/-! ### which stratifications an observation uses (`_get_stratifications`) -/

/-- no stratification is used twice by one observation -/
theorem resolve_nodup (d a x : List String) : (resolve d a x).Nodup :=
  nodup_sortStrings _ (nodup_eraseDups _)

/-- an adding observation is stratified by exactly the default and additional stratifications that are not
excluded for it, each once -/
theorem mem_resolve (d a x : List String) (n : String) :
    n ∈ resolve d a x ↔ (n ∈ d ∨ n ∈ a) ∧ n ∉ x := by
  unfold resolve
  rw [mem_sortStrings, List.mem_eraseDups, List.mem_filter, List.mem_append]
  simp

/-! ### binned stratifications (`_bin_data`: `pd.cut(right=False)`) -/

/-- a value in `[edges[i], edges[i+1])` gets label `i` (left-closed bins: a value ON an edge belongs to the
bin that starts there) -/
theorem binLabel_spec (es : List Int) (ls : List String) (v : Int) (i : Nat)
    (hsorted : es.Pairwise (· < ·)) (hi : i + 1 < es.length) (hl : i < ls.length)
    (hlo : es[i] ≤ v) (hhi : v < es[i + 1]) : binLabel es ls v = ls[i] := by
  induction i generalizing es ls with
  | zero =>
    match es, ls, hi, hl with
    | e0 :: e1 :: rest, l :: ls', _, _ =>
      simp only [List.getElem_cons_zero, List.getElem_cons_succ] at hlo hhi
      simp [binLabel, hlo, hhi]
  | succ i ih =>
    match es, ls, hi, hl with
    | e0 :: e1 :: rest, l :: ls', hi, hl =>
      simp only [List.getElem_cons_succ] at hlo hhi ⊢
      have hs' : (e1 :: rest).Pairwise (· < ·) := (List.pairwise_cons.mp hsorted).2
      have hi' : i + 1 < (e1 :: rest).length := by simp at hi ⊢; omega
      have hl' : i < ls'.length := by simp at hl; omega
      have hge : e1 ≤ (e1 :: rest)[i]'(by omega) := by
        cases i with
        | zero => simp
        | succ j =>
          have := (List.pairwise_cons.mp hs').1 ((e1 :: rest)[j + 1]'(by omega)) (by simp)
          omega
      have hnot : ¬ (e0 ≤ v ∧ v < e1) := by omega
      unfold binLabel
      rw [if_neg hnot]
      exact ih (e1 :: rest) ls' hs' hi' hl' hlo hhi

/-- a value below the first edge is a missing value (⇒ unknown category ⇒ the simulation stops) -/
theorem binLabel_below (es : List Int) (ls : List String) (v : Int)
    (hsorted : es.Pairwise (· < ·)) (h : ∀ e ∈ es, v < e) : binLabel es ls v = nanTok := by
  induction es generalizing ls with
  | nil => simp [binLabel]
  | cons e0 es ih =>
    cases es with
    | nil => cases ls <;> simp [binLabel]
    | cons e1 rest =>
      cases ls with
      | nil => simp [binLabel]
      | cons l ls' =>
        unfold binLabel
        have : ¬ (e0 ≤ v ∧ v < e1) := by
          have := h e0 (by simp); omega
        rw [if_neg this]
        exact ih ls' (List.pairwise_cons.mp hsorted).2 (fun e he => h e (List.mem_cons_of_mem _ he))

/-- … and so is a value at or above the last edge -/
theorem binLabel_above (es : List Int) (ls : List String) (v : Int) (h : ∀ e ∈ es, e ≤ v) :
    binLabel es ls v = nanTok := by
  induction es generalizing ls with
  | nil => simp [binLabel]
  | cons e0 es ih =>
    cases es with
    | nil => cases ls <;> simp [binLabel]
    | cons e1 rest =>
      cases ls with
      | nil => simp [binLabel]
      | cons l ls' =>
        unfold binLabel
        have : ¬ (e0 ≤ v ∧ v < e1) := by
          have := h e1 (by simp); omega
        rw [if_neg this]
        exact ih ls' (fun e he => h e (List.mem_cons_of_mem _ he))

/-! ### non-vacuity: the hypotheses are inhabited, the definitions compute what is claimed -/

def exLevels : List (List String) := [["a", "b"], ["U", "V"]]
def exRows : List Row :=
  [⟨true, true, [some "a", some "U"], 3⟩, ⟨true, true, [some "b", some "U"], 1⟩, ⟨true, false, [some "a", some "U"], 7⟩,
   ⟨false, true, [some "a", some "V"], 9⟩, ⟨true, true, [none, some "V"], 5⟩, ⟨true, true, [some "a", some "U"], 2⟩]

example : increment exLevels exRows = [(["a", "U"], 5), (["a", "V"], 0), (["b", "U"], 1), (["b", "V"], 0)] := by decide
example : eligibleSum exRows = 6 := by decide
example : ∀ r ∈ exRows, r.eligible = true → r.key ∈ product exLevels := by decide
example : runEvents exLevels [(true, exRows), (false, exRows), (true, []), (true, exRows)] =
    [(["a", "U"], 10), (["a", "V"], 0), (["b", "U"], 2), (["b", "V"], 0)] := by decide
example : runConcat [(true, 1, [⟨true, true, [10]⟩, ⟨true, false, [11]⟩]), (false, 2, [⟨true, true, [10]⟩]),
    (true, 3, [⟨false, true, [12]⟩, ⟨true, true, [10]⟩])] = [[1, 10], [3, 10]] := by decide
example : addStratification [("g", ["c"])] [] "g" ["a", "b", "c"] none none =
    .ok [⟨"g", ["a", "b"], ["c"], ["a", "b", "c"], none⟩] := by decide
example : addStratification [("g", ["c"])] [] "g" ["a", "b", "c"] (some []) none =
    .ok [⟨"g", ["a", "b", "c"], [], ["a", "b", "c"], none⟩] := by decide
example : stratify ⟨"g", ["a", "b"], ["c"], ["a", "b", "c"], none⟩ "zz" = .error .unknownCat := by decide
example : stratify ⟨"g", ["a", "b"], ["c"], ["a", "b", "c"], none⟩ "c" = .ok none := by decide
example : resolve ["g", "xb"] ["h2", "g"] ["xb"] = ["g", "h2"] := by decide
example : binLabel [0, 12, 24, 40] ["lo", "mid", "hi"] 12 = "mid" ∧ binLabel [0, 12, 24, 40] ["lo", "mid", "hi"] 40 = nanTok ∧
    binLabel [0, 12, 24, 40] ["lo", "mid", "hi"] 0 = "lo" := by decide

example : registerObservation {} "o" "time_step" .adding [] [] false = .error .missingCallable := rfl

/-! failing gatherings: three observations in two groups (`first` and `second` share filter and stratifications) -/
def exObs : List Obs :=
  [⟨"first", "cm", .adding, [], "F0"⟩, ⟨"filt", "cm", .adding, [], "F1"⟩, ⟨"second", "cm", .adding, [], "F0"⟩]
def exCtx : Ctx :=
  { obs := exObs, adding := [("first", [([], 0)]), ("filt", [([], 0)]), ("second", [([], 0)])] }
def exInputs (f : Fault) : List ObsInput :=
  [⟨"first", true, [true], [1], [], .none⟩, ⟨"filt", true, [true], [1], [], .none⟩, ⟨"second", true, [true], [1], [], f⟩]
def exSeen (c : Ctx) : List (Option Table) := ["first", "second", "filt"].map fun n => getAssoc n c.adding

-- groups in order of first registration, registration order inside a group
example : (traversal exObs).map (·.name) = ["first", "second", "filt"] := by decide
-- the aggregator of `second` raises: `first` (reached before) keeps the event's increment, `second` and `filt` see nothing
example : (gatherCaught exCtx "cm" 1 [⟨true, []⟩] (exInputs .gather) {}).2 = some .raised ∧
    exSeen (gatherCaught exCtx "cm" 1 [⟨true, []⟩] (exInputs .gather) {}).1 =
      [some [([], 1)], some [([], 0)], some [([], 0)]] := by decide
-- a mapper raises: nothing is recorded; a required pipeline raises even when nobody is in the event
example : exSeen (gatherCaught exCtx "cm" 1 [⟨true, []⟩] (exInputs .none) { mapper := true }).1 =
    [some [([], 0)], some [([], 0)], some [([], 0)]] := by decide
example : (gatherCaught exCtx "cm" 1 [] (exInputs .none) { prepare := true }).2 = some .raised ∧
    (gatherCaught exCtx "cm" 1 [] (exInputs .none) { mapper := true }).2 = none := by decide
-- the step is run again and succeeds: `first` has now seen two emissions, the others one
example : exSeen (runCaught exCtx [("cm", 1, [⟨true, []⟩], exInputs .gather, {}), ("cm", 1, [⟨true, []⟩], exInputs .none, {})]) =
    [some [([], 2)], some [([], 1)], some [([], 1)]] := by decide
example : eventForC [] exObs ⟨"second", "cm", .adding, [], "F0"⟩ ("cm", 1, [⟨true, []⟩], exInputs .gather, {}) = (false, []) := by
  decide

end Viv.Props.C16
