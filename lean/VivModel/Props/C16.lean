import VivModel.Model.Util
import VivModel.Model.Results
import VivModel.Lemmas.Results
/-! C16 — stratified results count every eligible simulant exactly once.

Row layer (`gather`, `runEvents`, `runConcat`): for EVERY list of levels, every list of rows and every list
of events (induction).  Context layer (`addStratification`, `stratify`, `gatherEvent`, `runSim`): for every
registered stratification list and every event.  `observation_conserves` joins the two: the hypotheses of
the row-layer theorems (distinct categories, every eligible row's stratum is one of the reported rows) are
established by the context layer itself. -/
namespace Viv.Props.C16
open Viv.Results

/-! ### each eligible simulant lies in exactly one stratum -/

theorem filter_eq_length_one {β : Type} [DecidableEq β] (l : List β) (hnd : l.Nodup) (a : β) (h : a ∈ l) :
    (l.filter (fun k => decide (a = k))).length = 1 := by
  induction l with
  | nil => cases h
  | cons c cs ih =>
    rw [List.nodup_cons] at hnd
    by_cases hc : a = c
    · subst hc
      have : cs.filter (fun k => decide (a = k)) = [] := by
        rw [List.filter_eq_nil_iff]
        intro k hk
        have : a ≠ k := fun e => hnd.1 (e ▸ hk)
        simp [this]
      simp [this]
    · have hmem : a ∈ cs := by
        rcases List.mem_cons.mp h with e | e
        · exact absurd e hc
        · exact e
      simp [hc, ih hnd.2 hmem]

/-- an eligible simulant whose categories are among the levels belongs to exactly one of the reported
strata (rows of the result). -/
theorem partition_unique (levels : List (List String)) (hnd : ∀ l ∈ levels, l.Nodup) (r : Row)
    (hk : r.key ∈ product levels) :
    ((product levels).filter (fun k => decide (r.key = k))).length = 1 :=
  filter_eq_length_one _ (nodup_product levels hnd) _ hk

/-- … and a simulant that is not eligible (not in the event, fails the filter, or sits in an excluded
category) belongs to none: it changes no stratum's aggregate. -/
theorem ineligible_in_no_stratum (k : Key) (r : Row) (rows : List Row) (h : r.eligible = false) :
    stratumSum k (r :: rows) = stratumSum k rows := by
  simp [stratumSum, h]

/-- an eligible simulant adds its value to its own stratum and to no other -/
theorem eligible_in_own_stratum (k : Key) (r : Row) (rows : List Row) (h : r.eligible = true) :
    stratumSum k (r :: rows) = (if r.key = k then r.val else 0) + stratumSum k rows := by
  by_cases hk : r.key = k
  · simp [stratumSum, h, hk]
  · simp [stratumSum, h, hk]

/-! ### conservation at one event -/

/-- the per-event increments over all strata add up to the aggregate over the eligible simulants -/
theorem sum_conservation (levels : List (List String)) (hnd : ∀ l ∈ levels, l.Nodup) (rows : List Row)
    (hvalid : ∀ r ∈ rows, r.eligible = true → r.key ∈ product levels) :
    ((increment levels rows).map (·.2)).sum = eligibleSum rows := by
  rw [increment_eq, List.map_map]
  have := strata_sum (product levels) (nodup_product levels hnd) Row.key Row.val (rows.filter Row.eligible)
    (fun x hx => by
      rw [List.mem_filter] at hx
      exact hvalid x hx.1 hx.2)
  exact this

/-- counting (`aggregator = len`): the increments add up to the NUMBER of eligible simulants -/
theorem count_conservation (levels : List (List String)) (hnd : ∀ l ∈ levels, l.Nodup) (rows : List Row)
    (hvalid : ∀ r ∈ rows, r.eligible = true → r.key ∈ product levels) (hone : ∀ r ∈ rows, r.val = 1) :
    ((increment levels rows).map (·.2)).sum = (rows.filter Row.eligible).length := by
  rw [sum_conservation levels hnd rows hvalid, eligibleSum, ← sum_ones]
  congr 1
  apply List.map_congr_left
  intro r hr
  exact hone r (List.mem_filter.mp hr).1

/-- the increment of every stratum is the aggregate over exactly the eligible simulants of that stratum,
and the increment table has one row per combination -/
theorem increment_per_stratum (levels : List (List String)) (rows : List Row) :
    increment levels rows = (product levels).map fun k => (k, stratumSum k rows) :=
  increment_eq levels rows

/-! ### `to_observe`, empty events -/

theorem to_observe_false_no_increment (levels : List (List String)) (acc : Table) (rows : List Row) :
    gather levels false acc rows = acc := by
  unfold gather; split <;> simp

theorem stratumSum_of_no_eligible (k : Key) (rows : List Row) (h : rows.filter Row.eligible = []) :
    stratumSum k rows = 0 := by
  simp [stratumSum, h]

/-- an event without eligible simulants leaves the results alone (`if filtered_pop.empty`) -/
theorem no_eligible_no_increment (levels : List (List String)) (t : Bool) (acc : Table) (rows : List Row)
    (h : rows.filter Row.eligible = []) : gather levels t acc rows = acc := by
  simp [gather, h]

/-! ### the reported result is the sum of the per-event increments, in the full shape -/

/-- what one event contributes to stratum `k` -/
def eventTerm (k : Key) (e : Bool × List Row) : Int := if e.1 then stratumSum k e.2 else 0

theorem gather_map (levels : List (List String)) (a : Key → Int) (e : Bool × List Row) :
    gather levels e.1 ((product levels).map fun k => (k, a k)) e.2 =
      (product levels).map fun k => (k, a k + eventTerm k e) := by
  unfold gather eventTerm
  by_cases hempty : (e.2.filter Row.eligible).isEmpty = true
  · have h0 : e.2.filter Row.eligible = [] := List.isEmpty_iff.mp hempty
    rw [if_pos hempty]
    apply List.map_congr_left
    intro k _
    rw [stratumSum_of_no_eligible k e.2 h0]
    split <;> simp
  · rw [if_neg hempty]
    cases ht : e.1
    · simp
    · simp only [if_true]
      rw [increment_eq, addResults_map]

theorem foldl_gather (levels : List (List String)) (events : List (Bool × List Row)) (a : Key → Int) :
    events.foldl (fun acc e => gather levels e.1 acc e.2) ((product levels).map fun k => (k, a k)) =
      (product levels).map fun k => (k, a k + (events.map (eventTerm k)).sum) := by
  induction events generalizing a with
  | nil => simp
  | cons e es ih =>
    rw [List.foldl_cons, gather_map, ih]
    apply List.map_congr_left
    intro k _
    simp only [List.map_cons, List.sum_cons]
    congr 1
    omega

/-- for every sequence of events: one row per combination of the levels, in product order, and the value
of each row is the sum over the events of that event's increment (0 for events not observed) -/
theorem result_is_sum_of_increments (levels : List (List String)) (events : List (Bool × List Row)) :
    runEvents levels events = (product levels).map fun k => (k, (events.map (eventTerm k)).sum) := by
  unfold runEvents initResults
  rw [foldl_gather levels events (fun _ => 0)]
  apply List.map_congr_left
  intro k _
  simp

/-- shape: exactly the combinations of the (non-excluded) categories, whatever was observed -/
theorem result_shape (levels : List (List String)) (events : List (Bool × List Row)) :
    (runEvents levels events).map (·.1) = product levels := by
  rw [result_is_sum_of_increments, List.map_map]
  exact List.map_id _

/-- … each combination once (categories are distinct), so the number of rows is the product of the level
sizes -/
theorem result_rows_distinct (levels : List (List String)) (hnd : ∀ l ∈ levels, l.Nodup)
    (events : List (Bool × List Row)) :
    ((runEvents levels events).map (·.1)).Nodup ∧
    (runEvents levels events).length = (levels.map List.length).foldr (· * ·) 1 := by
  constructor
  · rw [result_shape]; exact nodup_product levels hnd
  · have := congrArg List.length (result_shape levels events)
    rw [List.length_map] at this
    rw [this, length_product]

/-- zero where nothing was observed -/
theorem result_zero_where_nothing_observed (levels : List (List String)) (events : List (Bool × List Row))
    (k : Key) (hk : k ∈ product levels)
    (hnone : ∀ e ∈ events, e.1 = true → ∀ r ∈ e.2, r.eligible = true → r.key ≠ k) :
    (k, (0 : Int)) ∈ runEvents levels events := by
  rw [result_is_sum_of_increments, List.mem_map]
  refine ⟨k, hk, ?_⟩
  congr 1
  apply sum_map_zero
  intro e he
  unfold eventTerm
  cases ht : e.1
  · simp
  · simp only [if_true]
    unfold stratumSum
    have : (e.2.filter Row.eligible).filter (fun r => decide (r.key = k)) = [] := by
      rw [List.filter_eq_nil_iff]
      intro r hr
      rw [List.mem_filter] at hr
      simpa using hnone e he ht r hr.1 hr.2
    simp [this]

/-- conservation over the whole run: the reported values add up to the aggregate over all eligible
simulants of all observed events -/
theorem total_conservation (levels : List (List String)) (hnd : ∀ l ∈ levels, l.Nodup)
    (events : List (Bool × List Row))
    (hvalid : ∀ e ∈ events, ∀ r ∈ e.2, r.eligible = true → r.key ∈ product levels) :
    ((runEvents levels events).map (·.2)).sum =
      (events.map fun e => if e.1 then eligibleSum e.2 else 0).sum := by
  rw [result_is_sum_of_increments, List.map_map]
  induction events with
  | nil => exact sum_map_zero _ _ (fun _ _ => rfl)
  | cons e es ih =>
    have hes : ∀ e' ∈ es, ∀ r ∈ e'.2, r.eligible = true → r.key ∈ product levels :=
      fun e' he' => hvalid e' (List.mem_cons_of_mem _ he')
    have h1 : ((product levels).map ((fun x : Key × Int => x.2) ∘ fun k => (k, ((e :: es).map (eventTerm k)).sum))) =
        (product levels).map (fun k => eventTerm k e + (es.map (eventTerm k)).sum) := by
      apply List.map_congr_left; intro k _; simp [Function.comp]
    rw [h1, sum_map_add, List.map_cons, List.sum_cons]
    have h2 : ((product levels).map fun k => (es.map (eventTerm k)).sum).sum =
        (es.map fun e => if e.1 then eligibleSum e.2 else 0).sum := by
      rw [← ih hes]; congr 1
    rw [h2]
    congr 1
    unfold eventTerm
    cases ht : e.1
    · simp; exact sum_map_zero _ _ (fun _ _ => rfl)
    · simp only [if_true]
      have := sum_conservation levels hnd e.2 (hvalid e List.mem_cons_self)
      rw [increment_eq, List.map_map] at this
      exact this

/-! ### excluded categories -/

/-- a simulant in an excluded category (NaN after `stratify`) is dropped: no increment anywhere -/
theorem excluded_dropped (levels : List (List String)) (r : Row) (rows : List Row)
    (hex : r.cats.any Option.isNone = true) : increment levels (r :: rows) = increment levels rows := by
  have hne : r.eligible = false := by
    unfold Row.eligible
    have : r.cats.all Option.isSome = false := by
      rw [List.any_eq_true] at hex
      obtain ⟨c, hc, hn⟩ := hex
      rw [← Bool.not_eq_true, List.all_eq_true]
      intro hall
      have h := hall c hc
      cases c
      · simp at h
      · simp at hn
    simp [this]
  simp [increment, hne]

/-- registration removes the excluded categories from the levels (so no row is reported for them) and
keeps the categories distinct; exclusions given in code win over the configuration -/
theorem addStratification_spec (cfg : List (String × List String)) (ss ss' : List Strat) (name : String)
    (cats : List String) (code : Option (List String)) (bins : Option (List Int))
    (h : addStratification cfg ss name cats code bins = .ok ss') :
    ∃ s, ss' = ss ++ [s] ∧ s.name = name ∧ s.cats.Nodup ∧ s.cats ≠ [] ∧
      s.excl = exclusionsFor cfg name code ∧
      (∀ c, c ∈ s.cats ↔ (c ∈ cats ∧ c ∉ s.excl)) ∧ (∀ c ∈ s.excl, c ∈ cats) ∧
      ¬ ss.any (fun t => t.name = name) = true := by
  unfold addStratification at h
  split at h; · cases h
  split at h; · cases h
  split at h; · cases h
  split at h; · cases h
  split at h; · cases h
  rename_i hb hdup hnd hex hempty
  cases h
  refine ⟨_, rfl, rfl, ?_, ?_, rfl, ?_, ?_, hdup⟩
  · exact List.Nodup.sublist List.filter_sublist (Classical.not_not.mp hnd)
  · intro h0; exact hempty (List.isEmpty_iff.mpr h0)
  · intro c; simp [List.mem_filter]
  · intro c hc
    apply Classical.byContradiction
    intro hn
    apply hex
    rw [List.any_eq_true]
    exact ⟨c, hc, by simpa using hn⟩

/-! ### unknown categories stop the simulation -/

/-- `stratify` on one simulant: a known category is kept, an excluded one becomes NaN, anything else
(including a missing value) is an error – never a silent drop -/
theorem stratify_spec (s : Strat) (raw : String) :
    (stratify s raw = .ok (some raw) ∧ raw ≠ nanTok ∧ raw ∈ s.cats) ∨
    (stratify s raw = .ok none ∧ raw ≠ nanTok ∧ raw ∉ s.cats ∧ raw ∈ s.excl) ∨
    (stratify s raw = .error .unknownCat ∧ (raw = nanTok ∨ (raw ∉ s.cats ∧ raw ∉ s.excl))) := by
  unfold stratify
  by_cases h0 : raw = nanTok
  · simp [h0]
  · by_cases h1 : raw ∈ s.cats
    · simp [h0, h1]
    · by_cases h2 : raw ∈ s.excl
      · simp [h0, h1, h2]
      · simp [h0, h1, h2]

theorem stratifyRow_error (ss : List Strat) (xs : List String) (s : Strat) (x : String)
    (hmem : (s, x) ∈ ss.zip xs) (hbad : stratify s x = .error .unknownCat) :
    stratifyRow ss xs = .error .unknownCat := by
  induction ss generalizing xs with
  | nil => simp at hmem
  | cons s0 ss ih =>
    cases xs with
    | nil => simp at hmem
    | cons x0 xs =>
      rw [List.zip_cons_cons, List.mem_cons] at hmem
      unfold stratifyRow
      rcases hmem with heq | hmem
      · cases heq
        simp [hbad, bind, Except.bind]
      · rcases stratify_spec s0 x0 with h | h | h
        · simp [h.1, ih xs hmem, bind, Except.bind]
        · simp [h.1, ih xs hmem, bind, Except.bind]
        · simp [h.1, bind, Except.bind]

theorem stratifyRow_only_unknown (ss : List Strat) (xs : List String) (e : Err)
    (h : stratifyRow ss xs = .error e) : e = .unknownCat := by
  induction ss generalizing xs e with
  | nil => simp [stratifyRow] at h
  | cons s0 ss ih =>
    cases xs with
    | nil => simp [stratifyRow] at h
    | cons x0 xs =>
      unfold stratifyRow at h
      rcases stratify_spec s0 x0 with h0 | h0 | h0
      · simp only [h0.1, bind, Except.bind] at h
        cases h' : stratifyRow ss xs with
        | ok v => simp [h', pure, Except.pure] at h
        | error e' => simp [h'] at h; rw [← h]; exact ih xs e' h'
      · simp only [h0.1, bind, Except.bind] at h
        cases h' : stratifyRow ss xs with
        | ok v => simp [h', pure, Except.pure] at h
        | error e' => simp [h'] at h; rw [← h]; exact ih xs e' h'
      · simp only [h0.1, bind, Except.bind] at h
        cases h; rfl

theorem stratifyAll_error (ss : List Strat) (rows : List RawRow) (r : RawRow) (hr : r ∈ rows)
    (hin : r.inEvent = true) (hbad : stratifyRow ss r.raw = .error .unknownCat) :
    stratifyAll ss rows = .error .unknownCat := by
  induction rows with
  | nil => cases hr
  | cons r0 rows ih =>
    unfold stratifyAll
    rcases List.mem_cons.mp hr with heq | hmem
    · subst heq
      simp [hin, hbad, bind, Except.bind]
    · by_cases h0 : r0.inEvent = true
      · cases h1 : stratifyRow ss r0.raw with
        | ok v => simp [h0, ih hmem, bind, Except.bind]
        | error e =>
          have := stratifyRow_only_unknown ss r0.raw e h1
          subst this
          simp [h0, bind, Except.bind]
      · simp [h0, ih hmem, bind, Except.bind, pure, Except.pure]

/-- a mapper that produces an unknown category (or a missing value) for ANY simulant of the event makes
`gather_results` raise: the event is not recorded at all -/
theorem unknown_category_raises (c : Ctx) (phase : String) (time : Int) (rows : List RawRow)
    (inputs : List ObsInput) (r : RawRow) (hr : r ∈ rows) (hin : r.inEvent = true)
    (s : Strat) (x : String) (hmem : (s, x) ∈ c.strats.zip r.raw)
    (hbad : x = nanTok ∨ (x ∉ s.cats ∧ x ∉ s.excl)) :
    gatherEvent c phase time rows inputs = .error .unknownCat := by
  have h1 : stratify s x = .error .unknownCat := by
    rcases stratify_spec s x with h | h | h
    · rcases hbad with hb | hb
      · exact absurd hb h.2.1
      · exact absurd h.2.2 hb.1
    · rcases hbad with hb | hb
      · exact absurd hb h.2.1
      · exact absurd h.2.2.2 hb.2
    · exact h.1
  have h2 := stratifyRow_error c.strats r.raw s x hmem h1
  have h3 := stratifyAll_error c.strats rows r hr hin h2
  unfold gatherEvent
  have hne : ¬ (rows.filter (·.inEvent)).isEmpty = true := by
    intro he
    have := List.isEmpty_iff.mp he
    have hmem' : r ∈ rows.filter (·.inEvent) := List.mem_filter.mpr ⟨hr, hin⟩
    rw [this] at hmem'
    cases hmem'
  rw [if_neg hne, h3]
  rfl

/-- the simulation stops there: whatever events would follow are never processed, the run ends in the
error (`unknown_category_stops`) -/
theorem unknown_category_stops (c c' : Ctx)
    (pre post : List (String × Int × List RawRow × List ObsInput))
    (ev : String × Int × List RawRow × List ObsInput) (e : Err)
    (hpre : runSim c pre = .ok c') (hev : gatherEvent c' ev.1 ev.2.1 ev.2.2.1 ev.2.2.2 = .error e) :
    runSim c (pre ++ ev :: post) = .error e := by
  induction pre generalizing c with
  | nil =>
    simp only [runSim] at hpre
    cases hpre
    obtain ⟨ph, t, rows, inputs⟩ := ev
    simp only [List.nil_append, runSim]
    simp only at hev
    rw [hev]; rfl
  | cons p pre ih =>
    obtain ⟨ph, t, rows, inputs⟩ := p
    simp only [List.cons_append, runSim] at hpre ⊢
    cases hg : gatherEvent c ph t rows inputs with
    | ok c1 =>
      rw [hg] at hpre
      simp only [bind, Except.bind] at hpre ⊢
      exact ih c1 hpre
    | error e' =>
      rw [hg] at hpre
      simp [bind, Except.bind] at hpre

theorem stratifyAll_only_unknown (ss : List Strat) (rows : List RawRow) (e : Err)
    (h : stratifyAll ss rows = .error e) : e = .unknownCat := by
  induction rows generalizing e with
  | nil => simp [stratifyAll] at h
  | cons r0 rows ih =>
    unfold stratifyAll at h
    by_cases h0 : r0.inEvent = true
    · cases h1 : stratifyRow ss r0.raw with
      | ok v =>
        simp only [h0, h1, if_true, bind, Except.bind] at h
        cases h2 : stratifyAll ss rows with
        | ok v2 => simp [h2, pure, Except.pure] at h
        | error e2 => simp [h2] at h; rw [← h]; exact ih e2 h2
      | error e1 =>
        simp only [h0, h1, if_true, bind, Except.bind] at h
        cases h
        exact stratifyRow_only_unknown _ _ _ h1
    · simp only [h0, bind, Except.bind, pure, Except.pure] at h
      cases h2 : stratifyAll ss rows with
      | ok v2 => simp [h2] at h
      | error e2 => simp [h2] at h; rw [← h]; exact ih e2 h2

/-- … and nothing else ever stops an event: `gather_results` can only fail with an unknown category -/
theorem only_unknown_category_raises (c : Ctx) (phase : String) (time : Int) (rows : List RawRow)
    (inputs : List ObsInput) (e : Err) (h : gatherEvent c phase time rows inputs = .error e) :
    e = .unknownCat := by
  unfold gatherEvent at h
  split at h
  · cases h
  · cases hs : stratifyAll c.strats rows with
    | ok m => rw [hs] at h; simp [bind, Except.bind, pure, Except.pure] at h
    | error e' =>
      rw [hs] at h
      simp only [bind, Except.bind] at h
      cases h
      exact stratifyAll_only_unknown _ _ _ hs

/-! ### concatenating observations -/

/-- the rows one event contributes to a concatenating observation: the eligible simulants (in the event,
passing the filter), stamped with the event time -/
def concatTerm (e : Bool × Int × List CRow) : List (List Int) :=
  if e.1 then (e.2.2.filter CRow.eligible).map fun r => e.2.1 :: r.payload else []

theorem concatGather_eq (t : Bool) (acc : List (List Int)) (time : Int) (rows : List CRow) :
    concatGather t acc time rows = acc ++ concatTerm (t, time, rows) := by
  unfold concatGather concatTerm
  simp only
  by_cases he : ((rows.filter CRow.eligible).map fun r => time :: r.payload).isEmpty = true
  · have := List.isEmpty_iff.mp he
    rw [if_pos he, this]
    cases t <;> simp
  · rw [if_neg he]
    cases t
    · simp
    · by_cases ha : acc.isEmpty = true
      · have := List.isEmpty_iff.mp ha
        simp [this]
      · simp [ha]

/-- a concatenating observation returns the rows of exactly the eligible simulants, event after event -/
theorem concat_rows (events : List (Bool × Int × List CRow)) :
    runConcat events = events.flatMap concatTerm := by
  unfold runConcat
  have gen : ∀ acc : List (List Int),
      events.foldl (fun acc e => concatGather e.1 acc e.2.1 e.2.2) acc = acc ++ events.flatMap concatTerm := by
    induction events with
    | nil => intro acc; simp
    | cons e es ih =>
      intro acc
      rw [List.foldl_cons, ih, concatGather_eq, List.flatMap_cons, List.append_assoc]
  simpa using gen []

/-! ### the context layer establishes the hypotheses of the row layer -/

theorem stratifyRow_find (ss : List Strat) (xs : List String) (m : List (String × Option String))
    (h : stratifyRow ss xs = .ok m) (n : String) (e : String × Option String) (c : String)
    (hf : m.find? (fun e => e.1 = n) = some e) (hc : e.2 = some c) :
    ∃ s, findStrat ss n = some s ∧ c ∈ s.cats := by
  induction ss generalizing xs m with
  | nil => simp [stratifyRow] at h; subst h; simp at hf
  | cons s0 ss ih =>
    cases xs with
    | nil => simp [stratifyRow] at h; subst h; simp at hf
    | cons x0 xs =>
      unfold stratifyRow at h
      cases h0 : stratify s0 x0 with
      | error e0 => simp [h0, bind, Except.bind] at h
      | ok c0 =>
        cases h1 : stratifyRow ss xs with
        | error e1 => simp [h0, h1, bind, Except.bind] at h
        | ok rest =>
          simp only [h0, h1, bind, Except.bind, pure, Except.pure] at h
          cases h
          by_cases hn : s0.name = n
          · simp only [List.find?_cons, hn, decide_true] at hf
            cases hf
            simp only at hc
            subst hc
            refine ⟨s0, by simp [findStrat, hn], ?_⟩
            rcases stratify_spec s0 x0 with h | h | h
            · rw [h.1] at h0; cases h0; exact h.2.2
            · rw [h.1] at h0; cases h0
            · rw [h.1] at h0; cases h0
          · have : (decide (s0.name = n)) = false := by simp [hn]
            simp only [List.find?_cons, this] at hf
            obtain ⟨s, hs, hcs⟩ := ih xs rest h1 hf
            exact ⟨s, by simp [findStrat, hn] at hs ⊢; exact hs, hcs⟩

theorem catsFor_key_mem_product (ss : List Strat) (xs : List String) (m : List (String × Option String))
    (h : stratifyRow ss xs = .ok m ∨ m = []) (names : List String)
    (hall : (catsFor names m).all Option.isSome = true) :
    (catsFor names m).filterMap id ∈ product (levelsOf ss names) := by
  induction names with
  | nil => simp [catsFor, levelsOf, product]
  | cons n ns ih =>
    simp only [catsFor, List.map_cons, List.all_cons, Bool.and_eq_true] at hall
    obtain ⟨h1, h2⟩ := hall
    cases hf : m.find? (fun e => e.1 = n) with
    | none => simp [hf] at h1
    | some e =>
      rcases h with h | h
      · cases hc : e.2 with
        | none => simp [hf, hc] at h1
        | some c =>
          obtain ⟨s, hs, hcs⟩ := stratifyRow_find ss xs m h n e c hf hc
          have ih' := ih (by simpa [catsFor] using h2)
          simp only [catsFor, levelsOf, List.map_cons, hf, hs, Option.map_some, Option.getD_some, hc,
            List.filterMap_cons, id]
          rw [mem_product_cons]
          exact ⟨c, _, rfl, hcs, by simpa [catsFor, levelsOf] using ih'⟩
      · subst h; simp at hf

theorem stratifyAll_mem (ss : List Strat) (rows : List RawRow) (mapped : List (List (String × Option String)))
    (h : stratifyAll ss rows = .ok mapped) :
    ∀ m ∈ mapped, (∃ xs, stratifyRow ss xs = .ok m) ∨ m = [] := by
  induction rows generalizing mapped with
  | nil => simp [stratifyAll] at h; subst h; simp
  | cons r0 rows ih =>
    unfold stratifyAll at h
    cases h2 : stratifyAll ss rows with
    | error e2 =>
      by_cases h0 : r0.inEvent = true
      · cases h1 : stratifyRow ss r0.raw <;> simp [h0, h1, h2, bind, Except.bind] at h
      · simp [h0, h2, bind, Except.bind, pure, Except.pure] at h
    | ok rest =>
      by_cases h0 : r0.inEvent = true
      · cases h1 : stratifyRow ss r0.raw with
        | error e1 => simp [h0, h1, bind, Except.bind] at h
        | ok m0 =>
          simp only [h0, h1, h2, if_true, bind, Except.bind, pure, Except.pure] at h
          cases h
          intro m hm
          rcases List.mem_cons.mp hm with rfl | hm
          · exact .inl ⟨_, h1⟩
          · exact ih rest h2 m hm
      · simp only [h0, h2, bind, Except.bind, pure, Except.pure] at h
        cases h
        intro m hm
        rcases List.mem_cons.mp hm with rfl | hm
        · exact .inr rfl
        · exact ih rest h2 m hm

/-- every row the context hands to an observation is valid: if it is eligible, its stratum is one of the
combinations of the observation's levels -/
theorem mkRows_valid (ss : List Strat) (rows : List RawRow) (mapped : List (List (String × Option String)))
    (h : stratifyAll ss rows = .ok mapped) (names : List String) (passes : List Bool) (vals : List Int) :
    ∀ r ∈ mkRows names rows mapped passes vals, r.eligible = true → r.key ∈ product (levelsOf ss names) := by
  intro r hr hel
  unfold mkRows at hr
  rw [List.mem_map] at hr
  obtain ⟨⟨r0, m, p, v⟩, hz, rfl⟩ := hr
  have hm : m ∈ mapped := (List.of_mem_zip (List.of_mem_zip hz).2).1
  have hall : (catsFor names m).all Option.isSome = true := by
    simp only [Row.eligible, Bool.and_eq_true] at hel
    exact hel.2
  rcases stratifyAll_mem ss rows mapped h m hm with ⟨xs, hx⟩ | hx
  · exact catsFor_key_mem_product ss xs m (.inl hx) names hall
  · exact catsFor_key_mem_product ss [] m (.inr hx) names hall

theorem levelsOf_nodup (ss : List Strat) (hss : ∀ s ∈ ss, s.cats.Nodup) (names : List String) :
    ∀ l ∈ levelsOf ss names, l.Nodup := by
  intro l hl
  unfold levelsOf at hl
  rw [List.mem_map] at hl
  obtain ⟨n, _, rfl⟩ := hl
  cases hf : findStrat ss n with
  | none => simp
  | some s =>
    simp only [Option.map_some, Option.getD_some]
    exact hss s (List.mem_of_find?_eq_some hf)

/-- registering through `add_stratification` keeps every registered stratification's categories distinct -/
theorem registered_cats_nodup (cfg : List (String × List String)) (ss ss' : List Strat) (name : String)
    (cats : List String) (code : Option (List String)) (bins : Option (List Int))
    (hss : ∀ s ∈ ss, s.cats.Nodup) (h : addStratification cfg ss name cats code bins = .ok ss') :
    ∀ s ∈ ss', s.cats.Nodup := by
  obtain ⟨s, rfl, _, hnd, _⟩ := addStratification_spec cfg ss ss' name cats code bins h
  intro t ht
  rcases List.mem_append.mp ht with ht | ht
  · exact hss t ht
  · simp at ht; subst ht; exact hnd

/-- the property at the level of the results context, without side hypotheses about the rows: whenever the
stratification of an event succeeds, the increments an adding observation records over all its strata add
up to the aggregate over its eligible simulants -/
theorem observation_conserves (ss : List Strat) (hss : ∀ s ∈ ss, s.cats.Nodup) (rows : List RawRow)
    (mapped : List (List (String × Option String))) (h : stratifyAll ss rows = .ok mapped)
    (names : List String) (passes : List Bool) (vals : List Int) :
    ((increment (levelsOf ss names) (mkRows names rows mapped passes vals)).map (·.2)).sum =
      eligibleSum (mkRows names rows mapped passes vals) :=
  sum_conservation _ (levelsOf_nodup ss hss names) _ (mkRows_valid ss rows mapped h names passes vals)

/-! ### which stratifications an observation uses (`_get_stratifications`) -/

theorem mem_insertSorted (a b : String) (l : List String) : b ∈ insertSorted a l ↔ b = a ∨ b ∈ l := by
  induction l with
  | nil => simp [insertSorted]
  | cons c t ih =>
    unfold insertSorted
    split
    · simp
    · simp only [List.mem_cons, ih]
      constructor
      · rintro (h | h | h)
        · exact .inr (.inl h)
        · exact .inl h
        · exact .inr (.inr h)
      · rintro (h | h | h)
        · exact .inr (.inl h)
        · exact .inl h
        · exact .inr (.inr h)

theorem mem_sortStrings (b : String) (l : List String) : b ∈ sortStrings l ↔ b ∈ l := by
  induction l with
  | nil => simp [sortStrings]
  | cons c t ih =>
    simp only [sortStrings, List.foldr_cons, mem_insertSorted, List.mem_cons] at ih ⊢
    rw [ih]

theorem nodup_eraseDups (l : List String) : l.eraseDups.Nodup := by
  generalize hn : l.length = n
  induction n using Nat.strongRecOn generalizing l with
  | _ n ih =>
    cases l with
    | nil => simp
    | cons a as =>
      rw [List.eraseDups_cons, List.nodup_cons]
      constructor
      · rw [List.mem_eraseDups, List.mem_filter]; simp
      · subst hn
        exact ih _ (Nat.lt_succ_of_le (List.length_filter_le _ _)) _ rfl

theorem nodup_insertSorted (a : String) (l : List String) (h : a ∉ l) (hl : l.Nodup) : (insertSorted a l).Nodup := by
  induction l with
  | nil => simp [insertSorted]
  | cons c t ih =>
    rw [List.nodup_cons] at hl
    unfold insertSorted
    split
    · rw [List.nodup_cons]; exact ⟨h, List.nodup_cons.mpr hl⟩
    · rw [List.nodup_cons, mem_insertSorted]
      refine ⟨?_, ih (fun hm => h (List.mem_cons_of_mem _ hm)) hl.2⟩
      rintro (e | e)
      · exact h (e ▸ List.mem_cons_self)
      · exact hl.1 e

theorem nodup_sortStrings (l : List String) (hl : l.Nodup) : (sortStrings l).Nodup := by
  induction l with
  | nil => simp [sortStrings]
  | cons c t ih =>
    rw [List.nodup_cons] at hl
    have : sortStrings (c :: t) = insertSorted c (sortStrings t) := rfl
    rw [this]
    exact nodup_insertSorted c _ (fun hm => hl.1 ((mem_sortStrings c t).mp hm)) (ih hl.2)

/-- no stratification is used twice by one observation -/
theorem resolve_nodup (d a x : List String) : (resolve d a x).Nodup :=
  nodup_sortStrings _ (nodup_eraseDups _)

/-- an adding observation is stratified by exactly the default and additional stratifications that are not
excluded for it, each once -/
theorem mem_resolve (d a x : List String) (n : String) :
    n ∈ resolve d a x ↔ (n ∈ d ∨ n ∈ a) ∧ n ∉ x := by
  unfold resolve
  rw [mem_sortStrings, List.mem_eraseDups, List.mem_filter, List.mem_append]
  simp

/-! ### binned stratifications (`_bin_data`: `pd.cut(right=False)`) -/

/-- a value in `[edges[i], edges[i+1])` gets label `i` (left-closed bins: a value ON an edge belongs to the
bin that starts there) -/
theorem binLabel_spec (es : List Int) (ls : List String) (v : Int) (i : Nat)
    (hsorted : es.Pairwise (· < ·)) (hi : i + 1 < es.length) (hl : i < ls.length)
    (hlo : es[i] ≤ v) (hhi : v < es[i + 1]) : binLabel es ls v = ls[i] := by
  induction i generalizing es ls with
  | zero =>
    match es, ls, hi, hl with
    | e0 :: e1 :: rest, l :: ls', _, _ =>
      simp only [List.getElem_cons_zero, List.getElem_cons_succ] at hlo hhi
      simp [binLabel, hlo, hhi]
  | succ i ih =>
    match es, ls, hi, hl with
    | e0 :: e1 :: rest, l :: ls', hi, hl =>
      simp only [List.getElem_cons_succ] at hlo hhi ⊢
      have hs' : (e1 :: rest).Pairwise (· < ·) := (List.pairwise_cons.mp hsorted).2
      have hi' : i + 1 < (e1 :: rest).length := by simp at hi ⊢; omega
      have hl' : i < ls'.length := by simp at hl; omega
      have hge : e1 ≤ (e1 :: rest)[i]'(by omega) := by
        cases i with
        | zero => simp
        | succ j =>
          have := (List.pairwise_cons.mp hs').1 ((e1 :: rest)[j + 1]'(by omega)) (by simp)
          omega
      have hnot : ¬ (e0 ≤ v ∧ v < e1) := by omega
      unfold binLabel
      rw [if_neg hnot]
      exact ih (e1 :: rest) ls' hs' hi' hl' hlo hhi

/-- a value below the first edge is a missing value (⇒ unknown category ⇒ the simulation stops) -/
theorem binLabel_below (es : List Int) (ls : List String) (v : Int)
    (hsorted : es.Pairwise (· < ·)) (h : ∀ e ∈ es, v < e) : binLabel es ls v = nanTok := by
  induction es generalizing ls with
  | nil => simp [binLabel]
  | cons e0 es ih =>
    cases es with
    | nil => cases ls <;> simp [binLabel]
    | cons e1 rest =>
      cases ls with
      | nil => simp [binLabel]
      | cons l ls' =>
        unfold binLabel
        have : ¬ (e0 ≤ v ∧ v < e1) := by
          have := h e0 (by simp); omega
        rw [if_neg this]
        exact ih ls' (List.pairwise_cons.mp hsorted).2 (fun e he => h e (List.mem_cons_of_mem _ he))

/-- … and so is a value at or above the last edge -/
theorem binLabel_above (es : List Int) (ls : List String) (v : Int) (h : ∀ e ∈ es, e ≤ v) :
    binLabel es ls v = nanTok := by
  induction es generalizing ls with
  | nil => simp [binLabel]
  | cons e0 es ih =>
    cases es with
    | nil => cases ls <;> simp [binLabel]
    | cons e1 rest =>
      cases ls with
      | nil => simp [binLabel]
      | cons l ls' =>
        unfold binLabel
        have : ¬ (e0 ≤ v ∧ v < e1) := by
          have := h e1 (by simp); omega
        rw [if_neg this]
        exact ih ls' (fun e he => h e (List.mem_cons_of_mem _ he))

/-! ### non-vacuity: the hypotheses are inhabited, the definitions compute what is claimed -/

def exLevels : List (List String) := [["a", "b"], ["U", "V"]]
def exRows : List Row :=
  [⟨true, true, [some "a", some "U"], 3⟩, ⟨true, true, [some "b", some "U"], 1⟩, ⟨true, false, [some "a", some "U"], 7⟩,
   ⟨false, true, [some "a", some "V"], 9⟩, ⟨true, true, [none, some "V"], 5⟩, ⟨true, true, [some "a", some "U"], 2⟩]

example : increment exLevels exRows = [(["a", "U"], 5), (["a", "V"], 0), (["b", "U"], 1), (["b", "V"], 0)] := by decide
example : eligibleSum exRows = 6 := by decide
example : ∀ r ∈ exRows, r.eligible = true → r.key ∈ product exLevels := by decide
example : runEvents exLevels [(true, exRows), (false, exRows), (true, []), (true, exRows)] =
    [(["a", "U"], 10), (["a", "V"], 0), (["b", "U"], 2), (["b", "V"], 0)] := by decide
example : runConcat [(true, 1, [⟨true, true, [10]⟩, ⟨true, false, [11]⟩]), (false, 2, [⟨true, true, [10]⟩]),
    (true, 3, [⟨false, true, [12]⟩, ⟨true, true, [10]⟩])] = [[1, 10], [3, 10]] := by decide
example : addStratification [("g", ["c"])] [] "g" ["a", "b", "c"] none none =
    .ok [⟨"g", ["a", "b"], ["c"], ["a", "b", "c"], none⟩] := by decide
example : addStratification [("g", ["c"])] [] "g" ["a", "b", "c"] (some []) none =
    .ok [⟨"g", ["a", "b", "c"], [], ["a", "b", "c"], none⟩] := by decide
example : stratify ⟨"g", ["a", "b"], ["c"], ["a", "b", "c"], none⟩ "zz" = .error .unknownCat := by decide
example : stratify ⟨"g", ["a", "b"], ["c"], ["a", "b", "c"], none⟩ "c" = .ok none := by decide
example : resolve ["g", "xb"] ["h2", "g"] ["xb"] = ["g", "h2"] := by decide
example : binLabel [0, 12, 24, 40] ["lo", "mid", "hi"] 12 = "mid" ∧ binLabel [0, 12, 24, 40] ["lo", "mid", "hi"] 40 = nanTok ∧
    binLabel [0, 12, 24, 40] ["lo", "mid", "hi"] 0 = "lo" := by decide

end Viv.Props.C16
