import VivModel.Gen.Src
import VivModel.Lemmas.PyAst
import VivModel.Lemmas.PyState
/-!
# C16 — source tie: `ResultsManager.gather_results` evaluates to a fold of `raw[measure] = updater(raw[measure], results)`

`Gen.Src.resultsGather` is the syntax tree of `ResultsManager.gather_results` in /repo's working tree (regenerated on every
run). `gather_run`: for ANY list of items the results context yields (each of result, measure and updater possibly
`None`), any updater functions and any raw results: an empty prepared population changes nothing; otherwise the raw
results after the event are `applyAll items raw` - every complete item applied once, in the order yielded, through its
own updater to the raw result of its own measure; an item with a `None` part changes nothing; an unknown measure raises
and leaves what was applied before it. This is the clause "the reported result equals the sum of the per-event
increments" at the source: with `updater = addResults` (C16 `gather`, `runEvents_total`) nothing is dropped, applied
twice or applied to another measure.

Modelled rather than verified here: `_prepare_population` (only whether its result is empty) and the context's generator
`ResultsContext.gather_results` (a generator: `yield` is outside the translated subset) - any list of items; their tie to
the code is the C16 correspondence check.
-/
namespace Viv.Props.C16Src
open Viv.Py

/-- the Python objects `ResultsManager.gather_results` touches; `R` = a raw result (running totals of one measure), `G` = what
one observation produced for one event -/
inductive RV (R G : Type) where
  | none | bool (b : Bool) | int (i : Int) | str (s : String)
  | self | ctx | event | phase
  /-- the prepared population: only whether it is empty matters here -/
  | pop (empty : Bool)
  | rawRef
  | raw (r : R)
  | group (g : G)
  | updater (u : R → G → R)
  | prepFn | gatherFn
  | list (vs : List (RV R G))

/-- one item the results context yields: `(results, measure, updater)`, each possibly `None` -/
structure Item (R G : Type) where
  group : Option G
  measure : Option String
  updater : Option (R → G → R)

variable {R G : Type}

def Item.val (i : Item R G) : RV R G :=
  .list [match i.group with | some g => .group g | Option.none => .none,
         match i.measure with | some m => .str m | Option.none => .none,
         match i.updater with | some u => .updater u | Option.none => .none]

/-- state: `_raw_results` (measure → raw result) -/
structure St (R : Type) where
  raw : List (String × R)

abbrev M (R : Type) := SM (St R)

def getRaw (raw : List (String × R)) (m : String) : Option R := (raw.find? (fun e => e.1 == m)).map (·.2)
def setRaw (raw : List (String × R)) (m : String) (r : R) : List (String × R) :=
  raw.map fun e => if e.1 == m then (e.1, r) else e

/-- what the loop does with one yielded item -/
def applyItem (raw : List (String × R)) (i : Item R G) : Option (List (String × R)) :=
  match i.group, i.measure, i.updater with
  | some g, some m, some u => (getRaw raw m).map fun r => setRaw raw m (u r g)
  | _, _, _ => some raw

def rGetAttr : RV R G → String → M R (RV R G)
  | .self, a =>
    if a == "_prepare_population" then pure .prepFn else if a == "_results_context" then pure .ctx
    else if a == "_raw_results" then pure .rawRef else throw "AttributeError"
  | .ctx, a => if a == "gather_results" then pure .gatherFn else throw "AttributeError"
  | .pop e, a => if a == "empty" then pure (.bool e) else throw "AttributeError"
  | _, _ => throw "AttributeError"

/-- `empty` = is the prepared population empty; `items` = what the context's generator yields for it: ANY list -/
def rworld (empty : Bool) (items : List (Item R G)) : World (M R) (RV R G) where
  none := .none
  bool := .bool
  int := .int
  str := .str
  list := .list
  newList vs := pure (.list vs)
  tuple := .list
  global _ := throw "NameError"
  truthy
    | .none => pure false
    | .bool b => pure b
    | _ => pure true
  getAttr := rGetAttr
  setAttr _ _ _ := throw "AttributeError"
  call f args kws := match f, args, kws with
    | .prepFn, [.event], [] => pure (.pop empty)
    | .gatherFn, [.pop _, .phase, .event], [] => pure (.list (items.map Item.val))
    | .updater u, [.raw r, .group g], [] => pure (.raw (u r g))
    | _, _, _ => throw "TypeError"
  cmp op l r := match op, l, r with
    | "IsNot", .none, .none => pure (.bool false)
    | "IsNot", _, .none => pure (.bool true)
    | _, _, _ => throw "TypeError"
  bin _ _ _ := throw "TypeError"
  neg _ := throw "TypeError"
  sub o k := match o, k with
    | .rawRef, .str m => do
      let st ← get
      match getRaw st.raw m with
      | some r => pure (.raw r)
      | Option.none => throw "KeyError"
    | _, _ => throw "TypeError"
  slice _ _ := .none
  setItem o k v := match o, k, v with
    | .rawRef, .str m, .raw r => modify fun st => { st with raw := setRaw st.raw m r }
    | _, _, _ => throw "TypeError"
  iter
    | .list vs => pure vs
    | _ => throw "TypeError"
  unstar _ := throw "TypeError"
  format _ := throw "TypeError"
  concat _ := throw "TypeError"
  dict _ := throw "TypeError"
  whileLoop _ _ _ := throw "Unsupported"
  other _ := throw "Unsupported"
  throw cls := throw cls
  rethrow := throw "reraise"
  catchAll body handler := tryCatch body (fun _ => handler)
  catchCls cls body handler := tryCatch body (fun e => if e == cls then handler else throw e)

def stepItem (v : RV R G) (st : St R) : Option (St R) := match v with
  | .list [g, m, u] =>
    match g, m, u with
    | .group g, .str m, .updater u => (getRaw st.raw m).map fun r => ⟨setRaw st.raw m (u r g)⟩
    | .none, _, _ => some st
    | .group _, .none, _ => some st
    | .group _, .str _, .none => some st
    | _, _, _ => Option.none
  | _ => Option.none

/-- one pass on the raw results: the new raw results, and whether the pass raised (an unknown measure: nothing written) -/
def stepK (v : RV R G) (raw : List (String × R)) : List (String × R) × Bool :=
  match stepItem v ⟨raw⟩ with
  | some st' => (st'.raw, false)
  | Option.none => (raw, true)

/-- the loop on the raw results: items applied in order, stopping at the first unknown measure -/
def applyAll : List (Item R G) → List (String × R) → List (String × R) × Bool
  | [], raw => (raw, false)
  | i :: l, raw => match applyItem raw i with
    | some raw' => applyAll l raw'
    | Option.none => (raw, true)

theorem stepItem_val (i : Item R G) (st : St R) : stepItem i.val st = (applyItem st.raw i).map St.mk := by
  rcases i with ⟨g, m, u⟩
  cases g <;> cases m <;> cases u <;> simp [Item.val, stepItem, applyItem] <;> rfl

theorem foldK_items : ∀ (items : List (Item R G)) (raw : List (String × R)),
    foldK stepK (items.map Item.val) raw = applyAll items raw
  | [], raw => rfl
  | i :: l, raw => by
    simp only [List.map_cons, foldK, applyAll, stepK, stepItem_val]
    cases h : applyItem raw i with
    | none => rfl
    | some raw' => exact foldK_items l raw'

/-- `ResultsManager.gather_results` as written: nothing happens for an empty population; otherwise every item the context
yields is applied in order - `raw[measure] = updater(raw[measure], results)` when all three parts are there, nothing when
one is `None` - so the raw results after the event are `applyAll` over the yielded items, ANY list of items; an unknown
measure raises and leaves what was applied before it -/
theorem gather_run (empty : Bool) (items : List (Item R G)) (st : St R) :
    ∃ r st', runM (Gen.Src.resultsGather.run (rworld empty items) [("self", .self), ("lifecycle_phase", .phase), ("event", .event)]) st
        = (r, st') ∧ (st'.raw, !r.toBool) = if empty then (st.raw, false) else applyAll items st.raw := by
  rw [runM_func]
  simp only [Gen.Src.resultsGather]
  pystep [rworld, rGetAttr]
  cases empty with
  | true =>
    pystep [rworld, rGetAttr]
    exact ⟨_, _, rfl, by simp [Except.toBool]⟩
  | false =>
    pystep [rworld, rGetAttr]
    rw [runM_block_cons, evalStmt]
    simp only [runM_bind]
    conv in (runM (evalExpr _ _ _) _) => simp [evalExpr, evalArgs, evalKws, rworld, rGetAttr]
    dsimp only
    conv in (runM ((rworld false items).iter _) _) => simp [rworld]
    dsimp only
    generalize hrun : runM (forLoop _ _ _) _ = r
    have key : (∃ loc' st', r = (.ok (.next, loc'), st') ∧ (st'.raw, false) = foldK stepK (items.map Item.val) st.raw
          ∧ (fun (loc : Locals (RV R G)) (_ : St R) => loc.get "self" = some RV.self) loc' st') ∨
        (∃ e st', r = (.error e, st') ∧ (st'.raw, true) = foldK stepK (items.map Item.val) st.raw) := by
      rw [← hrun]
      refine absK_forLoop (fun (loc : Locals (RV R G)) (_ : St R) => loc.get "self" = some RV.self) (fun s : St R => s.raw) stepK
        _ _ _ st ?hbody ?hinv
      case hinv => simp
      intro loc x st1 hx hself
      obtain ⟨i, _, rfl⟩ := List.mem_map.mp hx
      rcases i with ⟨g, m, u⟩
      cases g with
      | none => left; cases m <;> cases u <;> simp [Item.val, stepK, stepItem, assignTo, bindNames, evalBlock, evalStmt, evalExpr, evalArgs, evalKws, rworld, rGetAttr, hself] <;> (first | exact ⟨_, _, ⟨rfl, rfl⟩, rfl, by simp [hself]⟩ | exact ⟨_, _, ⟨rfl, rfl⟩, rfl⟩ | skip)
      | some g =>
        cases m with
        | none => left; cases u <;> simp [Item.val, stepK, stepItem, assignTo, bindNames, evalBlock, evalStmt, evalExpr, evalArgs, evalKws, rworld, rGetAttr, hself] <;> (first | exact ⟨_, _, ⟨rfl, rfl⟩, rfl, by simp [hself]⟩ | exact ⟨_, _, ⟨rfl, rfl⟩, rfl⟩ | skip)
        | some m =>
          cases u with
          | none => left; simp [Item.val, stepK, stepItem, assignTo, bindNames, evalBlock, evalStmt, evalExpr, evalArgs, evalKws, rworld, rGetAttr, hself]; (first | exact ⟨_, _, ⟨rfl, rfl⟩, rfl, by simp [hself]⟩ | exact ⟨_, _, ⟨rfl, rfl⟩, rfl⟩ | skip)
          | some u =>
            cases hr : getRaw st1.raw m with
            | none => right; simp [Item.val, stepK, stepItem, assignTo, bindNames, evalBlock, evalStmt, evalExpr, evalArgs, evalKws, rworld, rGetAttr, hself, hr]; (first | exact ⟨_, _, ⟨rfl, rfl⟩, rfl, by simp [hself]⟩ | exact ⟨_, _, ⟨rfl, rfl⟩, rfl⟩ | skip)
            | some r0 => left; simp [Item.val, stepK, stepItem, assignTo, bindNames, evalBlock, evalStmt, evalExpr, evalArgs, evalKws, rworld, rGetAttr, hself, hr]; (first | exact ⟨_, _, ⟨rfl, rfl⟩, rfl, by simp [hself]⟩ | exact ⟨_, _, ⟨rfl, rfl⟩, rfl⟩ | skip)
    rw [foldK_items] at key
    rcases key with ⟨loc', st', rfl, hk, _⟩ | ⟨e, st', rfl, hk⟩
    · exact ⟨_, _, rfl, by simpa [Except.toBool] using hk⟩
    · exact ⟨_, _, rfl, by simpa [Except.toBool] using hk⟩

end Viv.Props.C16Src
