import VivModel.Model.Util
import VivModel.Model.Machine
import VivModel.Lemmas.Machine
/-! C17 — state machines move each simulant along its own declared transition.

`Viv.Machine.transition` follows `Machine.transition` statement by statement (split the index by current state
ONCE; per state: probability matrix, whole-matrix normalisation, one inverse-CDF decision per row with the
transition set's draws, group by decided output, write, transient outputs transition again). The theorems
say, for EVERY machine, table, index, fuel and EVERY draw table, that this vectorised procedure does to each
simulant exactly what the one-simulant function `moveOne` says (own weights, own draws), and then read the
property off `moveOne`. Proofs: induction over fuel / the group list / the state list (refinement lemmas in
`Lemmas/Machine.lean`), induction over the weight row for the inverse-CDF facts. -/
namespace Viv.Props.C17
open Viv.Machine

/-! ### the vectorised transition is the pointwise one -/

/-- **own weights and own draws only.** After an accepted `Machine.transition(idx)`, every TRACKED simulant of
the index is where `moveOne` – a function of the machine, the simulant's label (hence its own column of
weights, its own membership in active sets, its own draws) and its state BEFORE the call – puts it; an
untracked simulant of the index keeps its row (the machine's view does not show it). No other simulant and no
other member of `idx` occurs in the right-hand sides. -/
theorem transition_pointwise (m : Mach) (fuel : Nat) (tab tab' : Table) (idx : List Nat)
    (h : transition m fuel tab idx = .ok tab') (i : Nat) (hi : i ∈ idx) :
    ∃ r, tab[i]? = some r ∧
      (r.tracked = false → tab'[i]? = some r) ∧
      (r.tracked = true → ∃ path, moveOne m fuel r.st i = .ok path ∧
        tab'[i]? = some { r with st := final r.st path }) := by
  unfold transition at h
  split at h
  · cases h
  · rename_i hany
    have hlt : i < tab.length := by
      apply Nat.lt_of_not_le
      intro hh
      apply hany
      exact List.any_eq_true.mpr ⟨i, hi, by simpa using hh⟩
    refine ⟨tab[i], ?_⟩
    have hr : tab[i]? = some tab[i] := List.getElem?_eq_getElem hlt
    have hnd : ((statePops m tab idx).map (·.1)).Nodup := by
      rw [statePops_keys]; exact List.nodup_range
    have hdef : ∀ p ∈ statePops m tab idx, p.2 = idx.filter (fun i => (tab[i]?.bind Row.seen) == some p.1) := by
      intro p hp
      simp only [statePops, List.mem_map, List.mem_range] at hp
      obtain ⟨s, _, rfl⟩ := hp
      rfl
    obtain ⟨_, hf, hp⟩ := runPops_sound m fuel idx tab (statePops m tab idx) tab tab' hdef hnd
      (fun _ _ _ _ _ => rfl) h
    have hkeys : ∀ p ∈ statePops m tab idx, p.1 < m.states.length := by
      intro p hp
      have : p.1 ∈ (statePops m tab idx).map (·.1) := List.mem_map_of_mem hp
      rw [statePops_keys] at this
      simpa using this
    refine ⟨hr, ?_, ?_⟩
    · intro hut
      have hnone : ∀ p ∈ statePops m tab idx, tab[i]?.bind Row.seen ≠ some p.1 := by
        intro p _ hh
        rw [hr] at hh
        have := seen_tracked (r := tab[i]) (by simpa using hh)
        rw [hut] at this; cases this
      rw [hf i (Or.inr hnone), hr]
    · intro htr
      have hseen : tab[i]?.bind Row.seen = some tab[i].st := by
        rw [hr]; simp [Row.seen, htr]
      by_cases hs : tab[i].st < m.states.length
      · have hmem : (tab[i].st, idx.filter (fun j => (tab[j]?.bind Row.seen) == some tab[i].st)) ∈ statePops m tab idx := by
          simp only [statePops, List.mem_map, List.mem_range]
          exact ⟨tab[i].st, hs, rfl⟩
        obtain ⟨path, hmv, ht⟩ := hp i hi _ hmem hseen
        exact ⟨path, hmv, by rw [ht, hr]; rfl⟩
      · have hnone : ∀ p ∈ statePops m tab idx, tab[i]?.bind Row.seen ≠ some p.1 := by
          intro p hp hh
          rw [hseen] at hh
          simp only [Option.some.injEq] at hh
          have := hkeys p hp
          omega
        have hempty : (m.state tab[i].st).trans.isEmpty = true := by
          rw [state_default m _ (Nat.le_of_not_lt hs)]; rfl
        exact ⟨[], moveOne_empty m fuel _ i hempty, by rw [hf i (Or.inr hnone), hr]; rfl⟩

/-- **frame.** Simulants outside the index keep their whole row; every row keeps every column other than
the state column (`other`, `tracked`); no row is added or removed. -/
theorem transition_frame (m : Mach) (fuel : Nat) (tab tab' : Table) (idx : List Nat)
    (h : transition m fuel tab idx = .ok tab') :
    tab'.length = tab.length ∧
    (∀ i, i ∉ idx → tab'[i]? = tab[i]?) ∧
    (∀ i : Nat, (tab'[i]?).map Row.other = (tab[i]?).map Row.other ∧
      (tab'[i]?).map Row.tracked = (tab[i]?).map Row.tracked) := by
  have hpw := transition_pointwise m fuel tab tab' idx h
  unfold transition at h
  split at h
  · cases h
  · have hnd : ((statePops m tab idx).map (·.1)).Nodup := by
      rw [statePops_keys]; exact List.nodup_range
    have hdef : ∀ p ∈ statePops m tab idx, p.2 = idx.filter (fun i => (tab[i]?.bind Row.seen) == some p.1) := by
      intro p hp
      simp only [statePops, List.mem_map, List.mem_range] at hp
      obtain ⟨s, _, rfl⟩ := hp
      rfl
    obtain ⟨hl, hf, _⟩ := runPops_sound m fuel idx tab (statePops m tab idx) tab tab' hdef hnd
      (fun _ _ _ _ _ => rfl) h
    refine ⟨hl, fun i hi => hf i (Or.inl hi), ?_⟩
    intro i
    by_cases hi : i ∈ idx
    · obtain ⟨r, hr, hu, ht⟩ := hpw i hi
      cases htr : r.tracked with
      | false => rw [hu htr, hr]; exact ⟨rfl, rfl⟩
      | true =>
        obtain ⟨path, _, ht'⟩ := ht htr
        rw [ht', hr]; exact ⟨rfl, rfl⟩
    · rw [hf i (Or.inl hi)]; exact ⟨rfl, rfl⟩

/-- **independent of the company.** A simulant transitioned alone, or with any other set of simulants, from
the same table ends in the same row. -/
theorem transition_alone_together (m : Mach) (fuel : Nat) (tab t1 t2 : Table) (idx1 idx2 : List Nat)
    (h1 : transition m fuel tab idx1 = .ok t1) (h2 : transition m fuel tab idx2 = .ok t2)
    (i : Nat) (hi1 : i ∈ idx1) (hi2 : i ∈ idx2) : t1[i]? = t2[i]? := by
  obtain ⟨r, hr, hu, ht⟩ := transition_pointwise m fuel tab t1 idx1 h1 i hi1
  obtain ⟨r', hr', hu', ht'⟩ := transition_pointwise m fuel tab t2 idx2 h2 i hi2
  rw [hr] at hr'; cases hr'
  cases htr : r.tracked with
  | false => rw [hu htr, hu' htr]
  | true =>
    obtain ⟨p, hm, e1⟩ := ht htr
    obtain ⟨p', hm', e2⟩ := ht' htr
    rw [hm] at hm'; cases hm'
    rw [e1, e2]

/-- the order (and multiplicity) in which the index lists the simulants is irrelevant -/
theorem transition_perm (m : Mach) (fuel : Nat) (tab t1 t2 : Table) (idx1 idx2 : List Nat)
    (hsame : ∀ i, i ∈ idx1 ↔ i ∈ idx2)
    (h1 : transition m fuel tab idx1 = .ok t1) (h2 : transition m fuel tab idx2 = .ok t2) : t1 = t2 := by
  apply List.ext_getElem?
  intro i
  by_cases hi : i ∈ idx1
  · exact transition_alone_together m fuel tab t1 t2 idx1 idx2 h1 h2 i hi ((hsame i).mp hi)
  · rw [(transition_frame m fuel tab t1 idx1 h1).2.1 i hi,
        (transition_frame m fuel tab t2 idx2 h2).2.1 i (fun hh => hi ((hsame i).mpr hh))]

/-- **accepted exactly when every tracked member's own path is.** The call is rejected iff some label is
unknown or some TRACKED simulant of the index meets – in its current state or in a transient state its own
draws lead it into – weights that cannot be normalised (or an endless chain of transient states). Nothing
else, in particular nothing about a simulant that is not in the index or is untracked, can make the call fail. -/
theorem transition_accepts_iff (m : Mach) (fuel : Nat) (tab : Table) (idx : List Nat) :
    (∃ tab', transition m fuel tab idx = .ok tab') ↔
      ∀ i ∈ idx, ∃ r, tab[i]? = some r ∧ (r.tracked = true → ∃ path, moveOne m fuel r.st i = .ok path) := by
  constructor
  · rintro ⟨tab', h⟩ i hi
    obtain ⟨r, hr, _, ht⟩ := transition_pointwise m fuel tab tab' idx h i hi
    exact ⟨r, hr, fun htr => (ht htr).imp fun _ hp => hp.1⟩
  · intro hall
    unfold transition
    have hany : ¬ (idx.any (fun i => decide (tab.length ≤ i)) = true) := by
      intro hh
      obtain ⟨i, hi, hle⟩ := List.any_eq_true.mp hh
      obtain ⟨r, hr, _⟩ := hall i hi
      rw [List.getElem?_eq_none (by simpa using hle)] at hr
      cases hr
    rw [if_neg hany]
    apply runPops_complete
    intro p hp i hi
    simp only [statePops, List.mem_map, List.mem_range] at hp
    obtain ⟨s, _, rfl⟩ := hp
    obtain ⟨hii, hst⟩ := List.mem_filter.mp hi
    obtain ⟨r, hr, hm⟩ := hall i hii
    rw [hr] at hst
    have hseen : r.seen = some s := by simpa using hst
    have := seen_st hseen
    subst this
    exact hm (seen_tracked hseen)

/-! ### where a simulant can end up -/

/-- `Lands m s b`: a simulant processed in state `s` may come to rest in `b` – by staying (only if the
state allows self transitions or has no transition at all), by a declared transition into a non-transient
state, or by a declared transition into a transient state followed by where THAT lands. -/
inductive Lands (m : Mach) : Nat → Nat → Prop
  | stay (s : Nat) : ((m.state s).selfOk = true ∨ (m.state s).trans = []) → Lands m s s
  | direct (s : Nat) (t : Trans) : t ∈ (m.state s).trans → (m.state t.out).transient = false → Lands m s t.out
  | through (s : Nat) (t : Trans) (b : Nat) : t ∈ (m.state s).trans → (m.state t.out).transient = true →
      Lands m t.out b → Lands m s b

/-- the one-simulant function only ever follows declared transitions (through transients), or stays where
staying is allowed – for draws in [0, 1]. -/
theorem moveOne_lands (m : Mach) (i : Nat) (hd : ∀ s, (m.state s).draws.getD i 0 ≤ m.dd) :
    ∀ (fuel s : Nat) (path : List Nat), moveOne m fuel s i = .ok path → Lands m s (final s path) := by
  intro fuel
  induction fuel with
  | zero =>
    intro s path h
    by_cases hte : (m.state s).trans.isEmpty = true
    · rw [moveOne_empty m 0 s i hte] at h; cases h
      exact Lands.stay s (Or.inr (by simpa using hte))
    · rw [moveOne_zero m s i (by simpa using hte)] at h; cases h
  | succ fuel ih =>
    intro s path h
    by_cases hte : (m.state s).trans.isEmpty = true
    · rw [moveOne_empty m _ s i hte] at h; cases h
      exact Lands.stay s (Or.inr (by simpa using hte))
    · have hte' : (m.state s).trans.isEmpty = false := by simpa using hte
      obtain ⟨hhop, hres⟩ := moveOne_succ_ok hte' h
      cases hk : (m.state s).trans[decisionOf m s i]? with
      | none =>
        rw [hk] at hres; cases hres
        apply Lands.stay s; left
        cases hso : (m.state s).selfOk with
        | true => rfl
        | false =>
          exfalso
          have hne : rowOf (m.state s).trans i ≠ [] := by
            intro hh
            have : (m.state s).trans = [] := by simpa [rowOf] using hh
            rw [this] at hte'; cases hte'
          have hlt := choiceIdx_lt_length (normRow m.wd false (rowOf (m.state s).trans i))
            ((m.state s).draws.getD i 0) m.dd (by simpa [normRow] using hne) (hd s)
          rw [length_normRow_false] at hlt
          have hlen : (rowOf (m.state s).trans i).length = (m.state s).trans.length := by simp [rowOf]
          have : decisionOf m s i < (m.state s).trans.length := by
            unfold decisionOf; rw [hso]; omega
          rw [List.getElem?_eq_getElem this] at hk; cases hk
      | some t =>
        rw [hk] at hres
        have htm : t ∈ (m.state s).trans := List.mem_of_getElem? hk
        simp only [landing] at hres
        by_cases htr : (m.state t.out).transient = true
        · simp only [htr, if_true] at hres
          cases hm : moveOne m fuel t.out i with
          | error e => rw [hm] at hres; cases hres
          | ok p =>
            rw [hm] at hres; cases hres
            rw [final_cons]
            exact Lands.through s t _ htm htr (ih t.out p hm)
        · simp only [htr, Bool.false_eq_true, if_false] at hres
          cases hres
          exact Lands.direct s t htm (by simpa using htr)

/-- **target.** After an accepted call every simulant of the index is in exactly one state, and that state is
reachable from the state it was in by declared transitions followed through transient states, or is its
original state where staying is allowed. -/
theorem transition_target (m : Mach) (fuel : Nat) (tab tab' : Table) (idx : List Nat)
    (hd : ∀ s i, (m.state s).draws.getD i 0 ≤ m.dd)
    (h : transition m fuel tab idx = .ok tab') (i : Nat) (hi : i ∈ idx) :
    ∃ r r', tab[i]? = some r ∧ tab'[i]? = some r' ∧ (r.tracked = true → Lands m r.st r'.st) ∧
      (r.tracked = false → r' = r) := by
  obtain ⟨r, hr, hu, ht⟩ := transition_pointwise m fuel tab tab' idx h i hi
  by_cases htr : r.tracked = true
  · obtain ⟨path, hm, e⟩ := ht htr
    refine ⟨r, _, hr, e, fun _ => moveOne_lands m i (fun s => hd s i) fuel r.st path hm, fun hh => ?_⟩
    rw [hh] at htr; cases htr
  · have hf : r.tracked = false := by simpa using htr
    exact ⟨r, r, hr, hu hf, fun hh => absurd hh htr, fun _ => rfl⟩

/-! ### probability 0 never, a sole probability 1 always -/

/-- an inactive triggered transition has probability 0 for the simulant, whatever its probability function says -/
theorem inactive_prob_zero (t : Trans) (a : List Nat) (i : Nat) (ha : t.active = some a) (hi : i ∉ a) :
    prob t i = 0 := by
  simp [prob, ha, hi]

/-! ### the active set is a function of the trigger-call history; probabilities have no memory -/

/-- `set_active` / `set_inactive` in terms of membership -/
theorem setActive_mem (t t' : Trans) (a idx : List Nat) (i : Nat) (ha : t.active = some a)
    (h : t.setActive idx = .ok t') : ∃ a', t'.active = some a' ∧ (a'.contains i = (a.contains i || idx.contains i)) := by
  unfold Trans.setActive at h
  rw [ha] at h
  cases h
  refine ⟨_, rfl, ?_⟩
  by_cases h1 : i ∈ a <;> by_cases h2 : i ∈ idx <;> simp [h1, h2]

theorem setInactive_mem (t t' : Trans) (a idx : List Nat) (i : Nat) (ha : t.active = some a)
    (h : t.setInactive idx = .ok t') : ∃ a', t'.active = some a' ∧ (a'.contains i = (a.contains i && !idx.contains i)) := by
  unfold Trans.setInactive at h
  rw [ha] at h
  cases h
  refine ⟨_, rfl, ?_⟩
  by_cases h1 : i ∈ a <;> by_cases h2 : i ∈ idx <;> simp [h1, h2]

/-- **history.** After any sequence of `set_active` / `set_inactive` calls a simulant is active iff the LAST
call that mentioned it was a `set_active` (or none mentioned it and it was active to begin with) – whatever
else happened in between. -/
theorem active_after_history (ops : List (Bool × List Nat)) (a : List Nat) (i : Nat) :
    (activeAfter a ops).contains i =
      ops.foldl (fun b op => if op.2.contains i then op.1 else b) (a.contains i) := by
  induction ops generalizing a with
  | nil => rfl
  | cons op ops ih =>
    obtain ⟨on, s⟩ := op
    cases on with
    | true =>
      simp only [activeAfter, List.foldl_cons]
      rw [ih]
      congr 1
      by_cases h1 : i ∈ a <;> by_cases h2 : i ∈ s <;> simp [h1, h2]
    | false =>
      simp only [activeAfter, List.foldl_cons]
      rw [ih]
      congr 1
      by_cases h1 : i ∈ a <;> by_cases h2 : i ∈ s <;> simp [h1, h2]

/-- **no memory.** The vector `Transition.probability(index)` returns is determined by the probability
function, the index and the CURRENT membership in the active set: two transitions (or the same transition at
two moments, whatever was evaluated or called before) whose active sets have the same members give the same
vector. -/
theorem probability_current_only (t t' : Trans) (a a' : List Nat) (index : List Nat)
    (hw : t.w = t'.w) (ha : t.active = some a) (ha' : t'.active = some a')
    (hsame : ∀ i ∈ index, a.contains i = a'.contains i) :
    probability t index = probability t' index := by
  rw [probability_eq, probability_eq]
  apply List.map_congr_left
  intro i hi
  simp only [prob, ha, ha', hw, hsame i hi]

/-- a simulant just deactivated has probability 0 at the next evaluation, a simulant just activated its own
probability – on whichever index the transition was evaluated before. -/
theorem deactivated_prob_zero (t t' : Trans) (idx : List Nat) (i : Nat) (hi : i ∈ idx)
    (h : t.setInactive idx = .ok t') : prob t' i = 0 := by
  unfold Trans.setInactive at h
  cases ha : t.active with
  | none => rw [ha] at h; cases h
  | some a =>
    rw [ha] at h
    cases h
    simp [prob, hi]

theorem activated_prob_own (t t' : Trans) (idx : List Nat) (i : Nat) (hi : i ∈ idx)
    (h : t.setActive idx = .ok t') : prob t' i = t.w.getD i 0 := by
  unfold Trans.setActive at h
  cases ha : t.active with
  | none => rw [ha] at h; cases h
  | some a =>
    rw [ha] at h
    cases h
    by_cases h1 : i ∈ a <;> simp [prob, hi, h1]

/-- **a probability-0 transition (weight 0, or triggered and inactive for this simulant) is never the one
decided – GIVEN a positive draw or a positive first weight.** The full statement (no hypothesis on the
draw) is false of `_choice`: `draws > p_bins` counts no bin for a draw of exactly 0, so a leading zero
weight is chosen (`f9_witness`; finding F9, measure zero, not reachable through a stream). -/
theorem prob_zero_never_partial (m : Mach) (s i k : Nat) (t : Trans) (hwd : 0 < m.wd)
    (hhop : hop m s i = .ok k) (hk : (m.state s).trans[k]? = some t)
    (hd : 0 < (m.state s).draws.getD i 0 ∨ 0 < (rowOf (m.state s).trans i).head?.getD 0) :
    0 < prob t i := by
  apply Nat.pos_of_ne_zero
  intro hz
  obtain ⟨hnorm, hkd⟩ := hop_ok hhop
  have hklt : k < (m.state s).trans.length := by
    by_cases hh : k < (m.state s).trans.length
    · exact hh
    · rw [List.getElem?_eq_none (Nat.le_of_not_lt hh)] at hk; cases hk
  have hlen : (rowOf (m.state s).trans i).length = (m.state s).trans.length := by simp [rowOf]
  have hrow : (rowOf (m.state s).trans i)[k]? = some 0 := by
    simp [rowOf, List.getElem?_map, hk, hz]
  have hrow' : (normRow m.wd (m.state s).selfOk (rowOf (m.state s).trans i))[k]? = some 0 := by
    rw [normRow_getElem? _ _ _ _ (by omega)]; exact hrow
  have hne : rowOf (m.state s).trans i ≠ [] := by
    intro hh; rw [hh] at hlen; simp at hlen; omega
  have hsum := normRow_sum_pos hwd hnorm
  refine choiceIdx_ne_of_zero _ ((m.state s).draws.getD i 0) m.dd k hrow' ?_ ?_
  · cases hd with
    | inl h => left; exact Nat.mul_pos h hsum
    | inr h => right; rw [normRow_head? _ _ _ hne]; exact h
  · rw [hkd]; rfl

/-- the F9 edge itself: a draw of exactly 0 with a leading zero weight picks the zero-weight option … -/
theorem f9_witness : choiceIdx [0, 16] 0 16 = 0 := by decide
/-- … while every positive draw does not -/
example : choiceIdx [0, 16] 1 16 = 1 := by decide

/-- `PosPath m i s path`: every state of `path` is entered from the previous one by a declared transition
whose probability FOR SIMULANT `i` is positive. -/
inductive PosPath (m : Mach) (i : Nat) : Nat → List Nat → Prop
  | nil (s : Nat) : PosPath m i s []
  | cons (s : Nat) (t : Trans) (rest : List Nat) : t ∈ (m.state s).trans → 0 < prob t i →
      PosPath m i t.out rest → PosPath m i s (t.out :: rest)

/-- along the whole way of a simulant – first hop and every hop out of a transient state – no probability-0
transition is taken (positive draws). -/
theorem path_positive_partial (m : Mach) (i : Nat) (hwd : 0 < m.wd)
    (hd : ∀ s, 0 < (m.state s).draws.getD i 0) :
    ∀ (fuel s : Nat) (path : List Nat), moveOne m fuel s i = .ok path → PosPath m i s path := by
  intro fuel
  induction fuel with
  | zero =>
    intro s path h
    by_cases hte : (m.state s).trans.isEmpty = true
    · rw [moveOne_empty m 0 s i hte] at h; cases h; exact PosPath.nil s
    · rw [moveOne_zero m s i (by simpa using hte)] at h; cases h
  | succ fuel ih =>
    intro s path h
    by_cases hte : (m.state s).trans.isEmpty = true
    · rw [moveOne_empty m _ s i hte] at h; cases h; exact PosPath.nil s
    · have hte' : (m.state s).trans.isEmpty = false := by simpa using hte
      obtain ⟨hhop, hres⟩ := moveOne_succ_ok hte' h
      cases hk : (m.state s).trans[decisionOf m s i]? with
      | none => rw [hk] at hres; cases hres; exact PosPath.nil s
      | some t =>
        rw [hk] at hres
        have htm : t ∈ (m.state s).trans := List.mem_of_getElem? hk
        have hpos := prob_zero_never_partial m s i _ t hwd hhop hk (Or.inl (hd s))
        simp only [landing] at hres
        by_cases htr : (m.state t.out).transient = true
        · simp only [htr, if_true] at hres
          cases hm : moveOne m fuel t.out i with
          | error e => rw [hm] at hres; cases hres
          | ok p =>
            rw [hm] at hres; cases hres
            exact PosPath.cons s t p htm hpos (ih t.out p hm)
        · simp only [htr, Bool.false_eq_true, if_false] at hres
          cases hres
          exact PosPath.cons s t [] htm hpos (PosPath.nil _)

/-- **a sole probability-1 transition is always taken**: the only transition out of the state, probability 1
for this simulant – decided for every draw in [0,1), with or without the null transition, no side condition. -/
theorem sole_one_always (m : Mach) (s i : Nat) (t : Trans) (hwd : 0 < m.wd)
    (htr : (m.state s).trans = [t]) (hp : prob t i = m.wd) (hd : (m.state s).draws.getD i 0 < m.dd) :
    hop m s i = .ok 0 := by
  have hrow : rowOf (m.state s).trans i = [m.wd] := by simp [rowOf, htr, hp]
  have hne : (m.wd == 0) = false := by simp; omega
  unfold hop
  simp only
  rw [hrow]
  generalize (m.state s).draws.getD i 0 = d at hd
  have hlt : ¬ (m.wd * m.dd < d * m.wd) := by
    intro h
    rw [Nat.mul_comm d m.wd] at h
    have := Nat.lt_of_mul_lt_mul_left h
    omega
  cases (m.state s).selfOk with
  | false => simp [normalize, ones, normRow, hne, choiceIdx, cumsumFrom, hlt]
  | true => simp [normalize, ones, normRow, choiceIdx, cumsumFrom, hlt]

/-- the same among several transitions: transition `k` has probability 1 for the simulant and every other one
probability 0 (e.g. they are triggered and inactive) ⇒ `k` is decided – GIVEN a positive draw or `k = 0`
(the F9 edge again: zero weights BEFORE `k` are skipped only by a positive draw). -/
theorem sole_one_among_partial (m : Mach) (s i k : Nat) (hwd : 0 < m.wd)
    (hk : (rowOf (m.state s).trans i)[k]? = some m.wd)
    (hz : ∀ j x, j ≠ k → (rowOf (m.state s).trans i)[j]? = some x → x = 0)
    (hd : (m.state s).draws.getD i 0 < m.dd) (hpos : 0 < (m.state s).draws.getD i 0 ∨ k = 0) :
    hop m s i = .ok k := by
  have hones := ones_eq_one m.wd hwd _ k hk hz
  have hsumle := le_sum_of_getElem? _ k m.wd hk
  have hklt : k < (rowOf (m.state s).trans i).length := by
    by_cases hh : k < (rowOf (m.state s).trans i).length
    · exact hh
    · rw [List.getElem?_eq_none (Nat.le_of_not_lt hh)] at hk; cases hk
  have hne : rowOf (m.state s).trans i ≠ [] := by
    intro hh; rw [hh] at hklt; simp at hklt
  have hnorm : normalize m.wd (m.state s).selfOk (rowOf (m.state s).trans i) =
      .ok (normRow m.wd (m.state s).selfOk (rowOf (m.state s).trans i)) := by
    unfold normalize
    rw [if_neg (by omega)]
    cases (m.state s).selfOk with
    | true => simp [hones]
    | false =>
      have : ((rowOf (m.state s).trans i).sum == 0) = false := by simp; omega
      simp [this]
  rw [hop_of_normalize m s i hnorm]
  congr 1
  -- the decision is below the length, is not a zero-weight position, hence is `k`
  have hsum := normRow_sum_pos hwd hnorm
  have hcond : 0 < (m.state s).draws.getD i 0 * (normRow m.wd (m.state s).selfOk (rowOf (m.state s).trans i)).sum ∨
      0 < (normRow m.wd (m.state s).selfOk (rowOf (m.state s).trans i)).head?.getD 0 := by
    cases hpos with
    | inl h => left; exact Nat.mul_pos h hsum
    | inr h =>
      right
      rw [normRow_head? _ _ _ hne]
      subst h
      cases hrow : rowOf (m.state s).trans i with
      | nil => exact absurd hrow hne
      | cons a l => rw [hrow] at hk; simp at hk; simp [hk, hwd]
  have hnz : ∀ j, j ≠ k → (normRow m.wd (m.state s).selfOk (rowOf (m.state s).trans i))[j]? = some 0 →
      decisionOf m s i ≠ j := fun j _ hj => choiceIdx_ne_of_zero _ _ m.dd j hj hcond
  have hnrne : normRow m.wd (m.state s).selfOk (rowOf (m.state s).trans i) ≠ [] := by
    intro hh
    have := normRow_getElem? m.wd (m.state s).selfOk _ k hklt
    rw [hh, hk] at this; simp at this
  have hlt := choiceIdx_lt_length _ ((m.state s).draws.getD i 0) m.dd hnrne (Nat.le_of_lt hd)
  by_cases heq : decisionOf m s i = k
  · exact heq
  · exfalso
    apply hnz (decisionOf m s i) heq _ rfl
    -- the entry at that position is 0: inside the row by `hz`, the appended null weight otherwise
    by_cases hin : decisionOf m s i < (rowOf (m.state s).trans i).length
    · rw [normRow_getElem? _ _ _ _ hin, List.getElem?_eq_getElem hin]
      congr 1
      exact hz _ _ heq (List.getElem?_eq_getElem hin)
    · have hlt' : decisionOf m s i < (normRow m.wd (m.state s).selfOk (rowOf (m.state s).trans i)).length := hlt
      unfold normRow at hlt' ⊢
      cases hso : (m.state s).selfOk with
      | false => simp only [hso, Bool.false_eq_true, if_false] at hlt'; omega
      | true =>
        simp only [hso, if_true, hones, beq_self_eq_true] at hlt' ⊢
        simp only [List.length_append, List.length_cons, List.length_nil] at hlt'
        have : decisionOf m s i = (rowOf (m.state s).trans i).length := by omega
        rw [this]; simp

/-! ### what is rejected -/

/-- `_normalize_probabilities` accepts a row exactly when: at most one probability 1; with the null
transition, a row without a probability 1 sums to at most 1; without it, the row does not sum to 0. -/
theorem normalize_ok_iff (wd : Nat) (so : Bool) (r : List Nat) :
    (∃ r', normalize wd so r = .ok r') ↔
      ones wd r ≤ 1 ∧ (so = true → ones wd r = 1 ∨ r.sum ≤ wd) ∧ (so = false → r.sum ≠ 0) := by
  constructor
  · rintro ⟨r', h⟩
    unfold normalize at h
    split at h
    · cases h
    · rename_i h1
      refine ⟨by omega, ?_, ?_⟩
      · intro hso; subst hso
        simp only [if_true] at h
        split at h
        · cases h
        · rename_i h2
          simp only [Bool.and_eq_true, beq_iff_eq, decide_eq_true_eq, not_and, Nat.not_lt] at h2
          by_cases h0 : ones wd r = 0
          · right; exact h2 h0
          · left; omega
      · intro hso; subst hso
        simp only [Bool.false_eq_true, if_false] at h
        split at h
        · cases h
        · rename_i h2; simpa using h2
  · rintro ⟨h1, h2, h3⟩
    unfold normalize
    rw [if_neg (by omega)]
    cases so with
    | true =>
      have : (ones wd r == 0 && decide (wd < r.sum)) = false := by
        cases h2 rfl with
        | inl h => simp [h]
        | inr h => simp only [Bool.and_eq_false_imp, beq_iff_eq, decide_eq_false_iff_not, Nat.not_lt]; intro _; exact h
      simp [this]
    | false =>
      have : (r.sum == 0) = false := by simpa using h3 rfl
      simp [this]

/-- **weights that cannot be normalised are rejected** (the three cases the code rejects): two transitions
with probability 1; total 0 without the null transition; total above 1 with it (and no probability 1 to
rescale by). -/
theorem normalize_rejects (wd : Nat) (r : List Nat) :
    (∀ so, 1 < ones wd r → normalize wd so r = .error .multipleDefaults) ∧
    (ones wd r ≤ 1 → r.sum = 0 → normalize wd false r = .error .noValidTransition) ∧
    (ones wd r = 0 → wd < r.sum → normalize wd true r = .error .unnormalised) := by
  refine ⟨fun so h => by simp [normalize, h], fun h1 h2 => ?_, fun h1 h2 => ?_⟩
  · have : ¬ (1 < ones wd r) := by omega
    simp [normalize, this, h2]
  · simp [normalize, h1, h2]

/-- … and a rejected row rejects the call: if a simulant of the index is in a state with transitions and its
own weights there cannot be normalised, `Machine.transition` raises (for everybody). -/
theorem transition_rejects (m : Mach) (fuel : Nat) (tab : Table) (idx : List Nat) (i : Nat) (r : Row) (e : Err)
    (hi : i ∈ idx) (hr : tab[i]? = some r) (htk : r.tracked = true) (hne : (m.state r.st).trans.isEmpty = false)
    (hbad : normalize m.wd (m.state r.st).selfOk (rowOf (m.state r.st).trans i) = .error e) :
    ∃ e', transition m fuel tab idx = .error e' := by
  cases h : transition m fuel tab idx with
  | error e' => exact ⟨e', rfl⟩
  | ok tab' =>
    exfalso
    obtain ⟨r', hr', _, ht⟩ := transition_pointwise m fuel tab tab' idx h i hi
    rw [hr] at hr'; cases hr'
    obtain ⟨path, hm, _⟩ := ht htk
    cases fuel with
    | zero => rw [moveOne_zero m _ i hne] at hm; cases hm
    | succ fuel =>
      have := (hop_ok (moveOne_succ_ok hne hm).1).1
      rw [hbad] at this; cases this

/-- **untracked simulants are not transitioned** (and cannot make the call fail): whatever their weights. -/
theorem transition_untracked_untouched (m : Mach) (fuel : Nat) (tab tab' : Table) (idx : List Nat) (i : Nat) (r : Row)
    (h : transition m fuel tab idx = .ok tab') (hr : tab[i]? = some r) (hu : r.tracked = false) :
    tab'[i]? = some r := by
  by_cases hi : i ∈ idx
  · obtain ⟨r', hr', hu', _⟩ := transition_pointwise m fuel tab tab' idx h i hi
    rw [hr] at hr'; cases hr'
    exact hu' hu
  · rw [(transition_frame m fuel tab tab' idx h).2.1 i hi, hr]

/-! ### split once -/

/-- **the split by current state is made once.** A simulant whose only way out of `A` is a probability-1
transition to the non-transient state `B` is in `B` after the call – whatever transitions `B` itself has
(say, probability 1 on to `C`) and whoever is processed as a `B` in the same call: it is not processed
again as a `B`. -/
theorem split_once (m : Mach) (fuel : Nat) (tab tab' : Table) (idx : List Nat) (i : Nat) (r : Row) (t : Trans)
    (hwd : 0 < m.wd) (h : transition m (fuel + 1) tab idx = .ok tab') (hi : i ∈ idx) (hr : tab[i]? = some r)
    (htk : r.tracked = true)
    (htr : (m.state r.st).trans = [t]) (hp : prob t i = m.wd) (hnt : (m.state t.out).transient = false)
    (hd : (m.state r.st).draws.getD i 0 < m.dd) :
    tab'[i]? = some { r with st := t.out } := by
  obtain ⟨r', hr', _, hx⟩ := transition_pointwise m _ tab tab' idx h i hi
  rw [hr] at hr'; cases hr'
  obtain ⟨path, hm, ht⟩ := hx htk
  have hte : (m.state r.st).trans.isEmpty = false := by rw [htr]; rfl
  have hhop := sole_one_always m r.st i t hwd htr hp hd
  rw [moveOne_succ m fuel r.st i hte, hhop] at hm
  simp only [htr, List.getElem?_cons_zero, landing, hnt, Bool.false_eq_true, if_false] at hm
  cases hm
  exact ht

/-! ### non-vacuity: a concrete machine on which every hypothesis above is met

states: 0 = A (self transitions allowed), 1 = B, 2 = T (transient), 3 = C.
A → B (weights 4,16,0,0,0 /16), A → T (4,0,16,16,0 – triggered, active for simulants 0 and 2), B → C (prob 1), T → C (prob 1). -/
def demo : Mach :=
  { wd := 16, dd := 16,
    states := [
      { selfOk := true, trans := [{ out := 1, w := [4, 16, 0, 0, 0] }, { out := 2, w := [4, 0, 16, 16, 0], active := some [0, 2] }],
        draws := [9, 3, 5, 1, 0] },
      { trans := [{ out := 3, w := [16, 16, 16, 16, 16] }], draws := [1, 1, 1, 1, 1] },
      { transient := true, trans := [{ out := 3, w := [16, 16, 16, 16, 16] }], draws := [2, 2, 2, 2, 2] },
      { } ] }

def demoTab : Table := [⟨0, 10, true⟩, ⟨0, 11, true⟩, ⟨0, 12, true⟩, ⟨0, 13, true⟩, ⟨1, 14, true⟩]

-- simulant 0 stays (draw 9/16 beyond 8/16), 1 takes its sole probability-1 transition to B and is NOT moved on
-- to C, 2 goes through T to C, 3 (inactive for A → T, weight 0 for A → B) stays, 4 (a B) goes to C.
example : transition demo 5 demoTab [0, 1, 2, 3, 4] = .ok [⟨0, 10, true⟩, ⟨1, 11, true⟩, ⟨3, 12, true⟩, ⟨0, 13, true⟩, ⟨3, 14, true⟩] := by decide
example : transition demo 5 demoTab [2] = .ok [⟨0, 10, true⟩, ⟨0, 11, true⟩, ⟨3, 12, true⟩, ⟨0, 13, true⟩, ⟨1, 14, true⟩] := by decide
-- an untracked simulant in the index is not transitioned (and its un-normalisable weights reject nothing)
example : transition demo 5 [⟨0, 10, true⟩, ⟨1, 11, false⟩] [0, 1] = .ok [⟨0, 10, true⟩, ⟨1, 11, false⟩] := by decide
example : cleanupCalls demo [⟨0, 10, true⟩, ⟨1, 11, false⟩, ⟨3, 12, true⟩, ⟨0, 13, true⟩] [3, 2, 1, 0] = .ok [(0, [3, 0]), (3, [2])] := by decide
example : moveOne demo 5 0 2 = .ok [2, 3] := by decide
example : hop demo 0 1 = .ok 0 ∧ (demo.state 0).trans[0]? = some { out := 1, w := [4, 16, 0, 0, 0] } := by decide
example : Lands demo 0 3 :=
  Lands.through 0 { out := 2, w := [4, 0, 16, 16, 0], active := some [0, 2] } 3 (by decide) (by decide)
    (Lands.direct 2 { out := 3, w := [16, 16, 16, 16, 16] } (by decide) (by decide))
example : prob { out := 2, w := [4, 0, 16, 16, 0], active := some [0, 2] } 3 = 0 := by decide
-- evaluate, deactivate 2, evaluate the SAME index again: simulant 2 now has probability 0
example : activeAfter [] [(true, [1, 2, 3]), (false, [2]), (false, [])] = [1, 3] := by decide
example : probability { out := 1, w := [16, 16, 16, 16], active := some (activeAfter [] [(true, [1, 2, 3]), (false, [2])]) } [3, 2, 1, 0]
    = [16, 0, 16, 0] := by decide
example : normalize 16 true [16, 16] = .error .multipleDefaults := by decide
example : normalize 16 false [0, 0] = .error .noValidTransition := by decide
example : normalize 16 true [12, 8] = .error .unnormalised := by decide
example : normalize 16 true [16, 8] = .ok [16, 8, 0] := by decide
example : normalize 16 false [12, 8] = .ok [12, 8] := by decide
-- a cycle of transient states runs out of fuel for every fuel that is tried
example : moveOne { states := [{ transient := true, trans := [{ out := 0, w := [16] }], draws := [1] }] } 7 0 0 = .error .loop := by decide

end Viv.Props.C17
