import VivModel.Model.Machine
import VivModel.Gen.Src
import VivModel.Lemmas.PyAst
import VivModel.Lemmas.PyState
/-! C17, source tie: the Python source of `Machine.transition` (`Gen/Src.lean`, regenerated from the tree under test on
every run) evaluated by `Py.evalBlock` IS the model's `Machine.transition` (`Model/Machine.lean`): the requested index is
split by CURRENT state ONCE, before any transition is made (`for state, affected in self._get_state_pops(index)`: the
iterable is evaluated once), every non-empty part is handed to its own state's `next_state` exactly once, in the order of
`Machine.states`, with the part's own index - so no simulant is processed twice in one call, and an unknown simulant
refuses the whole call. The state table is the state of a state monad; `_get_state_pops` and `State.next_state` are the
model's `statePops` / `nextState` (tied by correspondence in `./check C17`). -/
namespace Viv.Props.C17Src
open Viv.Py Viv.Machine

inductive MFn where
  | getStatePops | subview | nextState (s : Nat)

/-- the Python objects `Machine.transition` touches -/
inductive MV where
  | none | bool (b : Bool) | int (i : Int) | str (s : String)
  | self | view | subviewObj | stateColumn | time
  /-- the requested `pd.Index` / the index of a sub-population -/
  | idx (l : List Nat)
  /-- a `State` object, by position in `Machine.states` -/
  | state (s : Nat)
  /-- the rows of the requested simulants that are currently in one state (a DataFrame) -/
  | pop (l : List Nat)
  | pair (a b : MV)
  | fn (f : MFn)
  | list (vs : List MV)

/-- the state table is the state; it survives a raised exception -/
abbrev M := SM Table

def mGetAttr : MV → String → M MV
  | .self, a =>
    if a == "_get_state_pops" then pure (.fn .getStatePops)
    else if a == "population_view" then pure .view
    else if a == "state_column" then pure .stateColumn
    else throw "AttributeError"
  | .view, a => if a == "subview" then pure (.fn .subview) else throw "AttributeError"
  | .pop l, a =>
    if a == "empty" then pure (.bool l.isEmpty)
    else if a == "index" then pure (.idx l)
    else throw "AttributeError"
  | .state s, a => if a == "next_state" then pure (.fn (.nextState s)) else throw "AttributeError"
  | _, _ => throw "AttributeError"

def mPrim (m : Mach) (fuel : Nat) : MFn → List MV → List (String × MV) → M MV
  | .getStatePops, [.idx idx], [] => do
    let tab ← (get : M Table)
    if idx.any (fun i => decide (tab.length ≤ i)) then throw "PopulationError"
    else pure (.list ((statePops m tab idx).map fun p => .pair (.state p.1) (.pop p.2)))
  | .subview, [.stateColumn], [] => pure .subviewObj
  | .nextState s, [.idx l, .time, .subviewObj], [] => do
    let tab ← (get : M Table)
    match nextState m fuel s l tab with
    | .ok tab' => set tab'; pure .none
    | .error _ => throw "TransitionError"
  | _, _, _ => throw "TypeError"

def mworld (m : Mach) (fuel : Nat) : World M MV where
  none := .none
  bool := .bool
  int := .int
  str := .str
  list := .list
  newList vs := pure (.list vs)
  tuple := .list
  global _ := throw "NameError"
  truthy
    | .none => pure false
    | .bool b => pure b
    | _ => pure true
  getAttr := mGetAttr
  setAttr _ _ _ := throw "AttributeError"
  call f args kws := match f with
    | .fn g => mPrim m fuel g args kws
    | _ => throw "TypeError"
  cmp _ _ _ := throw "TypeError"
  bin _ _ _ := throw "TypeError"
  neg _ := throw "TypeError"
  sub _ _ := throw "TypeError"
  slice _ _ := .none
  setItem _ _ _ := throw "TypeError"
  iter
    | .list vs => pure vs
    | .pair a b => pure [a, b]
    | _ => throw "TypeError"
  unstar _ := throw "TypeError"
  format _ := throw "TypeError"
  concat _ := throw "TypeError"
  dict _ := throw "TypeError"
  whileLoop _ _ _ := throw "Unsupported"
  other _ := throw "Unsupported"
  throw cls := throw cls
  rethrow := throw "reraise"
  catchAll body handler := tryCatch body (fun _ => handler)
  catchCls cls body handler := tryCatch body (fun e => if e == cls then handler else throw e)


/-- an empty sub-population makes no transition -/
theorem nextState_nil (m : Mach) (fuel s : Nat) (tab : Table) : nextState m fuel s [] tab = .ok tab := by
  cases fuel <;> simp [nextState]

theorem runPops_fold (m : Mach) (fuel : Nat) : ∀ (ps : List (Nat × List Nat)) (tab : Table),
    (runPops m fuel ps tab).toOption
      = ps.foldlM (fun tab p => (nextState m fuel p.1 p.2 tab).toOption) tab
  | [], tab => rfl
  | (s, pop) :: rest, tab => by
    simp only [runPops, List.foldlM_cons]
    cases h : nextState m fuel s pop tab with
    | error e => rfl
    | ok tab1 => simpa [Except.toOption] using runPops_fold m fuel rest tab1

/-- what one pass of the loop does to the state table -/
def step (m : Mach) (fuel : Nat) : MV → Table → Option Table
  | .pair (.state s) (.pop l), tab => (nextState m fuel s l tab).toOption
  | _, _ => Option.none

theorem transition_refines (m : Mach) (fuel : Nat) (tab : Table) (idx : List Nat) :
    stOut (runM (Gen.Src.machineTransition.run (mworld m fuel) [("self", .self), ("index", .idx idx), ("event_time", .time)]) tab)
      = (transition m fuel tab idx).toOption := by
  simp only [Gen.Src.machineTransition]
  rw [stOut_func_single, evalStmt]
  by_cases hbad : ∃ x, x ∈ idx ∧ tab.length ≤ x
  · simp [evalExpr, evalArgs, evalKws, mworld, mGetAttr, mPrim, transition, hbad, stOut, Except.toOption]
  · simp only [runM_bind]
    conv in (runM (evalExpr _ _ _) _) => simp [evalExpr, evalArgs, evalKws, mworld, mGetAttr, mPrim, hbad]
    dsimp only
    conv in (runM ((mworld m fuel).iter _) _) => simp [mworld]
    dsimp only
    rw [stOut_forLoopC (Inv := fun loc => loc.get "self" = some MV.self ∧ loc.get "event_time" = some MV.time)
      (step := step m fuel) (hinv := by simp)]
    · simp only [List.foldlM_map, step]
      have : (transition m fuel tab idx) = runPops m fuel (statePops m tab idx) tab := by
        simp [transition, hbad]
      rw [this, runPops_fold]
    · intro loc x st hx hinv
      obtain ⟨p, hp, rfl⟩ := List.mem_map.mp hx
      obtain ⟨h1, h2⟩ := hinv
      simp only [step]
      rcases p with ⟨s, l⟩
      cases l with
      | nil =>
        simp [nextState_nil, Except.toOption, assignTo, bindNames, evalBlock, evalStmt, evalExpr, evalArgs, evalKws, mworld, mGetAttr,
          mPrim, h1, h2, Ctl.goesOn]
        exact ⟨_, _, ⟨rfl, rfl⟩, rfl, by simp [h1], by simp [h2]⟩
      | cons a l =>
        cases hn : nextState m fuel s (a :: l) st with
        | error e =>
          simp [Except.toOption, assignTo, bindNames, evalBlock, evalStmt, evalExpr, evalArgs, evalKws, mworld, mGetAttr,
            mPrim, h1, h2, hn]
        | ok st' =>
          simp [Except.toOption, assignTo, bindNames, evalBlock, evalStmt, evalExpr, evalArgs, evalKws, mworld, mGetAttr,
            mPrim, h1, h2, hn, Ctl.goesOn]
          exact ⟨_, _, ⟨rfl, rfl⟩, rfl, by simp [h1], by simp [h2]⟩
/-- non-vacuity: the statement is about runs that happen - an empty machine leaves every table as it is -/
example : stOut (runM (Gen.Src.machineTransition.run (mworld {} 3) [("self", .self), ("index", .idx [0, 1]), ("event_time", .time)])
    [⟨0, 5, true⟩, ⟨0, 6, false⟩]) = some [⟨0, 5, true⟩, ⟨0, 6, false⟩] := by
  rw [transition_refines]; rfl

end Viv.Props.C17Src
