import VivModel.Model.Engine
import VivModel.Props.C01
/-! C18 — resuming from a backup continues the same simulation (model-level part).

The content is that one engine step is a function of the world alone (`stepW` has no other input), so
cutting a run at any step boundary, serialising, restoring and continuing gives the uninterrupted run
– given the `dill` contract `restore ∘ backup = id`. Fidelity of `dill` on the live Python object
graph is runtime behaviour and is explored at every step boundary, not proved (PARTIAL). -/
namespace Viv.Props.C18
open Viv.Engine Viv.Ctx Viv.Ev Viv.Props.C08 Viv.Props.C01

/-- the dill contract as modelled -/
theorem restore_backup {σ : Type} (w : World σ) : restore (backup w) = w := rfl

/-- interrupt after any `n` steps, back up, restore, continue for `m` steps = the uninterrupted
`n + m` steps; for every handler (component set) and every world -/
theorem resume_eq {σ : Type} (h : Handler σ) (n m : Nat) (w : World σ) :
    (iter h n w >>= fun w' => iter h m (restore (backup w'))) = iter h (n + m) w := by
  rw [iter_add]; rfl

/-- … and the same when the uninterrupted run is `run()` and the resumed part is driven by `run()`
again: for every interruption point `n` not beyond the end -/
theorem resume_run_eq {σ : Type} (h : Handler σ) (w : World σ) (hr : Running w.sim)
    (hpos : 0 < w.sim.step) (hlt : w.sim.clock < w.sim.stop) (fuel : Nat)
    (hf : (ceilDiv (w.sim.stop - w.sim.clock) w.sim.step).toNat ≤ fuel)
    (n : Nat) (hn : n ≤ (ceilDiv (w.sim.stop - w.sim.clock) w.sim.step).toNat) :
    runW h fuel w =
      (iter h n w >>= fun w' =>
        iter h ((ceilDiv (w.sim.stop - w.sim.clock) w.sim.step).toNat - n) (restore (backup w'))) := by
  rw [(apis_agree h w hr hpos hlt fuel hf).1, resume_eq]
  congr 1; omega

/-- no hidden state: the continuation after a restore depends on the restored world only – two
processes holding equal worlds continue identically (whatever else differs between the processes
is not an input of `iter`). -/
theorem no_hidden_state {σ : Type} (h : Handler σ) (m : Nat) (w₁ w₂ : World σ) (e : w₁ = w₂) :
    iter h m (restore (backup w₁)) = iter h m w₂ := by subst e; rfl

/-- every step boundary of a run is reached by `iter`: the world at boundary `n` of an `N`-step run
is a prefix state of it (so a backup written at any boundary is a state of the uninterrupted run) -/
theorem boundary_is_prefix {σ : Type} (h : Handler σ) (n N : Nat) (hn : n ≤ N) (w wN : World σ)
    (hN : iter h N w = .ok wN) : ∃ wn, iter h n w = .ok wn ∧ iter h (N - n) wn = .ok wN := by
  have : N = n + (N - n) := by omega
  rw [this, iter_add] at hN
  cases hi : iter h n w with
  | ok wn => rw [hi] at hN; exact ⟨wn, rfl, hN⟩
  | error f => rw [hi] at hN; cases hN

-- non-vacuity: a concrete running world with a counting handler
example : (iter (σ := Nat) (fun _ _ _ u => u + 1) 2
    ⟨⟨{ st := "population_creation", setupDone := true, created := true }, 0, 1, 3, []⟩, 0, "simulation_1"⟩).map
      (fun w => (w.user, w.sim.clock)) = .ok (8, 2) := by decide

end Viv.Props.C18
