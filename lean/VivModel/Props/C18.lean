import VivModel.Model.Engine
import VivModel.Props.C01
/-! C18 — resuming from a backup continues the same simulation (model-level part).

The content is that one engine step is a function of the world alone (`stepW` has no other input), so
cutting a run at any step boundary – once, twice or any number of times (`resume_chain_eq`) –, serialising,
restoring and continuing through any of the driving APIs gives the uninterrupted run, given the `dill`
contract `restore ∘ backup = id`; and that the engine's own backup loop writes exactly the worlds at the step
boundaries without disturbing the run (`backups_are_boundaries`, `backups_do_not_perturb`). Fidelity of `dill`
on the live Python object graph is runtime behaviour and is explored at every step boundary, not proved (PARTIAL). -/
namespace Viv.Props.C18
open Viv.Engine Viv.Ctx Viv.Ev Viv.Props.C08 Viv.Props.C01

/-- the dill contract as modelled -/
theorem restore_backup {σ : Type} (w : World σ) : restore (backup w) = w := rfl

/-- interrupt after any `n` steps, back up, restore, continue for `m` steps = the uninterrupted
`n + m` steps; for every handler (component set) and every world -/
theorem resume_eq {σ : Type} (h : Handler σ) (n m : Nat) (w : World σ) :
    (iter h n w >>= fun w' => iter h m (restore (backup w'))) = iter h (n + m) w := by
  rw [iter_add]; rfl

/-- … and the same when the uninterrupted run is `run()` and the resumed part is driven by `run()`
again: for every interruption point `n` not beyond the end -/
theorem resume_run_eq {σ : Type} (h : Handler σ) (w : World σ) (hr : Running w.sim)
    (hpos : 0 < w.sim.step) (hlt : w.sim.clock < w.sim.stop) (fuel : Nat)
    (hf : (ceilDiv (w.sim.stop - w.sim.clock) w.sim.step).toNat ≤ fuel)
    (n : Nat) (hn : n ≤ (ceilDiv (w.sim.stop - w.sim.clock) w.sim.step).toNat) :
    runW h fuel w =
      (iter h n w >>= fun w' =>
        iter h ((ceilDiv (w.sim.stop - w.sim.clock) w.sim.step).toNat - n) (restore (backup w'))) := by
  rw [(apis_agree h w hr hpos hlt fuel hf).1, resume_eq]
  congr 1; omega

/-- no hidden state: the continuation after a restore depends on the restored world only – two
processes holding equal worlds continue identically (whatever else differs between the processes
is not an input of `iter`). -/
theorem no_hidden_state {σ : Type} (h : Handler σ) (m : Nat) (w₁ w₂ : World σ) (e : w₁ = w₂) :
    iter h m (restore (backup w₁)) = iter h m w₂ := by subst e; rfl

/-- every step boundary of a run is reached by `iter`: the world at boundary `n` of an `N`-step run
is a prefix state of it (so a backup written at any boundary is a state of the uninterrupted run) -/
theorem boundary_is_prefix {σ : Type} (h : Handler σ) (n N : Nat) (hn : n ≤ N) (w wN : World σ)
    (hN : iter h N w = .ok wN) : ∃ wn, iter h n w = .ok wn ∧ iter h (N - n) wn = .ok wN := by
  have : N = n + (N - n) := by omega
  rw [this, iter_add] at hN
  cases hi : iter h n w with
  | ok wn => rw [hi] at hN; exact ⟨wn, rfl, hN⟩
  | error f => rw [hi] at hN; cases hN

/-! ### the same for a global step that changes from step to step (per-simulant clocks) -/

theorem viter_add {W : Type} (S : VSys W) (n m : Nat) (w : W) : S.iter (n + m) w = S.iter m (S.iter n w) := by
  induction n generalizing w with
  | zero => simp [VSys.iter]
  | succ n ih => rw [Nat.succ_add]; simp only [VSys.iter]; exact ih _

/-- interrupting `run()` after any `n` completed steps (not beyond the end), restoring the backup of that boundary
and calling `run()` again ends in the same world as the uninterrupted `run()` – for ANY step function, i.e. also
when the step size changes during the run. (A crash in the middle of step `n+1` leaves exactly this backup on disk:
the partial step is lost with the crashed process and is redone.) -/
theorem vrun_resume {W : Type} (S : VSys W) (stop : Int) (n : Nat) :
    ∀ (fuel : Nat) (w : W), n ≤ (S.run stop (fuel + n) w).1 →
      (S.run stop fuel (S.iter n w)).2 = (S.run stop (fuel + n) w).2 := by
  induction n with
  | zero => intro fuel w _; rfl
  | succ n ih =>
    intro fuel w h
    have e : fuel + (n + 1) = (fuel + n) + 1 := by omega
    rw [e] at h ⊢
    simp only [VSys.run] at h ⊢
    by_cases hlt : S.time w < stop
    · simp only [hlt, if_true] at h ⊢
      simp only [VSys.iter]
      exact ih fuel (S.step w) (by omega)
    · simp only [hlt, if_false] at h
      omega

/-- … and the number of steps adds up: `n` before the interruption plus what the resumed run takes -/
theorem vrun_resume_count {W : Type} (S : VSys W) (stop : Int) (n : Nat) :
    ∀ (fuel : Nat) (w : W), n ≤ (S.run stop (fuel + n) w).1 →
      (S.run stop fuel (S.iter n w)).1 + n = (S.run stop (fuel + n) w).1 := by
  induction n with
  | zero => intro fuel w _; rfl
  | succ n ih =>
    intro fuel w h
    have e : fuel + (n + 1) = (fuel + n) + 1 := by omega
    rw [e] at h ⊢
    simp only [VSys.run] at h ⊢
    by_cases hlt : S.time w < stop
    · simp only [hlt, if_true] at h ⊢
      simp only [VSys.iter]
      have := ih fuel (S.step w) (by omega)
      omega
    · simp only [hlt, if_false] at h
      omega

/-! ### more than one interruption, the backups `run(backup_path, …)` writes, resuming through the interactive API -/

/-- interrupted TWICE (backup, restore, continue, backup again, restore again, continue) = never interrupted -/
theorem resume_twice_eq {σ : Type} (h : Handler σ) (a b c : Nat) (w : World σ) :
    (iter h a w >>= fun w₁ => iter h b (restore (backup w₁)) >>= fun w₂ => iter h c (restore (backup w₂))) =
      iter h (a + b + c) w := by
  rw [iter_add h (a + b) c, iter_add h a b]
  cases iter h a w with
  | ok w₁ => rfl
  | error f => rfl

/-- ANY number of interruptions at ANY boundaries: a run cut into segments, written and read back after each, is the
uninterrupted run – for any step function and any `save`/`load` pair with `load ∘ save = id` (the dill contract) -/
theorem resume_chain_eq {W : Type} (S : VSys W) (save load : W → W) (hl : ∀ w, load (save w) = w) (ns : List Nat) (w : W) :
    S.segments save load ns w = S.iter ns.sum w := by
  induction ns generalizing w with
  | nil => rfl
  | cons n r ih => simp only [VSys.segments, hl, ih, List.sum_cons, viter_add]

/-- the engine's own backup loop `run(backup_path, backup_freq)`: writing the backups does not disturb the run … -/
theorem backups_do_not_perturb {W : Type} (S : VSys W) (stop : Int) (fuel : Nat) (w : W) :
    (S.runB stop fuel w).2 = (S.run stop fuel w).2 := by
  induction fuel generalizing w with
  | zero => rfl
  | succ n ih =>
    simp only [VSys.runB, VSys.run]
    split
    · exact ih _
    · rfl

/-- … and the backups it writes are exactly the worlds at the step boundaries 1, 2, …, N of the run, in order: a backup
is always taken after a WHOLE number of steps -/
theorem backups_are_boundaries {W : Type} (S : VSys W) (stop : Int) (fuel : Nat) (w : W) :
    (S.runB stop fuel w).1 = (List.range (S.run stop fuel w).1).map (fun k => S.iter (k + 1) w) := by
  induction fuel generalizing w with
  | zero => rfl
  | succ n ih =>
    simp only [VSys.runB, VSys.run]
    split
    · simp only [ih, List.range_succ_eq_map, List.map_cons, List.map_map]
      rfl
    · rfl

/-- a backup restored into an InteractiveContext and continued with `run_until(stop)` / `InteractiveContext.run()` ends
where the uninterrupted `SimulationContext.run()` ends -/
theorem resume_interactive {W : Type} (S : VSys W) (stop : Int) (n fuel : Nat) (w : W)
    (hn : n ≤ (S.run stop (fuel + n) w).1) :
    (S.runUntil stop fuel (S.iter n w)).2 = (S.run stop (fuel + n) w).2 := by
  rw [run_until_eq_run]; exact vrun_resume S stop n fuel w hn

-- non-vacuity: the varying clock interrupted after 1 and after 1 more step; the backups of its run
example : varying.segments id id [1, 1, 0] (0, 1) = (varying.run 4 100 (0, 1)).2 := by decide
example : (varying.runB 4 100 (0, 1)).1 = [(1, 3), (4, 3)] := by decide

-- non-vacuity: interrupting the varying-step clock of C01 after its first step
example : (varying.run 4 100 (varying.iter 1 (0, 1))).2 = (varying.run 4 101 (0, 1)).2 := by decide

-- non-vacuity: a concrete running world with a counting handler
example : (iter (σ := Nat) (fun _ _ _ u => u + 1) 2
    ⟨⟨{ st := "population_creation", setupDone := true, created := true }, 0, 1, 3, []⟩, 0, "simulation_1"⟩).map
      (fun w => (w.user, w.sim.clock)) = .ok (8, 2) := by decide

end Viv.Props.C18
