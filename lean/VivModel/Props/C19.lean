import VivModel.Model.Artifact
import VivModel.Lemmas.Artifact
/-! C19 — the artifact's keys, file and contents always agree.

Model: `Model/Artifact.lean` (an HDF tree with path aliasing, `Keys`, `Artifact`, filter terms), a
transliteration of `artifact.py` / `hdf.py` as they are (with the `fix:` commits for F8, F19, F20).

Headline statements (everything else in this file is a lemma towards them):

* `ops_K_partial`   every operation sequence – refused operations, reopens, second artifacts, operations on
                    `metadata.keyspace` itself included – preserves the invariant `K` (keys = persisted key
                    space = `metadata.keyspace` :: keys of the file in insertion order, no key twice,
                    cache ⊆ file), for histories over a family of keys none of whose HDF paths is a prefix
                    of another's (`Sep`); `K_agree` restates `K` in the property's words;
                    `nested_write_destroys_child`, `nested_remove_destroys_child`,
                    `nested_remove_raises_after_unlisting`, `leftover_group_refuses_json_write` (F12,
                    recorded) show the hypothesis cannot be dropped;
* `step_refines`, `run_refines`, `load_last_written`, `keys_loadable_iff`   refinement to the abstract
                    key → data map: after any such history `load k` returns what the operation list says
                    was last written under `k`, and is refused iff nothing is;
* `accepted_iff`    the artifact accepts exactly what the property says it must accept;
* `reopen_same_keys`  a reopened / second artifact reads back the same keys and changes nothing;
* `rejected_unchanged`  the refusals the property names (duplicate write, remove / replace / load of a
                    missing key, `None`, malformed key, unserialisable value, anything addressed to the
                    bookkeeping key) change nothing at all – in EVERY state, no hypothesis;
  `refusal_preserves_content`  in the regime EVERY refusal, whatever the value, leaves the key → data map,
                    the set of reported keys and `K` as they were;
  `any_refusal_unchanged_partial`  … and the whole state (file, bare groups, key order, cache) for the
                    operations `Atomic` describes; `failed_replace_moves_key_to_end`,
                    `refused_frame_write_leaves_parent_group` show what `Atomic` excludes and why;
* `filter_subset`, `absent_terms_ignored`, `filter_monotone`, `filter_cols_subset`,
  `filter_rows_are_stored`, `view_restricts`   filter terms only restrict;
* `store_independent_of_cache`, `caller_mutation_only_touches_cache`, `rollback_ignores_cache`   whatever the cache
                    holds (a filtered view, a stale entry, an object the caller mutated in place) write / remove /
                    replace do the same to the store; a caller's in-place mutation stays in that artifact's cache;
* `filters_do_not_affect_store`, `reopenWith_keeps_store`, `filtered_ops_K_partial`, `filtered_run_refines`,
  `filtered_refusal_preserves_content`   the filter terms of the artifact that PERFORMS the operations shape the
                    view `load` hands out and nothing else: the store, the outcomes, `K`, the refinement and
                    "refused ⇒ stored content unchanged" hold whatever – and however often changed – they are. -/
namespace Viv.Props.C19
open Viv.Artifact

/-- The regime in which the property holds: `H` is the family of keys the history addresses; no
well-formed key's HDF path is a prefix of another's (nor of / below `metadata.keyspace`), and the
bookkeeping key itself is not addressed. Malformed keys may be in `H` freely. -/
structure Sep (H : List Key) : Prop where
  ks : ksKey ∉ H
  sep : ∀ k1 ∈ ksKey :: H, ∀ k2 ∈ ksKey :: H,
    wellFormed k1 = true → wellFormed k2 = true → above k1 k2 = true → k1 = k2

/-- Invariant `K`: the file is the user's data nodes `us` (insertion order) followed by the key space
node, which holds exactly the in-memory key list `"metadata.keyspace" :: keys of us`; no key twice;
every stored key is a well-formed key of `H`; the cache only holds what the file holds (except for a
loaded copy of the key list itself, which `load "metadata.keyspace"` caches and nothing refreshes). -/
def K (H : List Key) (a : Art) : Prop :=
  ∃ us : List (Key × Node),
    a.file = us ++ [(ksKey, .keysNode a.keys)] ∧
    a.keys = ksKey :: us.map (·.1) ∧
    (us.map (·.1)).Nodup ∧
    (∀ e ∈ us, e.1 ∈ H ∧ wellFormed e.1 = true) ∧
    (∀ e ∈ a.cache, e.1 ≠ ksKey → e ∈ us)

theorem sep_eq {H : List Key} (hs : Sep H) {k1 k2 : Key} (h1 : k1 ∈ ksKey :: H) (h2 : k2 ∈ ksKey :: H)
    (w1 : wellFormed k1 = true) (w2 : wellFormed k2 = true) (hab : above k1 k2 = true) : k1 = k2 :=
  hs.sep k1 h1 k2 h2 w1 w2 hab

/-- nothing stored sits at or below the path of a fresh key of `H` -/
theorem free_of_fresh {H : List Key} (hs : Sep H) {us : List (Key × Node)} {ks : List Key} {k : Key}
    (hk : k ∈ H) (hw : wellFormed k = true) (hus : ∀ e ∈ us, e.1 ∈ H ∧ wellFormed e.1 = true)
    (hfresh : k ∉ us.map (·.1)) :
    ∀ e ∈ us ++ [(ksKey, Node.keysNode ks)], above k e.1 = false := by
  intro e he
  apply Bool.eq_false_iff.mpr
  intro hab
  rcases List.mem_append.mp he with he | he
  · have := sep_eq hs (List.mem_cons_of_mem _ hk) (List.mem_cons_of_mem _ (hus e he).1) hw (hus e he).2 hab
    exact hfresh (this ▸ List.mem_map.mpr ⟨e, he, rfl⟩)
  · simp only [List.mem_singleton] at he
    subst he
    have := sep_eq hs (List.mem_cons_of_mem _ hk) (List.mem_cons_self) hw wellFormed_ks hab
    exact hs.ks (this ▸ hk)

/-- nothing the user stored sits at or below the key space node -/
theorem ks_free {H : List Key} (hs : Sep H) {us : List (Key × Node)}
    (hus : ∀ e ∈ us, e.1 ∈ H ∧ wellFormed e.1 = true) : ∀ e ∈ us, above ksKey e.1 = false := by
  intro e he
  apply Bool.eq_false_iff.mpr
  intro hab
  have := sep_eq hs List.mem_cons_self (List.mem_cons_of_mem _ (hus e he).1) wellFormed_ks (hus e he).2 hab
  exact hs.ks (this ▸ (hus e he).1)

theorem filter_ks {H : List Key} (hs : Sep H) {us : List (Key × Node)} (n : Node)
    (hus : ∀ e ∈ us, e.1 ∈ H ∧ wellFormed e.1 = true) :
    (us ++ [(ksKey, n)]).filter (fun e => !above ksKey e.1) = us := by
  rw [List.filter_append, List.filter_eq_self.mpr (fun e he => by simp [ks_free hs hus e he])]
  simp [above_self]

theorem lookup_ks {H : List Key} (hs : Sep H) {us : List (Key × Node)} (n : Node)
    (hus : ∀ e ∈ us, e.1 ∈ H ∧ wellFormed e.1 = true) :
    lookup (us ++ [(ksKey, n)]) ksKey = some n := by
  rw [lookup_append]
  have : lookup us ksKey = none := lookup_eq_none_iff.mpr (fun e he h => hs.ks (h ▸ (hus e he).1))
  simp [this, lookup_cons]

theorem write_K {H : List Key} (hs : Sep H) {a : Art} {k : Key} (d : Option Data) (hk : k ∈ H) (h : K H a) :
    K H (write a k d).1 := by
  unfold write
  split
  · exact h
  · rename_i hnot
    cases d with
    | none => exact h
    | some d =>
      dsimp only
      by_cases hw : wellFormed k = true
      · obtain ⟨us, hf, hkeys, hnd, hus, hc⟩ := h
        have hfresh : k ∉ us.map (·.1) := by
          intro hm; apply hnot; rw [hkeys]; simp [hm]
        have hfree : ∀ e ∈ a.file, above k e.1 = false := by
          rw [hf]; exact free_of_fresh hs hk hw hus hfresh
        obtain ⟨s1, s2, s3, s4⟩ := hdfWrite_spec a k d hfree
        generalize hdfWrite a k d = r at s1 s2 s3 s4 ⊢
        obtain ⟨a1, b⟩ := r
        cases b with
        | false =>
          simp only at s1 s2 s4 ⊢
          exact ⟨us, by rw [s4 trivial, s1, hf], by rw [s1, hkeys], hnd, hus, by rw [s2]; exact hc⟩
        | true =>
          obtain ⟨_, nd, _, hfile⟩ := s3 rfl
          simp only at s1 s2 hfile ⊢
          have hus' : ∀ e ∈ us ++ [(k, nd)], e.1 ∈ H ∧ wellFormed e.1 = true := by
            intro e he
            rcases List.mem_append.mp he with he | he
            · exact hus e he
            · simp only [List.mem_singleton] at he; subst he; exact ⟨hk, hw⟩
          have hocc : (lookup ({ a1 with keys := a1.keys ++ [k] } : Art).file ksKey).isSome = true := by
            simp only [hfile, hf, lookup_append, lookup_ks hs _ hus]
            simp
          simp only [keysAppend]
          rw [keysRewrite_ok _ hocc]
          simp only
          refine ⟨us ++ [(k, nd)], ?_, ?_, ?_, hus', ?_⟩
          · rw [hfile, hf, List.filter_append, filter_ks hs _ hus]
            have : above ksKey k = false := ks_free hs hus' (k, nd) (by simp)
            simp [this]
          · rw [s1, hkeys]; simp
          · rw [List.map_append, List.nodup_append]
            refine ⟨hnd, by simp, ?_⟩
            intro x hx y hy
            simp only [List.map_cons, List.map_nil, List.mem_singleton] at hy
            subst hy; intro e; exact hfresh (e ▸ hx)
          · intro e he hne; rw [s2] at he; exact List.mem_append_left _ (hc e he hne)
      · have : hdfWrite a k d = (a, false) := by simp [hdfWrite, hw]
        simp only [this]
        exact h

/-- removing a stored key of `H` from the file removes exactly its node -/
theorem filter_stored {H : List Key} (hs : Sep H) {us : List (Key × Node)} (n : Node) {k : Key}
    (hus : ∀ e ∈ us, e.1 ∈ H ∧ wellFormed e.1 = true) (hk : k ∈ H) (hw : wellFormed k = true) :
    (us ++ [(ksKey, n)]).filter (fun e => !above k e.1) = us.filter (fun e => e.1 != k) ++ [(ksKey, n)] := by
  rw [List.filter_append]
  congr 1
  · apply List.filter_congr
    intro e he
    by_cases hek : e.1 = k
    · simp [hek, above_self]
    · have : above k e.1 = false := by
        apply Bool.eq_false_iff.mpr
        intro hab
        exact hek (sep_eq hs (List.mem_cons_of_mem _ hk) (List.mem_cons_of_mem _ (hus e he).1) hw (hus e he).2 hab).symm
      simp [this, hek]
  · have : above k ksKey = false := by
      apply Bool.eq_false_iff.mpr
      intro hab
      have := sep_eq hs (List.mem_cons_of_mem _ hk) List.mem_cons_self hw wellFormed_ks hab
      exact hs.ks (this ▸ hk)
    simp [this]

theorem remove_K {H : List Key} (hs : Sep H) {a : Art} {k : Key} (hk : k ∈ H) (h : K H a) :
    K H (remove a k).1 := by
  unfold remove
  split
  · exact h
  split
  · exact h
  · rename_i hin _
    obtain ⟨us, hf, hkeys, hnd, hus, hc⟩ := h
    have hne : k ≠ ksKey := fun e => hs.ks (e ▸ hk)
    have hkin : k ∈ us.map (·.1) := by
      have : k ∈ a.keys := by simpa using hin
      rw [hkeys] at this
      rcases List.mem_cons.mp this with h | h
      · exact absurd h hne
      · exact h
    obtain ⟨e0, he0, hek0⟩ := List.mem_map.mp hkin
    have hw : wellFormed k = true := hek0 ▸ (hus e0 he0).2
    have hocc : (lookup ({ a with keys := a.keys.erase k } : Art).file ksKey).isSome = true := by
      simp only [hf, lookup_ks hs _ hus]; simp
    simp only [keysRemove]
    rw [keysRewrite_ok _ hocc]
    dsimp only
    rw [hf, filter_ks hs _ hus]
    have hocc2 : (lookup (us ++ [(ksKey, Node.keysNode (a.keys.erase k))]) k).isSome = true := by
      rw [lookup_isSome_iff]; simp only [List.map_append, List.mem_append]; exact Or.inl hkin
    simp only [hdfRemove, hw, occupied, hocc2, Bool.true_or, Bool.and_self, if_true, rmTree]
    rw [filter_stored hs _ hus hk hw]
    have herase : a.keys.erase k = ksKey :: (us.filter (fun e => e.1 != k)).map (·.1) := by
      rw [hkeys, List.erase_cons]
      have : (ksKey == k) = false := by simpa using (Ne.symm hne)
      simp only [this, Bool.false_eq_true, if_false]
      rw [hnd.erase_eq_filter, List.filter_map]
      rfl
    refine ⟨us.filter (fun e => e.1 != k), by simp only, herase, ?_, ?_, ?_⟩
    · exact (List.Sublist.map _ List.filter_sublist).nodup hnd
    · intro e he; exact hus e (List.mem_filter.mp he).1
    · intro e he hne'
      simp only [List.mem_filter] at he ⊢
      exact ⟨hc e he.1 hne', he.2⟩

theorem replace_K {H : List Key} (hs : Sep H) {a : Art} {k : Key} (d : Option Data) (hk : k ∈ H) (h : K H a) :
    K H (replace a k d).1 := by
  unfold replace
  split
  · exact h
  · cases d with
    | none => exact h
    | some d =>
      dsimp only
      split
      · exact h
      · split
        · exact h
        · rename_i old _
          have hr := remove_K hs hk h
          generalize remove a k = r at hr ⊢
          obtain ⟨a1, o⟩ := r
          cases o with
          | ok =>
            dsimp only
            have hw := write_K hs (some d) hk hr
            generalize write a1 k (some d) = r2 at hw ⊢
            obtain ⟨a2, o2⟩ := r2
            cases o2 with
            | ok => exact hw
            | data n => exact write_K hs _ hk hw
            | rejected => exact write_K hs _ hk hw
          | data n => exact hr
          | rejected => exact hr

theorem load_K {H : List Key} {a : Art} {k : Key} (h : K H a) : K H (load a k).1 := by
  unfold load
  split
  · exact h
  · split
    · exact h
    · split
      · rename_i n hn
        obtain ⟨us, hf, hkeys, hnd, hus, hc⟩ := h
        refine ⟨us, hf, hkeys, hnd, hus, ?_⟩
        intro e he hne
        rcases List.mem_append.mp he with he | he
        · exact hc e he hne
        · simp only [List.mem_singleton] at he
          subst he
          unfold hdfLoad at hn
          split at hn
          · have := lookup_some_mem hn
            rw [hf] at this
            rcases List.mem_append.mp this with h | h
            · exact h
            · simp only [List.mem_singleton, Prod.mk.injEq] at h
              exact absurd h.1 hne
          · cases hn
      · exact h

/-- on a consistent artifact, opening the file again reads back exactly the in-memory key list -/
theorem open_K {H : List Key} (hs : Sep H) {a : Art} (h : K H a) :
    openArtifact a = some { a with cache := [] } := by
  obtain ⟨us, hf, hkeys, hnd, hus, hc⟩ := h
  have h1 : (fileKeys a).isEmpty = false := by simp [fileKeys, hf]
  have h2 : (fileKeys a).contains ksKey = true := by simp [fileKeys, hf]
  have h3 : hdfLoad a ksKey = some (.keysNode a.keys) := by
    simp only [hdfLoad, wellFormed_ks, if_true, hf, lookup_ks hs _ hus]
  simp only [openArtifact, h1, h2, Bool.false_eq_true, if_false, if_true, h3]

theorem K_clear {H : List Key} {a : Art} (h : K H a) : K H { a with cache := [] } := by
  obtain ⟨us, hf, hkeys, hnd, hus, hc⟩ := h
  exact ⟨us, hf, hkeys, hnd, hus, by simp⟩

theorem remove_ks (a : Art) : remove a ksKey = (a, .rejected) := by
  unfold remove
  split
  · rfl
  · simp

theorem replace_ks (a : Art) (d : Option Data) : replace a ksKey d = (a, .rejected) := by
  unfold replace
  split
  · rfl
  · cases d with
    | none => rfl
    | some d =>
      dsimp only
      split
      · rfl
      · split
        · rfl
        · simp [remove_ks]

theorem write_ks {H : List Key} {a : Art} (d : Option Data) (h : K H a) : write a ksKey d = (a, .rejected) := by
  obtain ⟨us, _, hkeys, _, _, _⟩ := h
  have : a.keys.contains ksKey = true := by rw [hkeys]; simp
  unfold write
  rw [if_pos this]

/-- one operation on a key of `H` or on the bookkeeping key (accepted or refused) preserves `K` -/
theorem step_K {H : List Key} (hs : Sep H) (a : Art) (op : Op)
    (hop : ∀ k, op.key? = some k → k ∈ H ∨ k = ksKey) (h : K H a) : K H (step a op).1 := by
  cases op with
  | write k d =>
    rcases hop k rfl with hk | rfl
    · exact write_K hs d hk h
    · simp only [step, write_ks d h]; exact h
  | load k => exact load_K h
  | remove k =>
    rcases hop k rfl with hk | rfl
    · exact remove_K hs hk h
    · simp only [step, remove_ks]; exact h
  | replace k d =>
    rcases hop k rfl with hk | rfl
    · exact replace_K hs d hk h
    · simp only [step, replace_ks]; exact h
  | clearCache => exact K_clear h
  | reopen => simp only [step, open_K hs h]; exact K_clear h
  | probe => simp only [step, open_K hs h]; exact h

/- Full statement (false of the code as it is, see `nested_write_destroys_child` and the witnesses after it):
     ∀ ops a, K' a → K' (run ops a)
   where K' does not restrict the keys to a separated family. What is missing: `HDFStore.put` and
   `remove_node(recursive=True)` act on the whole subtree below a two-part key, and `filenode` refuses a
   path on which a group was left behind (F12, recorded). -/
/-- `ops_K` for every history over a family of keys none of whose HDF paths is a prefix of another's
(plus, freely, `metadata.keyspace` itself): every operation sequence – including refused operations,
reopens and second artifacts on the same file – preserves `K`. -/
theorem ops_K_partial {H : List Key} (hs : Sep H) (ops : List Op)
    (hops : ∀ op ∈ ops, ∀ k, op.key? = some k → k ∈ H ∨ k = ksKey) (a : Art) (h : K H a) : K H (run ops a) := by
  induction ops generalizing a with
  | nil => exact h
  | cons op ops ih =>
    simp only [run, List.foldl_cons]
    exact ih (fun o ho => hops o (List.mem_cons_of_mem _ ho)) _ (step_K hs a op (hops op List.mem_cons_self) h)

/-- the new artifact on an empty file satisfies `K` -/
theorem init_K (H : List Key) : K H init :=
  ⟨[], by decide, by decide, by simp, by simp, by simp [show init.cache = [] from by decide]⟩

/-! ### bare groups never occupy the path of a key of `H` -/

/-- no data-less group sits on the path of a key the history addresses -/
def G (H : List Key) (a : Art) : Prop := ∀ g ∈ a.groups, g ∉ H

/-- operations whose refusal leaves the *whole* state untouched in the code as it is: the value is not a
frame `HDFStore.put` refuses after it has created groups (`badFrame`: the parent group of a three-part
key stays), nor – for `replace`, which removes, fails and writes the old data back, moving the key to
the end of the key list – a pandas value the HDF layer refuses at all (`zeroRow`, `badFrame`). See
`failed_replace_moves_key_to_end`, `refused_frame_write_leaves_parent_group`. -/
def Atomic : Op → Prop
  | .write _ (some d) => d.kind ≠ .badFrame
  | .replace _ (some d) => d.kind ≠ .badFrame ∧ d.kind ≠ .zeroRow
  | _ => True

theorem take2_not_mem {H : List Key} (hs : Sep H) {k : Key} (hk : k ∈ H) (hw : wellFormed k = true)
    (h3 : k.length = 3) : k.take 2 ∉ H := by
  intro hin
  exact take2_ne h3 (sep_eq hs (List.mem_cons_of_mem _ hin) (List.mem_cons_of_mem _ hk)
    (wellFormed_take2 hw h3) hw (above_take k 2))

theorem write_G {H : List Key} (hs : Sep H) {a : Art} {k : Key} {d : Option Data} (hk : k ∈ H ∨ k = ksKey)
    (hG : G H a) : G H (write a k d).1 := by
  intro g hg
  rcases write_groups hg with h | ⟨hw, h3, hg2⟩
  · exact hG g h
  · rcases hk with hk | rfl
    · exact hg2 ▸ take2_not_mem hs hk hw h3
    · exact absurd h3 (by decide)

theorem replace_G {H : List Key} (hs : Sep H) {a : Art} {k : Key} {d : Option Data} (hk : k ∈ H ∨ k = ksKey)
    (hG : G H a) : G H (replace a k d).1 := by
  unfold replace
  split
  · exact hG
  · cases d with
    | none => exact hG
    | some d =>
      dsimp only
      split
      · exact hG
      · split
        · exact hG
        · have hr : G H (remove a k).1 := fun g hg => hG g (remove_groups hg)
          generalize remove a k = r at hr ⊢
          obtain ⟨a1, o⟩ := r
          cases o with
          | ok =>
            dsimp only
            have hw : G H (write a1 k (some d)).1 := write_G hs hk hr
            generalize write a1 k (some d) = r2 at hw ⊢
            obtain ⟨a2, o2⟩ := r2
            cases o2 with
            | ok => exact hw
            | data n => exact write_G hs hk hw
            | rejected => exact write_G hs hk hw
          | data n => exact hr
          | rejected => exact hr

theorem load_groups (a : Art) (k : Key) : (load a k).1.groups = a.groups := by
  unfold load
  split
  · rfl
  · split
    · rfl
    · split <;> rfl

theorem step_G {H : List Key} (hs : Sep H) (a : Art) (op : Op)
    (hop : ∀ k, op.key? = some k → k ∈ H ∨ k = ksKey) (hG : G H a) : G H (step a op).1 := by
  cases op with
  | write k d => exact write_G hs (hop k rfl) hG
  | load k => intro g hg; rw [step, load_groups] at hg; exact hG g hg
  | remove k => exact fun g hg => hG g (remove_groups hg)
  | replace k d => exact replace_G hs (hop k rfl) hG
  | clearCache => exact hG
  | reopen =>
    simp only [step]
    cases h : openArtifact a with
    | none => exact hG
    | some a' => exact fun g hg => hG g (openArtifact_groups h hg)
  | probe =>
    simp only [step]
    cases h : openArtifact a with
    | none => exact hG
    | some a' => exact fun g hg => hG g (openArtifact_groups h hg)

/-! ### what each operation does, exactly, in the regime of the property -/

/-- the key → data map a file denotes (the bookkeeping node is not data) -/
def absOf (a : Art) : Spec := fun k => if k = ksKey then none else lookup a.file k

theorem abs_of_us {a : Art} {us : List (Key × Node)} {n : Node} (hf : a.file = us ++ [(ksKey, n)]) (q : Key) :
    absOf a q = if q = ksKey then none else lookup us q := by
  unfold absOf
  by_cases hq : q = ksKey
  · simp [hq]
  · have : ¬ ksKey = q := fun e => hq e.symm
    simp [hq, hf, this, lookup]

theorem lookup_us_none {us : List (Key × Node)} {k : Key} (hfresh : k ∉ us.map (·.1)) :
    lookup us k = none := by
  cases h : lookup us k with
  | none => rfl
  | some n => exact absurd (List.mem_map.mpr ⟨(k, n), lookup_some_mem h, rfl⟩) hfresh

/-- `hdf.write` accepts every storable value under a fresh well-formed key of a separated family -/
theorem hdfWrite_accepts {H : List Key} (hs : Sep H) {a : Art} {k : Key} {d : Data} {nd : Node}
    {us : List (Key × Node)} (hk : k ∈ H) (hw : wellFormed k = true)
    (hf : a.file = us ++ [(ksKey, .keysNode a.keys)]) (hus : ∀ e ∈ us, e.1 ∈ H ∧ wellFormed e.1 = true)
    (hfresh : k ∉ us.map (·.1)) (hG : G H a) (hn : nodeOf d = some nd) : (hdfWrite a k d).2 = true := by
  have hne : k ≠ ksKey := fun e => hs.ks (e ▸ hk)
  -- the parent of a three-part key is not a leaf
  have hleaf : (k.length == 3 && isLeaf a (k.take 2)) = false := by
    by_cases h3 : k.length = 3
    · have : lookup a.file (k.take 2) = none := by
        apply lookup_eq_none_iff.mpr
        intro e he heq
        rw [hf] at he
        have hmem : e.1 ∈ ksKey :: H ∧ wellFormed e.1 = true := by
          rcases List.mem_append.mp he with he | he
          · exact ⟨List.mem_cons_of_mem _ (hus e he).1, (hus e he).2⟩
          · simp only [List.mem_singleton] at he; subst he; exact ⟨List.mem_cons_self, wellFormed_ks⟩
        have := sep_eq hs hmem.1 (List.mem_cons_of_mem _ hk) hmem.2 hw (heq ▸ above_take k 2)
        exact take2_ne h3 (heq ▸ this)
      simp [isLeaf, this]
    · have : (k.length == 3) = false := by simpa using h3
      simp [this]
  have hocc : occupied a k = false := by
    have h1 : lookup a.file k = none := by
      rw [hf, lookup_append, lookup_us_none hfresh, lookup_cons]
      have : ¬ ksKey = k := fun e => hne e.symm
      simp [this, lookup]
    have h2 : a.groups.contains k = false := by
      apply Bool.eq_false_iff.mpr
      intro h; exact hG k (List.contains_iff_mem.mp h) hk
    have h3 : k ∉ a.groups := fun h => hG k h hk
    simp [occupied, h1, h3]
  obtain ⟨kind, id⟩ := d
  cases kind with
  | json => simp [hdfWrite, hw, hdfWriteJson, hleaf, hocc]
  | keyList ks => simp [hdfWrite, hw, hdfWriteJson, hleaf, hocc]
  | table => simp [hdfWrite, hw, hdfPut, hleaf]
  | unserJson => simp [nodeOf] at hn
  | zeroRow => simp [nodeOf] at hn
  | badFrame => simp [nodeOf] at hn

/-- an accepted `hdf.write` is followed by the rewrite of the key space: the write as a whole succeeds -/
theorem write_ok {H : List Key} (hs : Sep H) {a : Art} {k : Key} {d : Data} {us : List (Key × Node)}
    (hk : k ∈ H) (hw : wellFormed k = true) (hf : a.file = us ++ [(ksKey, .keysNode a.keys)])
    (hus : ∀ e ∈ us, e.1 ∈ H ∧ wellFormed e.1 = true) (hfresh : k ∉ us.map (·.1))
    (hnot : ¬ a.keys.contains k = true) (hres : (hdfWrite a k d).2 = true) :
    ∃ nd, nodeOf d = some nd ∧ (write a k (some d)).2 = .ok ∧
      (write a k (some d)).1.file = us ++ [(k, nd)] ++ [(ksKey, .keysNode (a.keys ++ [k]))] := by
  have hfree : ∀ e ∈ a.file, above k e.1 = false := by
    rw [hf]; exact free_of_fresh hs hk hw hus hfresh
  obtain ⟨s1, _, s3, _⟩ := hdfWrite_spec a k d hfree
  simp only [write, hnot]
  generalize hdfWrite a k d = r at s1 s3 hres ⊢
  obtain ⟨a1, b⟩ := r
  simp only at hres
  subst hres
  obtain ⟨_, nd, hnd', hfile⟩ := s3 rfl
  simp only at s1 hfile ⊢
  have hus' : ∀ e ∈ us ++ [(k, nd)], e.1 ∈ H ∧ wellFormed e.1 = true := by
    intro e he
    rcases List.mem_append.mp he with he | he
    · exact hus e he
    · simp only [List.mem_singleton] at he; subst he; exact ⟨hk, hw⟩
  have hocc : (lookup ({ a1 with keys := a1.keys ++ [k] } : Art).file ksKey).isSome = true := by
    simp only [hfile, hf, lookup_append, lookup_ks hs _ hus]
    simp
  simp only [keysAppend]
  rw [keysRewrite_ok _ hocc]
  refine ⟨nd, hnd', rfl, ?_⟩
  simp only
  rw [hfile, hf, List.filter_append, filter_ks hs _ hus, s1]
  have : above ksKey k = false := ks_free hs hus' (k, nd) (by simp)
  simp [this]

theorem hdfWrite_false_unchanged {a : Art} {k : Key} {d : Data} (hb : d.kind ≠ .badFrame)
    (h : (hdfWrite a k d).2 = false) : (hdfWrite a k d).1 = a := by
  obtain ⟨kind, id⟩ := d
  unfold hdfWrite at h ⊢
  split
  · rfl
  · rename_i hw
    simp only [hw] at h
    cases kind with
    | json =>
      cases hj : hdfWriteJson a k (.blob id) with
      | none => rfl
      | some a' => simp [hj] at h
    | keyList ks =>
      dsimp only at h ⊢
      cases hj : hdfWriteJson a k (.keysNode ks) with
      | none => rfl
      | some a' => simp [hj] at h
    | unserJson => rfl
    | zeroRow => rfl
    | table =>
      simp only [hdfPut] at h ⊢
      split
      · rfl
      · rename_i hc; simp [hc] at h
    | badFrame => exact absurd rfl hb

theorem remove_ok {H : List Key} (hs : Sep H) {a : Art} {k : Key} {us : List (Key × Node)} (hk : k ∈ H)
    (hf : a.file = us ++ [(ksKey, .keysNode a.keys)]) (hkeys : a.keys = ksKey :: us.map (·.1))
    (hus : ∀ e ∈ us, e.1 ∈ H ∧ wellFormed e.1 = true) (hkin : k ∈ us.map (·.1)) :
    (remove a k).2 = .ok ∧ (remove a k).1.keys = a.keys.erase k ∧
      (remove a k).1.file = us.filter (fun e => e.1 != k) ++ [(ksKey, .keysNode (a.keys.erase k))] := by
  have hin : ¬ (!a.keys.contains k) = true := by
    have : k ∈ a.keys := by rw [hkeys]; exact List.mem_cons_of_mem _ hkin
    simpa using this
  obtain ⟨e0, he0, hek0⟩ := List.mem_map.mp hkin
  have hw : wellFormed k = true := hek0 ▸ (hus e0 he0).2
  have hocc : (lookup ({ a with keys := a.keys.erase k } : Art).file ksKey).isSome = true := by
    simp only [hf, lookup_ks hs _ hus]; simp
  have hocc2 : (lookup (us ++ [(ksKey, Node.keysNode (a.keys.erase k))]) k).isSome = true := by
    rw [lookup_isSome_iff]; simp only [List.map_append, List.mem_append]; exact Or.inl hkin
  have hne : (k == ksKey) = false := by
    have : k ≠ ksKey := fun e => hs.ks (e ▸ hk)
    simpa using this
  simp only [remove, hin, hne, keysRemove]
  rw [keysRewrite_ok _ hocc]
  dsimp only
  rw [hf, filter_ks hs _ hus]
  simp only [hdfRemove, hw, occupied, hocc2, Bool.true_or, Bool.and_self, if_true, rmTree]
  rw [filter_stored hs _ hus hk hw]
  exact ⟨rfl, rfl, rfl⟩

/-- `k` is reported ⇔ the file binds it -/
theorem abs_isSome_iff {H : List Key} (hs : Sep H) {a : Art} {k : Key} (hk : k ∈ H) (h : K H a) :
    (absOf a k).isSome = true ↔ k ∈ a.keys := by
  obtain ⟨us, hf, hkeys, _, _, _⟩ := h
  have hne : k ≠ ksKey := fun e => hs.ks (e ▸ hk)
  rw [abs_of_us hf, if_neg hne, lookup_isSome_iff, hkeys]
  simp [hne]

/-- which operations the property says must be accepted, given the key → data map -/
def specAccepts (m : Spec) : Op → Bool
  | .write k (some d) => (m k).isNone && wellFormed k && (nodeOf d).isSome
  | .write _ none => false
  | .remove k => (m k).isSome
  | .replace k (some d) => (m k).isSome && (nodeOf d).isSome
  | .replace _ none => false
  | .load k => (m k).isSome
  | _ => true

theorem absOf_congr {a b : Art} (h : a.file = b.file) : absOf a = absOf b := by
  funext q; simp [absOf, h]

theorem nodeOf_dataOf (n : Node) : nodeOf (dataOf n) = some n := by
  cases n <;> rfl

theorem write_regime {H : List Key} (hs : Sep H) {a : Art} {k : Key} (d : Option Data) (hk : k ∈ H)
    (hK : K H a) (hG : G H a) :
    (specAccepts (absOf a) (.write k d) = true →
      (write a k d).2 = .ok ∧ absOf (write a k d).1 = specStep (absOf a) (.write k d)) ∧
    (specAccepts (absOf a) (.write k d) = false →
      (write a k d).2 = .rejected ∧ (write a k d).1.file = a.file ∧ (write a k d).1.keys = a.keys ∧
        (write a k d).1.cache = a.cache ∧
        ((∀ dd, d = some dd → dd.kind ≠ .badFrame) → (write a k d).1 = a)) := by
  have hiff := abs_isSome_iff hs hk hK
  have hne : k ≠ ksKey := fun e => hs.ks (e ▸ hk)
  obtain ⟨us, hf, hkeys, hnd, hus, hc⟩ := hK
  constructor
  · intro hacc
    cases d with
    | none => simp [specAccepts] at hacc
    | some dd =>
      simp only [specAccepts, Bool.and_eq_true, Option.isNone_iff_eq_none, Option.isSome_iff_exists] at hacc
      obtain ⟨⟨hnone, hw⟩, nd, hnd'⟩ := hacc
      have hnotin : k ∉ a.keys := by
        intro h; have := hiff.mpr h; simp [hnone] at this
      have hnot : ¬ a.keys.contains k = true := by simpa using hnotin
      have hfresh : k ∉ us.map (·.1) := by
        intro hm; apply hnotin; rw [hkeys]; exact List.mem_cons_of_mem _ hm
      have hres := hdfWrite_accepts hs hk hw hf hus hfresh hG hnd'
      obtain ⟨nd2, hnd2, hok, hfile⟩ := write_ok hs hk hw hf hus hfresh hnot hres
      rw [hnd'] at hnd2; cases hnd2
      refine ⟨hok, ?_⟩
      funext q
      rw [abs_of_us hfile]
      simp only [specStep, hnone, Option.isNone_none, hw, Bool.and_self, if_true, hnd', Spec.set]
      rw [abs_of_us hf]
      by_cases hq : q = ksKey
      · simp [hq]
        intro e; exact absurd e.symm hne
      · by_cases hqk : q = k
        · subst hqk
          simp [hq, lookup_append, lookup_us_none hfresh, lookup_cons]
        · have : ¬ k = q := fun e => hqk e.symm
          simp [hq, hqk, this, lookup]
  · intro hrej
    unfold write
    split
    · exact ⟨rfl, rfl, rfl, rfl, fun _ => rfl⟩
    · rename_i hnot
      cases d with
      | none => exact ⟨rfl, rfl, rfl, rfl, fun _ => rfl⟩
      | some dd =>
        dsimp only
        have hnotin : k ∉ a.keys := by simpa using hnot
        have hnone : absOf a k = none := by
          cases h : absOf a k with
          | none => rfl
          | some n => exact absurd (hiff.mp (by simp [h])) hnotin
        simp only [specAccepts, hnone, Option.isNone_none, Bool.true_and, Bool.and_eq_false_iff] at hrej
        by_cases hw : wellFormed k = true
        · have hno : nodeOf dd = none := by
            rcases hrej with hrej | hrej
            · simp [hw] at hrej
            · cases h : nodeOf dd with
              | none => rfl
              | some n => simp [h] at hrej
          have hfresh : k ∉ us.map (·.1) := by
            intro hm; apply hnotin; rw [hkeys]; exact List.mem_cons_of_mem _ hm
          have hfree : ∀ e ∈ a.file, above k e.1 = false := by
            rw [hf]; exact free_of_fresh hs hk hw hus hfresh
          obtain ⟨s1, s2, s3, s4⟩ := hdfWrite_spec a k dd hfree
          have hb : (hdfWrite a k dd).2 = false := by
            cases hb : (hdfWrite a k dd).2 with
            | false => rfl
            | true =>
              obtain ⟨_, nd, hnd', _⟩ := s3 hb
              rw [hno] at hnd'; cases hnd'
          have hun := @hdfWrite_false_unchanged a k dd
          generalize hdfWrite a k dd = r at s1 s2 s4 hb hun ⊢
          obtain ⟨a1, b⟩ := r
          simp only at hb
          subst hb
          exact ⟨rfl, s4 rfl, s1, s2, fun hat => hun (hat dd rfl) rfl⟩
        · have : hdfWrite a k dd = (a, false) := by simp [hdfWrite, hw]
          simp [this]

theorem remove_regime {H : List Key} (hs : Sep H) {a : Art} {k : Key} (hk : k ∈ H) (hK : K H a) :
    (specAccepts (absOf a) (.remove k) = true →
      (remove a k).2 = .ok ∧ absOf (remove a k).1 = specStep (absOf a) (.remove k)) ∧
    (specAccepts (absOf a) (.remove k) = false → remove a k = (a, .rejected)) := by
  have hiff := abs_isSome_iff hs hk hK
  have hne : k ≠ ksKey := fun e => hs.ks (e ▸ hk)
  obtain ⟨us, hf, hkeys, hnd, hus, hc⟩ := hK
  constructor
  · intro hacc
    simp only [specAccepts] at hacc
    have hin := hiff.mp hacc
    have hkin : k ∈ us.map (·.1) := by
      rw [hkeys] at hin
      rcases List.mem_cons.mp hin with h | h
      · exact absurd h hne
      · exact h
    obtain ⟨hok, _, hfile⟩ := remove_ok hs hk hf hkeys hus hkin
    refine ⟨hok, ?_⟩
    funext q
    rw [abs_of_us hfile]
    simp only [specStep, hacc, if_true, Spec.set]
    rw [abs_of_us hf, lookup_filter us (fun x => x != k) q]
    by_cases hq : q = ksKey
    · have : ¬ q = k := fun e => hne (e ▸ hq)
      simp [hq]
    · by_cases hqk : q = k
      · simp [hqk]
      · simp [hq, hqk]
  · intro hrej
    simp only [specAccepts] at hrej
    have hnot : k ∉ a.keys := fun h => by simp [hiff.mpr h] at hrej
    have : (!a.keys.contains k) = true := by simpa using hnot
    unfold remove
    rw [if_pos this]

theorem load_regime {H : List Key} (hs : Sep H) {a : Art} {k : Key} (hk : k ∈ H) (hK : K H a) :
    (load a k).2 = (match absOf a k with | some n => .data n | none => .rejected) ∧
      (load a k).1.file = a.file ∧ (load a k).1.keys = a.keys ∧ (load a k).1.groups = a.groups := by
  have hiff := abs_isSome_iff hs hk hK
  have hne : k ≠ ksKey := fun e => hs.ks (e ▸ hk)
  obtain ⟨us, hf, hkeys, hnd, hus, hc⟩ := hK
  have habs : absOf a k = lookup us k := by rw [abs_of_us hf, if_neg hne]
  unfold load
  split
  · rename_i hnot
    have hnotin : k ∉ a.keys := by simpa using hnot
    have : absOf a k = none := by
      cases h : absOf a k with
      | none => rfl
      | some n => exact absurd (hiff.mp (by simp [h])) hnotin
    simp [this]
  · rename_i hin
    have hin' : k ∈ a.keys := by simpa using hin
    obtain ⟨n, hn⟩ := Option.isSome_iff_exists.mp (hiff.mpr hin')
    have hlu : lookup us k = some n := habs ▸ hn
    have hw : wellFormed k = true := (hus _ (lookup_some_mem hlu)).2
    split
    · rename_i n' hn'
      have := lookup_of_mem_nodup hnd (hc _ (lookup_some_mem hn') hne)
      rw [hlu] at this; cases this
      simp [hn]
    · have hfl : hdfLoad a k = some n := by
        have : ¬ ksKey = k := fun e => hne e.symm
        simp [hdfLoad, hw, hf, lookup_append, hlu]
      simp [hfl, hn]

theorem replace_regime {H : List Key} (hs : Sep H) {a : Art} {k : Key} (d : Option Data) (hk : k ∈ H)
    (hK : K H a) (hG : G H a) :
    (specAccepts (absOf a) (.replace k d) = true →
      (replace a k d).2 = .ok ∧ absOf (replace a k d).1 = specStep (absOf a) (.replace k d)) ∧
    (specAccepts (absOf a) (.replace k d) = false →
      (replace a k d).2 = .rejected ∧ absOf (replace a k d).1 = absOf a ∧
        ((∀ dd, d = some dd → dd.kind ≠ .badFrame ∧ dd.kind ≠ .zeroRow) → (replace a k d).1 = a)) := by
  have hiff := abs_isSome_iff hs hk hK
  have hne : k ≠ ksKey := fun e => hs.ks (e ▸ hk)
  -- what holds whenever the key is reported: it is stored, removing it works, and it can be written again
  have prelude : k ∈ a.keys → ∃ old, absOf a k = some old ∧ hdfLoad a k = some old ∧ wellFormed k = true ∧
      (remove a k).2 = .ok ∧ absOf (remove a k).1 = (absOf a).set k none := by
    intro hin
    have hsome := hiff.mpr hin
    obtain ⟨old, hold⟩ := Option.isSome_iff_exists.mp hsome
    have hw : wellFormed k = true := by
      obtain ⟨us, hf, hkeys, _, hus, _⟩ := hK
      rw [hkeys] at hin
      rcases List.mem_cons.mp hin with h | h
      · exact absurd h hne
      · obtain ⟨e, he, hek⟩ := List.mem_map.mp h
        exact hek ▸ (hus e he).2
    obtain ⟨hok, habs⟩ := (remove_regime hs hk hK).1 (by simpa [specAccepts] using hsome)
    refine ⟨old, hold, ?_, hw, hok, ?_⟩
    · have : absOf a k = lookup a.file k := by simp [absOf, hne]
      simp [hdfLoad, hw, ← this, hold]
    · rw [habs]; simp [specStep, hsome]
  constructor
  · intro hacc
    cases d with
    | none => simp [specAccepts] at hacc
    | some dd =>
      simp only [specAccepts, Bool.and_eq_true] at hacc
      obtain ⟨hsome, hnode⟩ := hacc
      obtain ⟨nd, hnd'⟩ := Option.isSome_iff_exists.mp hnode
      have hin : k ∈ a.keys := hiff.mp hsome
      obtain ⟨old, hold, hload, hw, hok, habs⟩ := prelude hin
      have hunser : (dd.kind == Kind.unserJson) = false := by
        obtain ⟨kind, id⟩ := dd
        cases kind <;> simp [nodeOf] at hnd' ⊢
      have hK1 := remove_K hs hk hK
      have hG1 : G H (remove a k).1 := fun g hg => hG g (remove_groups hg)
      have hnone1 : absOf (remove a k).1 k = none := by rw [habs]; simp [Spec.set]
      have hacc1 : specAccepts (absOf (remove a k).1) (.write k (some dd)) = true := by
        simp [specAccepts, hnone1, hw, hnode]
      obtain ⟨hok2, habs2⟩ := (write_regime hs (some dd) hk hK1 hG1).1 hacc1
      have hcont : a.keys.contains k = true := List.contains_iff_mem.mpr hin
      simp only [replace, hcont, Bool.not_true, Bool.false_eq_true, if_false, hunser, hload]
      generalize remove a k = r at hok habs hok2 habs2 hnone1 ⊢
      obtain ⟨a1, o⟩ := r
      simp only at hok
      subst hok
      simp only at habs habs2 hnone1 hok2 ⊢
      generalize write a1 k (some dd) = r2 at hok2 habs2 ⊢
      obtain ⟨a2, o2⟩ := r2
      simp only at hok2
      subst hok2
      refine ⟨rfl, ?_⟩
      simp only at habs2 ⊢
      rw [habs2]
      funext q
      simp only [specStep, hnone1, Option.isNone_none, hw, Bool.and_self, if_true, hnd', hsome]
      rw [habs]
      simp only [Spec.set]
      by_cases hq : q = k <;> simp [hq]
  · intro hrej
    unfold replace
    split
    · exact ⟨rfl, rfl, fun _ => rfl⟩
    · rename_i hin
      cases d with
      | none => exact ⟨rfl, rfl, fun _ => rfl⟩
      | some dd =>
        dsimp only
        split
        · exact ⟨rfl, rfl, fun _ => rfl⟩
        · rename_i hunser
          have hin' : k ∈ a.keys := by simpa using hin
          obtain ⟨old, hold, hload, hw, hok, habs⟩ := prelude hin'
          have hsome : (absOf a k).isSome = true := by simp [hold]
          simp only [specAccepts, hsome, Bool.true_and] at hrej
          have hK1 := remove_K hs hk hK
          have hG1 : G H (remove a k).1 := fun g hg => hG g (remove_groups hg)
          have hnone1 : absOf (remove a k).1 k = none := by rw [habs]; simp [Spec.set]
          -- the write of the new value is refused and leaves the file as `remove` left it
          have hrej1 : specAccepts (absOf (remove a k).1) (.write k (some dd)) = false := by
            simp [specAccepts, hrej]
          obtain ⟨hr2, hfile2, _, _, _⟩ := (write_regime hs (some dd) hk hK1 hG1).2 hrej1
          have hK2 := write_K hs (some dd) hk hK1
          have hG2 : G H (write (remove a k).1 k (some dd)).1 := write_G hs (Or.inl hk) hG1
          have habs2 : absOf (write (remove a k).1 k (some dd)).1 = absOf (remove a k).1 := absOf_congr hfile2
          -- the old data are written back
          have hacc3 : specAccepts (absOf (write (remove a k).1 k (some dd)).1) (.write k (some (dataOf old))) = true := by
            simp [specAccepts, habs2, hnone1, hw, nodeOf_dataOf]
          obtain ⟨_, habs3⟩ := (write_regime hs (some (dataOf old)) hk hK2 hG2).1 hacc3
          simp only [hload]
          generalize remove a k = r at hok habs hr2 habs2 habs3 hnone1 ⊢
          obtain ⟨a1, o⟩ := r
          simp only at hok
          subst hok
          simp only at habs hr2 habs2 habs3 hnone1 ⊢
          generalize write a1 k (some dd) = r2 at hr2 habs2 habs3 ⊢
          obtain ⟨a2, o2⟩ := r2
          simp only at hr2
          subst hr2
          simp only at habs2 habs3 ⊢
          refine ⟨trivial, ?_, ?_⟩
          · rw [habs3, habs2]
            funext q
            simp only [specStep, hnone1, Option.isNone_none, hw, Bool.and_self, if_true, nodeOf_dataOf]
            rw [habs]
            simp only [Spec.set]
            by_cases hq : q = k
            · simp [hq, hold]
            · simp [hq]
          · intro hat
            obtain ⟨hb, hz⟩ := hat dd rfl
            obtain ⟨kind, id⟩ := dd
            cases kind with
            | json => simp [nodeOf] at hrej
            | table => simp [nodeOf] at hrej
            | keyList ks => simp [nodeOf] at hrej
            | unserJson => simp at hunser
            | zeroRow => exact absurd rfl hz
            | badFrame => exact absurd rfl hb

/-! ### the property, for every history in the regime -/

theorem specStep_of_not_accepts (m : Spec) (op : Op) (h : specAccepts m op = false) : specStep m op = m := by
  cases op with
  | write k d =>
    cases d with
    | none => rfl
    | some d =>
      simp only [specAccepts, Bool.and_eq_false_iff] at h
      simp only [specStep]
      split
      · rename_i hc
        simp only [Bool.and_eq_true] at hc
        rcases h with (h | h) | h
        · simp [h] at hc
        · simp [h] at hc
        · cases hn : nodeOf d with
          | none => rfl
          | some n => simp [hn] at h
      · rfl
  | remove k => simp only [specAccepts] at h; simp [specStep, h]
  | replace k d =>
    cases d with
    | none => rfl
    | some d =>
      simp only [specAccepts, Bool.and_eq_false_iff] at h
      simp only [specStep]
      split
      · rename_i hc
        rcases h with h | h
        · simp [h] at hc
        · cases hn : nodeOf d with
          | none => rfl
          | some n => simp [hn] at h
      · rfl
  | load k => rfl
  | clearCache => rfl
  | reopen => rfl
  | probe => rfl

/-- **Refinement.** In the regime, every operation changes the key → data map of the file exactly as the
abstract specification says (bind on an accepted write, unbind on an accepted remove, rebind on an
accepted replace, nothing otherwise – whatever the value that was refused). -/
theorem step_refines {H : List Key} (hs : Sep H) (a : Art) (op : Op) (hop : ∀ k, op.key? = some k → k ∈ H)
    (hK : K H a) (hG : G H a) : absOf (step a op).1 = specStep (absOf a) op := by
  cases op with
  | write k d =>
    have hr := write_regime hs d (hop k rfl) hK hG
    cases hacc : specAccepts (absOf a) (.write k d) with
    | true => exact (hr.1 hacc).2
    | false => rw [specStep_of_not_accepts _ _ hacc]; exact absOf_congr (hr.2 hacc).2.1
  | remove k =>
    have hr := remove_regime hs (hop k rfl) hK
    cases hacc : specAccepts (absOf a) (.remove k) with
    | true => exact (hr.1 hacc).2
    | false => rw [step, hr.2 hacc, specStep_of_not_accepts _ _ hacc]
  | replace k d =>
    have hr := replace_regime hs d (hop k rfl) hK hG
    cases hacc : specAccepts (absOf a) (.replace k d) with
    | true => exact (hr.1 hacc).2
    | false => rw [specStep_of_not_accepts _ _ hacc]; exact (hr.2 hacc).2.1
  | load k => exact absOf_congr (load_regime hs (hop k rfl) hK).2.1
  | clearCache => rfl
  | reopen => simp only [step, open_K hs hK]; rfl
  | probe => simp only [step, open_K hs hK]; rfl

/-- In the regime the artifact accepts exactly what the property says it must accept: a write of a
fresh well-formed key with storable data, a remove / replace / load of a bound key (replace: with
storable data). Everything else – duplicate write, remove / replace / load of a missing key, `None`,
malformed key, unserialisable value (JSON or pandas) – is refused. -/
theorem accepted_iff {H : List Key} (hs : Sep H) (a : Art) (op : Op) (hop : ∀ k, op.key? = some k → k ∈ H)
    (hK : K H a) (hG : G H a) :
    (step a op).2 ≠ .rejected ↔ specAccepts (absOf a) op = true := by
  cases op with
  | write k d =>
    have hr := write_regime hs d (hop k rfl) hK hG
    cases hacc : specAccepts (absOf a) (.write k d) with
    | true => simp [step, (hr.1 hacc).1]
    | false => simp [step, (hr.2 hacc).1]
  | remove k =>
    have hr := remove_regime hs (hop k rfl) hK
    cases hacc : specAccepts (absOf a) (.remove k) with
    | true => simp [step, (hr.1 hacc).1]
    | false => simp [step, hr.2 hacc]
  | replace k d =>
    have hr := replace_regime hs d (hop k rfl) hK hG
    cases hacc : specAccepts (absOf a) (.replace k d) with
    | true => simp [step, (hr.1 hacc).1]
    | false => simp [step, (hr.2 hacc).1]
  | load k =>
    have hr := (load_regime hs (hop k rfl) hK).1
    simp only [step, hr, specAccepts]
    cases absOf a k <;> simp
  | clearCache => simp [step, specAccepts]
  | reopen => simp [step, open_K hs hK, specAccepts]
  | probe => simp [step, open_K hs hK, specAccepts]

theorem load_rejected_unchanged (a : Art) (k : Key) (h : (load a k).2 = .rejected) : (load a k).1 = a := by
  unfold load at h ⊢
  split
  · rfl
  · split
    · rfl
    · split
      · rename_i n hn; simp [hn] at h
        split at h <;> simp_all
      · rfl

/-- **Refused operations leave the artifact's content as it was**, whatever was refused and why: the
key → data map of the file, the set of reported keys, and the invariant `K` (so also: what a freshly
opened artifact reports, and what every key loads). -/
theorem refusal_preserves_content {H : List Key} (hs : Sep H) (a : Art) (op : Op)
    (hop : ∀ k, op.key? = some k → k ∈ H) (hK : K H a) (hG : G H a) (h : (step a op).2 = .rejected) :
    absOf (step a op).1 = absOf a ∧ (∀ k ∈ H, k ∈ (step a op).1.keys ↔ k ∈ a.keys) ∧ K H (step a op).1 := by
  have hK' := step_K hs a op (fun k hk => Or.inl (hop k hk)) hK
  have hacc : specAccepts (absOf a) op = false := by
    cases hc : specAccepts (absOf a) op with
    | false => rfl
    | true => exact absurd h ((accepted_iff hs a op hop hK hG).mpr hc)
  have habs : absOf (step a op).1 = absOf a := by
    rw [step_refines hs a op hop hK hG, specStep_of_not_accepts _ _ hacc]
  refine ⟨habs, ?_, hK'⟩
  intro k hk
  rw [← abs_isSome_iff hs hk hK', ← abs_isSome_iff hs hk hK, habs]

/- Full statement (false of the code as it is, see `failed_replace_moves_key_to_end`,
`refused_frame_write_leaves_parent_group`, `nested_remove_raises_after_unlisting`):
     ∀ a op, (step a op).2 = .rejected → (step a op).1 = a.
   What is missing: a `replace` whose new value the HDF layer refuses has already removed the key and writes
   the old data back, so the key moves to the end of the key list (the content is the same,
   `refusal_preserves_content`); a failing `HDFStore.put` under a three-part key leaves the parent group it
   created; with nested keys `remove` can raise after the key list was rewritten (F12). -/
/-- **Refused operations leave artifact and file exactly as they were** – the whole state: file, bare
groups, key list in order, cache – in the regime, for the operations `Atomic` describes. -/
theorem any_refusal_unchanged_partial {H : List Key} (hs : Sep H) (a : Art) (op : Op)
    (hop : ∀ k, op.key? = some k → k ∈ H) (hat : Atomic op) (hK : K H a) (hG : G H a)
    (h : (step a op).2 = .rejected) : (step a op).1 = a := by
  cases op with
  | write k d =>
    have hr := write_regime hs d (hop k rfl) hK hG
    cases hacc : specAccepts (absOf a) (.write k d) with
    | true => simp [step, (hr.1 hacc).1] at h
    | false => exact (hr.2 hacc).2.2.2.2 (by intro dd hd; subst hd; exact hat)
  | remove k =>
    have hr := remove_regime hs (hop k rfl) hK
    cases hacc : specAccepts (absOf a) (.remove k) with
    | true => simp [step, (hr.1 hacc).1] at h
    | false => simp [step, hr.2 hacc]
  | replace k d =>
    have hr := replace_regime hs d (hop k rfl) hK hG
    cases hacc : specAccepts (absOf a) (.replace k d) with
    | true => simp [step, (hr.1 hacc).1] at h
    | false => exact (hr.2 hacc).2.2 (by intro dd hd; subst hd; exact hat)
  | load k => exact load_rejected_unchanged a k h
  | clearCache => simp [step] at h
  | reopen => simp [step, open_K hs hK] at h
  | probe => simp [step, open_K hs hK] at h

/-- every history in the regime refines the fold of the abstract specification -/
theorem run_refines {H : List Key} (hs : Sep H) (ops : List Op)
    (hops : ∀ op ∈ ops, ∀ k, op.key? = some k → k ∈ H) (a : Art) (hK : K H a) (hG : G H a) :
    absOf (run ops a) = ops.foldl specStep (absOf a) := by
  induction ops generalizing a with
  | nil => rfl
  | cons op ops ih =>
    have ho := hops op List.mem_cons_self
    have ho' : ∀ k, op.key? = some k → k ∈ H ∨ k = ksKey := fun k hk => Or.inl (ho k hk)
    simp only [run, List.foldl_cons]
    rw [← step_refines hs a op ho hK hG]
    exact ih (fun o h => hops o (List.mem_cons_of_mem _ h)) _ (step_K hs a op ho' hK) (step_G hs a op ho' hG)

theorem init_G (H : List Key) : G H init := by
  intro g hg
  have : init.groups = [] := by decide
  rw [this] at hg; cases hg

theorem absOf_init : absOf init = fun _ => none := by
  funext q
  have hf : init.file = [] ++ [(ksKey, .keysNode [ksKey])] := by decide
  rw [abs_of_us hf]
  split <;> rfl

/-- **Loading a key returns what was last written under it.** After any history in the regime, starting
from a new artifact, `load k` returns exactly what the abstract key → data map – computed from the
operation list alone – binds `k` to, and is refused iff the map does not bind it. -/
theorem load_last_written {H : List Key} (hs : Sep H) (ops : List Op)
    (hops : ∀ op ∈ ops, ∀ k, op.key? = some k → k ∈ H) (k : Key) (hk : k ∈ H) :
    (load (run ops init) k).2 =
      (match (ops.foldl specStep (fun _ => none)) k with | some n => .data n | none => .rejected) := by
  have hK := ops_K_partial hs ops (fun o h k hk => Or.inl (hops o h k hk)) init (init_K H)
  rw [(load_regime hs hk hK).1, run_refines hs ops hops init (init_K H) (init_G H), absOf_init]

/-- the keys an artifact reports are exactly the keys that can be loaded -/
theorem keys_loadable_iff {H : List Key} (hs : Sep H) {a : Art} {k : Key} (hk : k ∈ H) (hK : K H a) :
    k ∈ a.keys ↔ ∃ n, (load a k).2 = .data n := by
  rw [(load_regime hs hk hK).1, ← abs_isSome_iff hs hk hK]
  cases absOf a k <;> simp

/-- `K` in the words of the property: the persisted key space is the in-memory key list, which is
`"metadata.keyspace"` followed by the keys of the file's data nodes in insertion order, without
repetition; the cache only holds what the file holds (a cached copy of the key list itself excepted). -/
theorem K_agree {H : List Key} (hs : Sep H) {a : Art} (h : K H a) :
    a.keyspace = some a.keys ∧ a.keys = ksKey :: (fileKeys a).filter (· != ksKey) ∧ a.keys.Nodup ∧
      ∀ e ∈ a.cache, e.1 ≠ ksKey → e ∈ a.file := by
  obtain ⟨us, hf, hkeys, hnd, hus, hc⟩ := h
  have hnot : ksKey ∉ us.map (·.1) := by
    intro hm
    obtain ⟨e, he, hek⟩ := List.mem_map.mp hm
    exact hs.ks (hek ▸ (hus e he).1)
  refine ⟨?_, ?_, ?_, ?_⟩
  · simp only [Art.keyspace, hf, lookup_ks hs _ hus]
  · have : (us.map (·.1)).filter (· != ksKey) = us.map (·.1) := by
      apply List.filter_eq_self.mpr
      intro x hx
      have : x ≠ ksKey := fun e => hnot (e ▸ hx)
      simpa using this
    rw [fileKeys, hf, List.map_append, List.filter_append, this, hkeys]
    simp
  · rw [hkeys]; exact List.nodup_cons.mpr ⟨hnot, hnd⟩
  · intro e he hne; rw [hf]; exact List.mem_append_left _ (hc e he hne)

/-- reopening reads back the same keys (and touches neither the file nor the bare groups) -/
theorem reopen_same_keys {H : List Key} (hs : Sep H) {a : Art} (h : K H a) :
    step a .reopen = ({ a with cache := [] }, .ok) ∧ (step a .probe) = (a, .ok) := by
  simp only [step, open_K hs h, and_self]

/-- **The refusals the property names leave everything as it was – in every state**, consistent or not,
nested keys or not: duplicate write, `None`, malformed key, unserialisable value; remove / replace / load
of a key the artifact does not report; replace with `None` or an unserialisable value; and every
write / remove / replace addressed to the bookkeeping key `metadata.keyspace`. -/
theorem rejected_unchanged (a : Art) (k : Key) :
    (∀ d, k ∈ a.keys → write a k d = (a, .rejected)) ∧
    (write a k none = (a, .rejected)) ∧
    (∀ d, wellFormed k = false → write a k d = (a, .rejected)) ∧
    (∀ i, write a k (some ⟨.unserJson, i⟩) = (a, .rejected)) ∧
    (k ∉ a.keys → remove a k = (a, .rejected)) ∧
    (∀ d, k ∉ a.keys → replace a k d = (a, .rejected)) ∧
    (replace a k none = (a, .rejected)) ∧
    (∀ i, replace a k (some ⟨.unserJson, i⟩) = (a, .rejected)) ∧
    (k ∉ a.keys → load a k = (a, .rejected)) ∧
    (remove a ksKey = (a, .rejected)) ∧ (∀ d, replace a ksKey d = (a, .rejected)) ∧
    (∀ d, ksKey ∈ a.keys → write a ksKey d = (a, .rejected)) := by
  refine ⟨?_, ?_, ?_, ?_, ?_, ?_, ?_, ?_, ?_, remove_ks a, replace_ks a, ?_⟩
  · intro d h; unfold write; rw [if_pos (List.contains_iff_mem.mpr h)]
  · unfold write; split <;> rfl
  · intro d h
    unfold write
    split
    · rfl
    · cases d with
      | none => rfl
      | some d => simp [hdfWrite, h]
  · intro i
    unfold write
    split
    · rfl
    · by_cases hw : wellFormed k = true <;> simp [hdfWrite, hw]
  · intro h
    have : (!a.keys.contains k) = true := by simpa using h
    unfold remove; rw [if_pos this]
  · intro d h
    have : (!a.keys.contains k) = true := by simpa using h
    unfold replace; rw [if_pos this]
  · unfold replace; split <;> rfl
  · intro i; unfold replace; split <;> simp
  · intro h
    have : (!a.keys.contains k) = true := by simpa using h
    unfold load; rw [if_pos this]
  · intro d h; unfold write; rw [if_pos (List.contains_iff_mem.mpr h)]

/-! ### filter terms only restrict -/

theorem loadRows_nil (t : Table) : loadRows t [] = t.rows.zipIdx.map (fun e => (e.2, e.1)) := by
  simp [loadRows, validTerms]

/-- the rows returned under any filter terms are a sub-list (same order, same content) of the rows
returned without filter terms -/
theorem filter_subset (t : Table) (terms : List Term) : (loadRows t terms).Sublist (loadRows t []) := by
  rw [loadRows_nil]
  exact List.filter_sublist

/-- a term that references a column the stored table does not have is ignored, wherever it stands -/
theorem absent_terms_ignored (t : Table) (l1 l2 : List Term) (term : Term)
    (h : term.cols.all t.qcols.contains = false) : loadRows t (l1 ++ term :: l2) = loadRows t (l1 ++ l2) := by
  simp [loadRows, validTerms, List.filter_append, h]

/-- more terms, fewer rows -/
theorem filter_monotone (t : Table) (terms more : List Term) :
    (loadRows t (terms ++ more)).Sublist (loadRows t terms) := by
  simp only [loadRows, validTerms, List.filter_append, List.all_append]
  rw [← List.filter_filter]
  exact List.filter_sublist.filter _

/-- a draw selection only ever drops columns, and without one every column comes back -/
theorem filter_cols_subset (t : Table) (cf : Option (List String)) :
    (∀ c ∈ loadCols t cf, c ∈ t.cols) ∧ loadCols t none = t.cols := by
  refine ⟨?_, rfl⟩
  intro c hc
  cases cf with
  | none => exact hc
  | some want =>
    simp only [loadCols] at hc
    split at hc
    · exact hc
    · simpa using (List.mem_filter.mp hc).2

/-- terms never touch what a JSON document or the rows' content is: the row a term keeps is the stored row -/
theorem filter_rows_are_stored (t : Table) (terms : List Term) :
    ∀ e ∈ loadRows t terms, t.rows[e.1]? = some e.2 := by
  intro e he
  have := (filter_subset t terms).subset he
  rw [loadRows_nil] at this
  obtain ⟨x, hx, rfl⟩ := List.mem_map.mp this
  exact List.mem_zipIdx_iff_getElem?.mp hx

/-! ### the acting artifact's filter terms do not reach the store -/

/-- what the property says an operation of a (possibly filtered) artifact does to the key → data map:
constructing another artifact on the file does nothing -/
def fspecStep (m : Spec) : FOp → Spec
  | .op o => specStep m o
  | .reopenWith _ => m
  | .editReturnedKeys _ => m

/-- **Whatever filter terms the acting artifact was opened with**, every operation does to the store
(file, bare groups, key list, cache) and returns as outcome exactly what it does for an unfiltered
artifact – `load` is the only reader of the terms, and they only shape the view it hands out. In
particular the copy `replace` keeps for rolling back is the unfiltered stored value (`hdfLoad`). -/
theorem filters_do_not_affect_store (fa : FArt) (t : List Term) (o : Op) :
    (({ fa with terms := t } : FArt).step (.op o)).1.art = (fa.step (.op o)).1.art ∧
    (({ fa with terms := t } : FArt).step (.op o)).2 = (fa.step (.op o)).2 ∧
    (fa.step (.op o)).1.art = (step fa.art o).1 ∧ (fa.step (.op o)).2 = (step fa.art o).2 ∧
    (fa.step (.op o)).1.terms = fa.terms := ⟨rfl, rfl, rfl, rfl, rfl⟩

/-- **the list `Artifact.keys` hands out is the caller's own** (F36): whatever he does to it – remove
`metadata.keyspace`, append, clear, reorder – the artifact (key list, cache, filter terms) and the store are exactly
as before, in every state; so every theorem about operation sequences holds with such edits interleaved
(`filtered_ops_K_partial`, `filtered_run_refines` range over `FOp`, which contains them) -/
theorem returned_key_list_is_a_copy (fa : FArt) (e : KeyEdit) :
    fa.step (.editReturnedKeys e) = (fa, .ok) ∧
    ∀ o : Op, ((fa.step (.editReturnedKeys e)).1.step (.op o)) = fa.step (.op o) := ⟨rfl, fun _ => rfl⟩

/-- constructing the acting artifact anew with other terms changes neither file nor key list (it empties
the cache); with two draw terms the constructor raises and nothing changes at all -/
theorem reopenWith_keeps_store {H : List Key} (hs : Sep H) (fa : FArt) (t : List Term) (hK : K H fa.art) :
    (drawColumns t = none → fa.step (.reopenWith t) = (fa, .rejected)) ∧
    (drawColumns t ≠ none →
      fa.step (.reopenWith t) = ({ art := { fa.art with cache := [] }, terms := t }, .ok)) := by
  constructor
  · intro h; simp [FArt.step, h]
  · intro h
    cases hd : drawColumns t with
    | none => exact absurd hd h
    | some cf => simp [FArt.step, hd, open_K hs hK]

theorem fstep_K {H : List Key} (hs : Sep H) (fa : FArt) (o : FOp)
    (hop : ∀ k, o.key? = some k → k ∈ H ∨ k = ksKey) (hK : K H fa.art) : K H (fa.step o).1.art := by
  cases o with
  | op o => exact step_K hs fa.art o hop hK
  | reopenWith t =>
    by_cases h : drawColumns t = none
    · rw [(reopenWith_keeps_store hs fa t hK).1 h]; exact hK
    · rw [(reopenWith_keeps_store hs fa t hK).2 h]; exact K_clear hK
  | editReturnedKeys e => exact hK

theorem fstep_G {H : List Key} (hs : Sep H) (fa : FArt) (o : FOp)
    (hop : ∀ k, o.key? = some k → k ∈ H ∨ k = ksKey) (hK : K H fa.art) (hG : G H fa.art) :
    G H (fa.step o).1.art := by
  cases o with
  | op o => exact step_G hs fa.art o hop hG
  | reopenWith t =>
    by_cases h : drawColumns t = none
    · rw [(reopenWith_keeps_store hs fa t hK).1 h]; exact hG
    · rw [(reopenWith_keeps_store hs fa t hK).2 h]; exact hG
  | editReturnedKeys e => exact hG

/-- `ops_K` for histories performed by artifacts with arbitrary – and changing – filter terms -/
theorem filtered_ops_K_partial {H : List Key} (hs : Sep H) (fops : List FOp)
    (hops : ∀ o ∈ fops, ∀ k, o.key? = some k → k ∈ H ∨ k = ksKey) (fa : FArt) (hK : K H fa.art) :
    K H (FArt.run fops fa).art := by
  induction fops generalizing fa with
  | nil => exact hK
  | cons o fops ih =>
    simp only [FArt.run, List.foldl_cons]
    exact ih (fun x hx => hops x (List.mem_cons_of_mem _ hx)) _ (fstep_K hs fa o (hops o List.mem_cons_self) hK)

/-- the refinement holds for histories performed by artifacts with arbitrary filter terms: the key → data
map of the file is the fold of the abstract specification over the operation list, in which filter
terms do not occur -/
theorem filtered_run_refines {H : List Key} (hs : Sep H) (fops : List FOp)
    (hops : ∀ o ∈ fops, ∀ k, o.key? = some k → k ∈ H) (fa : FArt) (hK : K H fa.art) (hG : G H fa.art) :
    absOf (FArt.run fops fa).art = fops.foldl fspecStep (absOf fa.art) := by
  induction fops generalizing fa with
  | nil => rfl
  | cons o fops ih =>
    have ho := hops o List.mem_cons_self
    have ho' : ∀ k, o.key? = some k → k ∈ H ∨ k = ksKey := fun k hk => Or.inl (ho k hk)
    simp only [FArt.run, List.foldl_cons]
    have hstep : absOf (fa.step o).1.art = fspecStep (absOf fa.art) o := by
      cases o with
      | op o => exact step_refines hs fa.art o ho hK hG
      | reopenWith t =>
        by_cases h : drawColumns t = none
        · rw [(reopenWith_keeps_store hs fa t hK).1 h]; rfl
        · rw [(reopenWith_keeps_store hs fa t hK).2 h]; rfl
      | editReturnedKeys e => rfl
    rw [← hstep]
    exact ih (fun x hx => hops x (List.mem_cons_of_mem _ hx)) _ (fstep_K hs fa o ho' hK) (fstep_G hs fa o ho' hK hG)

/-- **a refused operation of an artifact with any filter terms leaves what is stored as it was**: the
key → data map of the file (hence what every unfiltered artifact loads) and the set of reported keys -/
theorem filtered_refusal_preserves_content {H : List Key} (hs : Sep H) (fa : FArt) (o : Op)
    (hop : ∀ k, o.key? = some k → k ∈ H) (hK : K H fa.art) (hG : G H fa.art)
    (h : (fa.step (.op o)).2 = .rejected) :
    absOf (fa.step (.op o)).1.art = absOf fa.art ∧
      (∀ k ∈ H, k ∈ (fa.step (.op o)).1.art.keys ↔ k ∈ fa.art.keys) :=
  let r := refusal_preserves_content hs fa.art o hop hK hG h
  ⟨r.1, r.2.1⟩

/-- what an artifact with filter terms hands out for a stored table is a restriction of it: a sub-list
of its rows, a subset of its columns; without terms, all of it -/
theorem view_restricts (t : Table) (terms : List Term) (v : View) (h : viewOf t terms = some v) :
    v.rows.Sublist (loadRows t []) ∧ (∀ c ∈ v.cols, c ∈ t.cols) ∧
      viewOf t [] = some { rows := loadRows t [], cols := t.cols } := by
  refine ⟨?_, ?_, ?_⟩
  · unfold viewOf at h
    split at h
    · cases h
    · split at h
      · cases h
      · cases h; exact filter_subset t terms
  · unfold viewOf at h
    split at h
    · cases h
    · rename_i cf _
      split at h
      · cases h
      · cases h; exact (filter_cols_subset t cf).1
  · simp [viewOf, drawColumns, loadRaises, loadCols]

/- Full statement (false of the code as it is, see `draw_filter_series_raises`; recorded finding F29
`draw-filter-series-name`):
     ∀ t terms, drawColumns terms ≠ none → (viewOf t terms).isSome
   – every stored table can be loaded through every artifact that can be constructed. What is missing: for a
   stored Series `pandas.read_hdf(columns=…)` selects by position in what is left of the draw filter's column
   list, and raises when the Series' name is not in it. -/
/-- a stored table can be loaded through every constructible artifact – unless it is a Series and the
artifact has a draw filter -/
theorem filtered_load_succeeds_partial (t : Table) (terms : List Term) (cf : Option (List String))
    (hc : drawColumns terms = some cf) (h : t.isSeries = false ∨ cf = none) : (viewOf t terms).isSome = true := by
  have : loadRaises t cf = false := by
    rcases h with h | h
    · cases cf <;> simp [loadRaises, h]
    · simp [loadRaises, h]
  simp [viewOf, hc, this]

/-- F29: a Series named `rate` under the draw filter `draw == 1` (columns `draw_1`, `value`) cannot be loaded;
a frame with the same column can (it comes back without columns), and so can a Series named `value` -/
theorem draw_filter_series_raises :
    viewOf { qcols := ["index"], rows := [[0], [8]], cols := ["rate"], isSeries := true } [.draws [1]] = none ∧
    (viewOf { qcols := ["index"], rows := [[0], [8]], cols := ["rate"] } [.draws [1]]).isSome = true ∧
    (viewOf { qcols := ["index"], rows := [[0], [8]], cols := ["value"], isSeries := true } [.draws [1]]).isSome = true := by
  decide

/-- a key with a `/` in it is malformed (F27): refused in every state, whatever the value -/
theorem slash_key_refused (a : Art) (d : Option Data) :
    write a ["p/q", "r"] d = (a, .rejected) ∧ wellFormed ["a", "b", "c/d"] = false ∧ wellFormed ["a b", "ü!"] = true := by
  refine ⟨(rejected_unchanged a ["p/q", "r"]).2.2.1 d (by decide), by decide, by decide⟩

/-- reading through any artifact object – the acting one or another live one with a stale key list and
cache – never touches the file -/
theorem reads_do_not_touch_file (a : Art) (k : Key) :
    (step a (.load k)).1.file = a.file ∧ (step a (.load k)).1.groups = a.groups ∧
    (step a .clearCache).1.file = a.file ∧ (step a .clearCache).1.groups = a.groups := by
  refine ⟨?_, load_groups a k, rfl, rfl⟩
  simp only [step]
  unfold load
  split
  · rfl
  · split
    · rfl
    · split <;> rfl

def jsonD (i : Nat) : Option Data := some ⟨.json, i⟩
def tableD (i : Nat) : Option Data := some ⟨.table, i⟩

/-! ### the cache never reaches the store (lessons 12-13: memos, shared objects, in-place mutation by the caller) -/

/-- `write` neither reads nor touches the cache -/
theorem write_setCache (a : Art) (c : List (Key × Node)) (k : Key) (d : Option Data) :
    write { a with cache := c } k d = ({ (write a k d).1 with cache := c }, (write a k d).2) := by
  unfold write
  split
  · rfl
  · cases d with
    | none => rfl
    | some d =>
      simp only [hdfWrite_setCache]
      generalize hdfWrite a k d = r
      obtain ⟨a1, b⟩ := r
      cases b with
      | false => rfl
      | true =>
        simp only [keysAppend]
        have := keysRewrite_setCache { a1 with keys := a1.keys ++ [k] } c
        simp only at this ⊢
        rw [this]
        generalize keysRewrite { a1 with keys := a1.keys ++ [k] } = r2
        obtain ⟨a2, b2⟩ := r2
        cases b2 <;> rfl

/-- `remove` does not read the cache: it drops the key's entry from whatever the cache is -/
theorem remove_setCache (a : Art) (c : List (Key × Node)) (k : Key) :
    ∃ c', remove { a with cache := c } k = ({ (remove a k).1 with cache := c' }, (remove a k).2) := by
  unfold remove
  split
  · exact ⟨c, rfl⟩
  split
  · exact ⟨c, rfl⟩
  · simp only [keysRemove]
    have := keysRewrite_setCache { a with keys := a.keys.erase k } c
    simp only at this ⊢
    rw [this]
    generalize keysRewrite { a with keys := a.keys.erase k } = r
    obtain ⟨a1, b⟩ := r
    cases b with
    | false => exact ⟨c, rfl⟩
    | true =>
      simp only
      have h2 := hdfRemove_setCache { a1 with cache := a1.cache.filter (fun e => e.1 != k) } (c.filter (fun e => e.1 != k)) k
      simp only at h2 ⊢
      rw [h2]
      cases hdfRemove { a1 with cache := a1.cache.filter (fun e => e.1 != k) } k with
      | none => exact ⟨c.filter (fun e => e.1 != k), rfl⟩
      | some a3 => exact ⟨c.filter (fun e => e.1 != k), rfl⟩

/-- **`replace` does not read the cache** – in particular the copy it keeps for rolling back comes from the
file (`hdfLoad`), whatever the cache holds (a filtered view, an object the caller mutated in place, …) -/
theorem replace_setCache (a : Art) (c : List (Key × Node)) (k : Key) (d : Option Data) :
    ∃ c', replace { a with cache := c } k d = ({ (replace a k d).1 with cache := c' }, (replace a k d).2) := by
  unfold replace
  split
  · exact ⟨c, rfl⟩
  · cases d with
    | none => exact ⟨c, rfl⟩
    | some d =>
      simp only
      split
      · exact ⟨c, rfl⟩
      · have hl : hdfLoad { a with cache := c } k = hdfLoad a k := rfl
        rw [hl]
        cases hdfLoad a k with
        | none => exact ⟨c, rfl⟩
        | some old =>
          simp only
          obtain ⟨c1, h1⟩ := remove_setCache a c k
          rw [h1]
          generalize remove a k = r
          obtain ⟨a1, o⟩ := r
          cases o with
          | ok =>
            simp only
            rw [write_setCache a1 c1 k (some d)]
            generalize write a1 k (some d) = r2
            obtain ⟨a2, o2⟩ := r2
            cases o2 with
            | ok => exact ⟨c1, rfl⟩
            | data n => exact ⟨c1, by simp only [write_setCache a2 c1 k (some (dataOf old))]⟩
            | rejected => exact ⟨c1, by simp only [write_setCache a2 c1 k (some (dataOf old))]⟩
          | data n => exact ⟨c1, rfl⟩
          | rejected => exact ⟨c1, rfl⟩

/-- the store: everything but the cache -/
def storeOf (a : Art) : List (Key × Node) × List Key × List Key := (a.file, a.groups, a.keys)

/-- **What is stored never depends on what the cache holds.** Whatever sits in `Artifact._cache` – a filtered
view, an entry another live artifact made stale, an object the caller mutated in place – `write`, `remove` and
`replace` (its roll-back included) do to file, bare groups and key list exactly what they do with any other
cache, and are accepted or refused alike. -/
theorem store_independent_of_cache (a : Art) (c : List (Key × Node)) (k : Key) (d : Option Data) :
    (storeOf (write { a with cache := c } k d).1 = storeOf (write a k d).1 ∧
      (write { a with cache := c } k d).2 = (write a k d).2) ∧
    (storeOf (remove { a with cache := c } k).1 = storeOf (remove a k).1 ∧
      (remove { a with cache := c } k).2 = (remove a k).2) ∧
    (storeOf (replace { a with cache := c } k d).1 = storeOf (replace a k d).1 ∧
      (replace { a with cache := c } k d).2 = (replace a k d).2) := by
  refine ⟨?_, ?_, ?_⟩
  · rw [write_setCache]; exact ⟨rfl, rfl⟩
  · obtain ⟨c', h⟩ := remove_setCache a c k; rw [h]; exact ⟨rfl, rfl⟩
  · obtain ⟨c', h⟩ := replace_setCache a c k d; rw [h]; exact ⟨rfl, rfl⟩

theorem load_store (a : Art) (k : Key) : storeOf (load a k).1 = storeOf a := by
  unfold load
  split
  · rfl
  · split
    · rfl
    · split <;> rfl

/-- a caller who mutates, in place, the object `load` handed out changes what THAT artifact's cache holds for
the key and nothing else: file, bare groups and key list are untouched, and after `clear_cache` the artifact is
what it would have been without the mutation -/
theorem caller_mutation_only_touches_cache (a : Art) (k : Key) (n' : Node) :
    storeOf (mutateLoaded a k n').1 = storeOf a ∧
    clearCache (mutateLoaded a k n').1 = clearCache a := by
  have hs := load_store a k
  unfold mutateLoaded
  generalize load a k = r at hs ⊢
  obtain ⟨a1, o⟩ := r
  simp only [storeOf, Prod.mk.injEq] at hs
  obtain ⟨h1, h2, h3⟩ := hs
  cases o with
  | ok => simp [storeOf, clearCache, h1, h2, h3]
  | rejected => simp [storeOf, clearCache, h1, h2, h3]
  | data n => simp [storeOf, clearCache, h1, h2, h3]

/-- the scenario of the seeded defects C19-3 / C19-4, on the model of the code as it is: load through a
filtered artifact (or mutate the loaded object), then a refused `replace` – the roll-back restores the stored
value, not the cached one -/
theorem rollback_ignores_cache :
    (fileKeys (replace (mutateLoaded (run [.write ["x", "y"] (tableD 1)] init) ["x", "y"] (.tbl 99)).1
        ["x", "y"] (some ⟨.zeroRow, 2⟩)).1 = [["x", "y"], ksKey]) ∧
    lookup (replace (mutateLoaded (run [.write ["x", "y"] (tableD 1)] init) ["x", "y"] (.tbl 99)).1
        ["x", "y"] (some ⟨.zeroRow, 2⟩)).1.file ["x", "y"] = some (.tbl 1) := by decide

/-! ### the recorded finding (F12) and the limits of atomicity, as witnesses on the model of the code as it is -/


/-- F12: writing pandas data under the two-part key `a.b` destroys the node of `a.b.c`; the key is still
reported (also by a freshly opened artifact) but is gone from the file and cannot be loaded. -/
theorem nested_write_destroys_child :
    (["a", "b", "c"] ∈ (run [.write ["a", "b", "c"] (jsonD 1), .write ["a", "b"] (tableD 2)] init).keys ∧
     ["a", "b", "c"] ∉ fileKeys (run [.write ["a", "b", "c"] (jsonD 1), .write ["a", "b"] (tableD 2)] init) ∧
     (load (run [.write ["a", "b", "c"] (jsonD 1), .write ["a", "b"] (tableD 2)] init) ["a", "b", "c"]).2 = .rejected ∧
     (openArtifact (run [.write ["a", "b", "c"] (jsonD 1), .write ["a", "b"] (tableD 2)] init)).map (·.keys) =
       some [ksKey, ["a", "b", "c"], ["a", "b"]]) := by decide

/-- F12: removing `a.b` removes the whole group, and with it `a.b.c`, which stays reported. -/
theorem nested_remove_destroys_child :
    (["a", "b", "c"] ∈ (run [.write ["a", "b"] (tableD 1), .write ["a", "b", "c"] (jsonD 2), .remove ["a", "b"]] init).keys ∧
     fileKeys (run [.write ["a", "b"] (tableD 1), .write ["a", "b", "c"] (jsonD 2), .remove ["a", "b"]] init) = [ksKey]) := by
  decide

/-- F12: the remove of such a dangling key raises – after the key list was rewritten. -/
theorem nested_remove_raises_after_unlisting :
    (step (run [.write ["a", "b"] (tableD 1), .write ["a", "b", "c"] (jsonD 2), .remove ["a", "b"]] init)
        (.remove ["a", "b", "c"])).2 = .rejected ∧
    (step (run [.write ["a", "b"] (tableD 1), .write ["a", "b", "c"] (jsonD 2), .remove ["a", "b"]] init)
        (.remove ["a", "b", "c"])).1.keys = [ksKey] := by decide

/-- F12: the group left behind by `a.b.c` makes a JSON write of the fresh key `a.b` fail (a pandas
write would succeed). -/
theorem leftover_group_refuses_json_write :
    step (run [.write ["a", "b", "c"] (jsonD 1), .remove ["a", "b", "c"]] init) (.write ["a", "b"] (jsonD 2)) =
      (run [.write ["a", "b", "c"] (jsonD 1), .remove ["a", "b", "c"]] init, .rejected) ∧
    (step (run [.write ["a", "b", "c"] (jsonD 1), .remove ["a", "b", "c"]] init) (.write ["a", "b"] (tableD 2))).2 = .ok := by
  decide

/-- why `Atomic` excludes pandas values the HDF layer refuses from `replace`: the key and its data survive
(F19, repaired), but the key has moved to the end of the key list. -/
theorem failed_replace_moves_key_to_end :
    (step (run [.write ["x", "y"] (jsonD 1), .write ["x", "z"] (jsonD 2)] init)
        (.replace ["x", "y"] (some ⟨.zeroRow, 3⟩))).2 = .rejected ∧
    (step (run [.write ["x", "y"] (jsonD 1), .write ["x", "z"] (jsonD 2)] init)
        (.replace ["x", "y"] (some ⟨.zeroRow, 3⟩))).1.keys = [ksKey, ["x", "z"], ["x", "y"]] ∧
    (load (step (run [.write ["x", "y"] (jsonD 1), .write ["x", "z"] (jsonD 2)] init)
        (.replace ["x", "y"] (some ⟨.zeroRow, 3⟩))).1 ["x", "y"]).2 = .data (.blob 1) := by decide

/-- why `Atomic` excludes `badFrame` from `write`: nothing stays at the key's own path (F19, repaired; a
later write of the key is accepted), but under a three-part key the parent group `put` created stays. -/
theorem refused_frame_write_leaves_parent_group :
    step init (.write ["x", "y"] (some ⟨.badFrame, 1⟩)) = (init, .rejected) ∧
    step init (.write ["q", "r", "s"] (some ⟨.badFrame, 1⟩)) = ({ init with groups := [["q", "r"]] }, .rejected) ∧
    (step (step init (.write ["q", "r", "s"] (some ⟨.badFrame, 1⟩))).1 (.write ["q", "r", "s"] (jsonD 2))).2 = .ok := by
  decide

/-! ### non-vacuity: the hypotheses are inhabited -/

/-- a separated family with two- and three-part keys under shared groups, and malformed keys -/
def exH : List Key := [["x", "y", "z"], ["x", "y", "w"], ["x", "v"], ["m", "n"], ["a"], ["a", "", "b"], [""]]

example : Sep exH := ⟨by decide, by decide⟩
example : ¬ Sep [["a", "b"], ["a", "b", "c"]] := fun h => by
  have := h.sep ["a", "b"] (by decide) ["a", "b", "c"] (by decide) (by decide) (by decide) (by decide)
  exact absurd this (by decide)
example : K exH init ∧ G exH init := ⟨init_K _, init_G _⟩
example : (run [.write ["x", "y", "z"] (jsonD 1), .write ["m", "n"] (tableD 2), .load ["m", "n"],
      .replace ["x", "y", "z"] (tableD 3), .write ["a"] (jsonD 4), .remove ["m", "n"], .reopen] init).keys =
    [ksKey, ["x", "y", "z"]] := by decide
example : (load (run [.write ["x", "y", "z"] (jsonD 1), .replace ["x", "y", "z"] (tableD 3)] init) ["x", "y", "z"]).2 =
    .data (.tbl 3) := by decide
example : Atomic (.replace ["x", "v"] (jsonD 1)) ∧ ¬ Atomic (.replace ["x", "v"] (some ⟨.zeroRow, 1⟩)) := by
  simp [Atomic, jsonD]
example : (step (run [.write ["x", "v"] (jsonD 1)] init) (.remove ksKey)).1 = run [.write ["x", "v"] (jsonD 1)] init := by
  decide
example : loadRows { qcols := ["index", "i"], rows := [[0, 1], [1, 2], [2, 3]], cols := ["value"] }
    [.atom "i" .gt 1, .atom "year" .eq 5, .draws [0]] = [(1, [1, 2]), (2, [2, 3])] := by decide

end Viv.Props.C19
