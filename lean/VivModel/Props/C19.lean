import VivModel.Model.Artifact
import VivModel.Lemmas.Artifact
/-! C19 — the artifact's keys, file and contents always agree. -/
namespace Viv.Props.C19
open Viv.Artifact

/-- The regime in which the property holds: `H` is the family of keys the history addresses; no
well-formed key's HDF path is a prefix of another's (nor of / below `metadata.keyspace`), and the
bookkeeping key itself is not addressed. Malformed keys may be in `H` freely. -/
structure Sep (H : List Key) : Prop where
  ks : ksKey ∉ H
  sep : ∀ k1 ∈ ksKey :: H, ∀ k2 ∈ ksKey :: H,
    wellFormed k1 = true → wellFormed k2 = true → above k1 k2 = true → k1 = k2

/-- Invariant `K`: the file is the user's data nodes `us` (insertion order) followed by the key space
node, which holds exactly the in-memory key list `"metadata.keyspace" :: keys of us`; no key twice;
every stored key is a well-formed key of `H`; the cache only holds what the file holds. -/
def K (H : List Key) (a : Art) : Prop :=
  ∃ us : List (Key × Node),
    a.file = us ++ [(ksKey, .keysNode a.keys)] ∧
    a.keys = ksKey :: us.map (·.1) ∧
    (us.map (·.1)).Nodup ∧
    (∀ e ∈ us, e.1 ∈ H ∧ wellFormed e.1 = true) ∧
    (∀ e ∈ a.cache, e ∈ us)

theorem sep_eq {H : List Key} (hs : Sep H) {k1 k2 : Key} (h1 : k1 ∈ ksKey :: H) (h2 : k2 ∈ ksKey :: H)
    (w1 : wellFormed k1 = true) (w2 : wellFormed k2 = true) (hab : above k1 k2 = true) : k1 = k2 :=
  hs.sep k1 h1 k2 h2 w1 w2 hab

/-- nothing stored sits at or below the path of a fresh key of `H` -/
theorem free_of_fresh {H : List Key} (hs : Sep H) {us : List (Key × Node)} {ks : List Key} {k : Key}
    (hk : k ∈ H) (hw : wellFormed k = true) (hus : ∀ e ∈ us, e.1 ∈ H ∧ wellFormed e.1 = true)
    (hfresh : k ∉ us.map (·.1)) :
    ∀ e ∈ us ++ [(ksKey, Node.keysNode ks)], above k e.1 = false := by
  intro e he
  apply Bool.eq_false_iff.mpr
  intro hab
  rcases List.mem_append.mp he with he | he
  · have := sep_eq hs (List.mem_cons_of_mem _ hk) (List.mem_cons_of_mem _ (hus e he).1) hw (hus e he).2 hab
    exact hfresh (this ▸ List.mem_map.mpr ⟨e, he, rfl⟩)
  · simp only [List.mem_singleton] at he
    subst he
    have := sep_eq hs (List.mem_cons_of_mem _ hk) (List.mem_cons_self) hw wellFormed_ks hab
    exact hs.ks (this ▸ hk)

/-- nothing the user stored sits at or below the key space node -/
theorem ks_free {H : List Key} (hs : Sep H) {us : List (Key × Node)}
    (hus : ∀ e ∈ us, e.1 ∈ H ∧ wellFormed e.1 = true) : ∀ e ∈ us, above ksKey e.1 = false := by
  intro e he
  apply Bool.eq_false_iff.mpr
  intro hab
  have := sep_eq hs List.mem_cons_self (List.mem_cons_of_mem _ (hus e he).1) wellFormed_ks (hus e he).2 hab
  exact hs.ks (this ▸ (hus e he).1)

theorem filter_ks {H : List Key} (hs : Sep H) {us : List (Key × Node)} (n : Node)
    (hus : ∀ e ∈ us, e.1 ∈ H ∧ wellFormed e.1 = true) :
    (us ++ [(ksKey, n)]).filter (fun e => !above ksKey e.1) = us := by
  rw [List.filter_append, List.filter_eq_self.mpr (fun e he => by simp [ks_free hs hus e he])]
  simp [above_self]

theorem lookup_ks {H : List Key} (hs : Sep H) {us : List (Key × Node)} (n : Node)
    (hus : ∀ e ∈ us, e.1 ∈ H ∧ wellFormed e.1 = true) :
    lookup (us ++ [(ksKey, n)]) ksKey = some n := by
  rw [lookup_append]
  have : lookup us ksKey = none := lookup_eq_none_iff.mpr (fun e he h => hs.ks (h ▸ (hus e he).1))
  simp [this, lookup_cons]

theorem write_K {H : List Key} (hs : Sep H) {a : Art} {k : Key} (d : Option Data) (hk : k ∈ H) (h : K H a) :
    K H (write a k d).1 := by
  unfold write
  split
  · exact h
  · rename_i hnot
    cases d with
    | none => exact h
    | some d =>
      dsimp only
      by_cases hw : wellFormed k = true
      · obtain ⟨us, hf, hkeys, hnd, hus, hc⟩ := h
        have hfresh : k ∉ us.map (·.1) := by
          intro hm; apply hnot; rw [hkeys]; simp [hm]
        have hfree : ∀ e ∈ a.file, above k e.1 = false := by
          rw [hf]; exact free_of_fresh hs hk hw hus hfresh
        obtain ⟨s1, s2, s3, s4⟩ := hdfWrite_spec a k d hfree
        generalize hdfWrite a k d = r at s1 s2 s3 s4 ⊢
        obtain ⟨a1, b⟩ := r
        cases b with
        | false =>
          simp only at s1 s2 s4 ⊢
          exact ⟨us, by rw [s4 trivial, s1, hf], by rw [s1, hkeys], hnd, hus, by rw [s2]; exact hc⟩
        | true =>
          obtain ⟨_, nd, _, hfile⟩ := s3 rfl
          simp only at s1 s2 hfile ⊢
          have hus' : ∀ e ∈ us ++ [(k, nd)], e.1 ∈ H ∧ wellFormed e.1 = true := by
            intro e he
            rcases List.mem_append.mp he with he | he
            · exact hus e he
            · simp only [List.mem_singleton] at he; subst he; exact ⟨hk, hw⟩
          have hocc : (lookup ({ a1 with keys := a1.keys ++ [k] } : Art).file ksKey).isSome = true := by
            simp only [hfile, hf, lookup_append, lookup_ks hs _ hus]
            simp
          simp only [keysAppend]
          rw [keysRewrite_ok _ hocc]
          simp only
          refine ⟨us ++ [(k, nd)], ?_, ?_, ?_, hus', ?_⟩
          · rw [hfile, hf, List.filter_append, filter_ks hs _ hus]
            have : above ksKey k = false := ks_free hs hus' (k, nd) (by simp)
            simp [this]
          · rw [s1, hkeys]; simp
          · rw [List.map_append, List.nodup_append]
            refine ⟨hnd, by simp, ?_⟩
            intro x hx y hy
            simp only [List.map_cons, List.map_nil, List.mem_singleton] at hy
            subst hy; intro e; exact hfresh (e ▸ hx)
          · intro e he; rw [s2] at he; exact List.mem_append_left _ (hc e he)
      · have : hdfWrite a k d = (a, false) := by simp [hdfWrite, hw]
        simp only [this]
        exact h

/-- removing a stored key of `H` from the file removes exactly its node -/
theorem filter_stored {H : List Key} (hs : Sep H) {us : List (Key × Node)} (n : Node) {k : Key}
    (hus : ∀ e ∈ us, e.1 ∈ H ∧ wellFormed e.1 = true) (hk : k ∈ H) (hw : wellFormed k = true) :
    (us ++ [(ksKey, n)]).filter (fun e => !above k e.1) = us.filter (fun e => e.1 != k) ++ [(ksKey, n)] := by
  rw [List.filter_append]
  congr 1
  · apply List.filter_congr
    intro e he
    by_cases hek : e.1 = k
    · simp [hek, above_self]
    · have : above k e.1 = false := by
        apply Bool.eq_false_iff.mpr
        intro hab
        exact hek (sep_eq hs (List.mem_cons_of_mem _ hk) (List.mem_cons_of_mem _ (hus e he).1) hw (hus e he).2 hab).symm
      simp [this, hek]
  · have : above k ksKey = false := by
      apply Bool.eq_false_iff.mpr
      intro hab
      have := sep_eq hs (List.mem_cons_of_mem _ hk) List.mem_cons_self hw wellFormed_ks hab
      exact hs.ks (this ▸ hk)
    simp [this]

theorem remove_K {H : List Key} (hs : Sep H) {a : Art} {k : Key} (hk : k ∈ H) (h : K H a) :
    K H (remove a k).1 := by
  unfold remove
  split
  · exact h
  · rename_i hin
    obtain ⟨us, hf, hkeys, hnd, hus, hc⟩ := h
    have hne : k ≠ ksKey := fun e => hs.ks (e ▸ hk)
    have hkin : k ∈ us.map (·.1) := by
      have : k ∈ a.keys := by simpa using hin
      rw [hkeys] at this
      rcases List.mem_cons.mp this with h | h
      · exact absurd h hne
      · exact h
    obtain ⟨e0, he0, hek0⟩ := List.mem_map.mp hkin
    have hw : wellFormed k = true := hek0 ▸ (hus e0 he0).2
    have hocc : (lookup ({ a with keys := a.keys.erase k } : Art).file ksKey).isSome = true := by
      simp only [hf, lookup_ks hs _ hus]; simp
    simp only [keysRemove]
    rw [keysRewrite_ok _ hocc]
    dsimp only
    rw [hf, filter_ks hs _ hus]
    have hocc2 : (lookup (us ++ [(ksKey, Node.keysNode (a.keys.erase k))]) k).isSome = true := by
      rw [lookup_isSome_iff]; simp only [List.map_append, List.mem_append]; exact Or.inl hkin
    simp only [hdfRemove, hw, occupied, hocc2, Bool.true_or, Bool.and_self, if_true, rmTree]
    rw [filter_stored hs _ hus hk hw]
    have herase : a.keys.erase k = ksKey :: (us.filter (fun e => e.1 != k)).map (·.1) := by
      rw [hkeys, List.erase_cons]
      have : (ksKey == k) = false := by simpa using (Ne.symm hne)
      simp only [this, Bool.false_eq_true, if_false]
      rw [hnd.erase_eq_filter, List.filter_map]
      rfl
    refine ⟨us.filter (fun e => e.1 != k), by simp only, herase, ?_, ?_, ?_⟩
    · exact (List.Sublist.map _ List.filter_sublist).nodup hnd
    · intro e he; exact hus e (List.mem_filter.mp he).1
    · intro e he
      simp only [List.mem_filter] at he ⊢
      exact ⟨hc e he.1, he.2⟩

theorem replace_K {H : List Key} (hs : Sep H) {a : Art} {k : Key} (d : Option Data) (hk : k ∈ H) (h : K H a) :
    K H (replace a k d).1 := by
  unfold replace
  split
  · exact h
  · cases d with
    | none => exact h
    | some d =>
      dsimp only
      split
      · exact h
      · have hr := remove_K hs hk h
        generalize remove a k = r at hr ⊢
        obtain ⟨a1, o⟩ := r
        cases o with
        | ok => exact write_K hs (some d) hk hr
        | data n => exact hr
        | rejected => exact hr

theorem load_K {H : List Key} (hs : Sep H) {a : Art} {k : Key} (hk : k ∈ H) (h : K H a) :
    K H (load a k).1 := by
  unfold load
  split
  · exact h
  · split
    · exact h
    · split
      · rename_i n hn
        obtain ⟨us, hf, hkeys, hnd, hus, hc⟩ := h
        refine ⟨us, hf, hkeys, hnd, hus, ?_⟩
        intro e he
        rcases List.mem_append.mp he with he | he
        · exact hc e he
        · simp only [List.mem_singleton] at he
          subst he
          unfold hdfLoad at hn
          split at hn
          · have := lookup_some_mem hn
            rw [hf] at this
            rcases List.mem_append.mp this with h | h
            · exact h
            · simp only [List.mem_singleton, Prod.mk.injEq] at h
              exact absurd (h.1 ▸ hk) hs.ks
          · cases hn
      · exact h

/-- on a consistent artifact, opening the file again reads back exactly the in-memory key list -/
theorem open_K {H : List Key} (hs : Sep H) {a : Art} (h : K H a) :
    openArtifact a = some { a with cache := [] } := by
  obtain ⟨us, hf, hkeys, hnd, hus, hc⟩ := h
  have h1 : (fileKeys a).isEmpty = false := by simp [fileKeys, hf]
  have h2 : (fileKeys a).contains ksKey = true := by simp [fileKeys, hf]
  have h3 : hdfLoad a ksKey = some (.keysNode a.keys) := by
    simp only [hdfLoad, wellFormed_ks, if_true, hf, lookup_ks hs _ hus]
  simp only [openArtifact, h1, h2, Bool.false_eq_true, if_false, if_true, h3]

theorem K_clear {H : List Key} {a : Art} (h : K H a) : K H { a with cache := [] } := by
  obtain ⟨us, hf, hkeys, hnd, hus, hc⟩ := h
  exact ⟨us, hf, hkeys, hnd, hus, by simp⟩

/-- one operation on keys of `H` (accepted or refused) preserves `K` -/
theorem step_K {H : List Key} (hs : Sep H) (a : Art) (op : Op) (hop : ∀ k, op.key? = some k → k ∈ H)
    (h : K H a) : K H (step a op).1 := by
  cases op with
  | write k d => exact write_K hs d (hop k rfl) h
  | load k => exact load_K hs (hop k rfl) h
  | remove k => exact remove_K hs (hop k rfl) h
  | replace k d => exact replace_K hs d (hop k rfl) h
  | clearCache => exact K_clear h
  | reopen => simp only [step, open_K hs h]; exact K_clear h
  | probe => simp only [step, open_K hs h]; exact h

/- Full statement (false of the code as it is, see `nested_write_destroys_child`,
`remove_keyspace_node_breaks_reopen`):
     ∀ ops a, K' a → K' (run ops a)
   where K' does not restrict the keys to a separated family. What is missing: `HDFStore.put` and
   `remove_node(recursive=True)` act on the whole subtree below a two-part key (F12), and
   `metadata.keyspace` is accepted as the target of `remove` / `replace`. -/
/-- `ops_K` for every history over a family of keys none of whose HDF paths is a prefix of another's:
every operation sequence – including refused operations, reopens and second artifacts on the same file –
preserves `K`. -/
theorem ops_K_partial {H : List Key} (hs : Sep H) (ops : List Op)
    (hops : ∀ op ∈ ops, ∀ k, op.key? = some k → k ∈ H) (a : Art) (h : K H a) : K H (run ops a) := by
  induction ops generalizing a with
  | nil => exact h
  | cons op ops ih =>
    simp only [run, List.foldl_cons]
    exact ih (fun o ho => hops o (List.mem_cons_of_mem _ ho)) _ (step_K hs a op (hops op List.mem_cons_self) h)

/-- the new artifact on an empty file satisfies `K` -/
theorem init_K (H : List Key) : K H init := ⟨[], by decide, by decide, by simp, by simp, by decide⟩

/-! ### bare groups never occupy the path of a key of `H` -/

/-- no data-less group sits on the path of a key the history addresses -/
def G (H : List Key) (a : Art) : Prop := ∀ g ∈ a.groups, g ∉ H

/-- operations whose refusal is atomic in the code as it is: the value is not a pandas object the HDF
layer refuses after it has started (`badFrame`), nor – for `replace`, which does not validate pandas
values before removing – one it refuses at all (`zeroRow`). See `replace_unstorable_frame_loses_key`,
`unstorable_frame_write_leaves_group`. -/
def Atomic : Op → Prop
  | .write _ (some d) => d.kind ≠ .badFrame
  | .replace _ (some d) => d.kind ≠ .badFrame ∧ d.kind ≠ .zeroRow
  | _ => True

theorem take2_not_mem {H : List Key} (hs : Sep H) {k : Key} (hk : k ∈ H) (hw : wellFormed k = true)
    (h3 : k.length = 3) : k.take 2 ∉ H := by
  intro hin
  exact take2_ne h3 (sep_eq hs (List.mem_cons_of_mem _ hin) (List.mem_cons_of_mem _ hk)
    (wellFormed_take2 hw h3) hw (above_take k 2))

theorem write_G {H : List Key} (hs : Sep H) {a : Art} {k : Key} {d : Option Data} (hk : k ∈ H)
    (hat : ∀ dd, d = some dd → dd.kind ≠ .badFrame) (hG : G H a) : G H (write a k d).1 := by
  intro g hg
  rcases write_groups hg with h | ⟨hw, h3, rfl⟩ | ⟨dd, hd, hb, _⟩
  · exact hG g h
  · exact take2_not_mem hs hk hw h3
  · exact absurd hb (hat dd hd)

theorem replace_G {H : List Key} (hs : Sep H) {a : Art} {k : Key} {d : Option Data} (hk : k ∈ H)
    (hat : ∀ dd, d = some dd → dd.kind ≠ .badFrame) (hG : G H a) : G H (replace a k d).1 := by
  unfold replace
  split
  · exact hG
  · cases d with
    | none => exact hG
    | some d =>
      dsimp only
      split
      · exact hG
      · have hr : G H (remove a k).1 := fun g hg => hG g (remove_groups hg)
        generalize remove a k = r at hr ⊢
        obtain ⟨a1, o⟩ := r
        cases o with
        | ok => exact write_G hs hk hat hr
        | data n => exact hr
        | rejected => exact hr

theorem load_groups (a : Art) (k : Key) : (load a k).1.groups = a.groups := by
  unfold load
  split
  · rfl
  · split
    · rfl
    · split <;> rfl

theorem step_G {H : List Key} (hs : Sep H) (a : Art) (op : Op) (hop : ∀ k, op.key? = some k → k ∈ H)
    (hat : Atomic op) (hG : G H a) : G H (step a op).1 := by
  cases op with
  | write k d =>
    refine write_G hs (hop k rfl) ?_ hG
    intro dd hd; subst hd; exact hat
  | load k => intro g hg; rw [step, load_groups] at hg; exact hG g hg
  | remove k => exact fun g hg => hG g (remove_groups hg)
  | replace k d =>
    refine replace_G hs (hop k rfl) ?_ hG
    intro dd hd; subst hd; exact hat.1
  | clearCache => exact hG
  | reopen =>
    simp only [step]
    cases h : openArtifact a with
    | none => exact hG
    | some a' => exact fun g hg => hG g (openArtifact_groups h hg)
  | probe =>
    simp only [step]
    cases h : openArtifact a with
    | none => exact hG
    | some a' => exact fun g hg => hG g (openArtifact_groups h hg)

end Viv.Props.C19
