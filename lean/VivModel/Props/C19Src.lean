import VivModel.Model.Artifact
import VivModel.Gen.Src
import VivModel.Lemmas.PyAst
import VivModel.Lemmas.PyState
/-! C19, source tie: the Python sources of `Artifact.write`, `remove`, `load` and `replace` (`Gen/Src.lean`, regenerated
from the tree under test on every run) evaluated by `Py.evalBlock` ARE the model's `Artifact.write / remove / load /
replace` (`Model/Artifact.lean`) – same final artifact state (file, groups, key list, cache) and same success / refusal,
for every artifact state, key and value, INCLUDING the state left behind when the HDF layer or the key-space rewrite
fails half-way (the artifact is the state of a state monad under the exception monad, so it survives a raise).
`replace` reaches `remove` and `write` by calls into the translated sources of those methods, and its `try / except /
raise` is evaluated as such. The HDF layer (`hdf.write / remove / load`), `Keys.append / remove`, `json.dumps` and
`isinstance` are the model's primitives (trusted dictionary: `aPrim`, `aGetAttr`, `aCmp`). What the order of the
statements means – key list before cache before file in `remove`, file before key list in `write`, old data read from
the file and written back on failure in `replace` – is thereby re-checked against the model on every run. -/
namespace Viv.Props.C19Src
open Viv.Py Viv.Artifact

/-- bound methods and module functions the `Artifact` methods call -/
inductive Fn where
  | hdfWrite | hdfRemove | hdfLoad | keysAppend | keysRemove | cachePop | jsonDumps | isinstance | selfRemove | selfWrite
  deriving DecidableEq

/-- the Python objects the `Artifact` methods touch -/
inductive AV where
  | none | bool (b : Bool) | int (i : Int) | str (s : String)
  | self | path | keysObj | cacheObj | filterArg
  | hdfMod | jsonMod | pdMod | pdClass
  /-- an `EntityKey` -/
  | key (k : Key)
  /-- a value handed to `write` / `replace` -/
  | dat (d : Data)
  /-- what `hdf.load` returned / what sits in the cache -/
  | node (n : Node)
  /-- bound methods and module functions -/
  | fn (f : Fn)
  | tuple (vs : List AV)

/-- the artifact (file, groups, key list, cache) is the state; it survives a raised exception -/
abbrev M := SM Art

/-- a value as `hdf.write` sees it: fresh data, or something `hdf.load` returned earlier -/
def asData : AV → Option Data
  | .dat d => some d
  | .node n => some (dataOf n)
  | _ => Option.none

def isPandas (d : Data) : Bool := d.kind == .table || d.kind == .zeroRow || d.kind == .badFrame

def aGetAttr : AV → String → M AV
  | .self, a =>
    if a == "_path" then pure .path
    else if a == "_keys" then pure .keysObj
    else if a == "_cache" then pure .cacheObj
    else if a == "_filter_terms" || a == "_draw_column_filter" then pure .filterArg
    else if a == "remove" then pure (.fn .selfRemove)
    else if a == "write" then pure (.fn .selfWrite)
    else throw "AttributeError"
  | .keysObj, a =>
    if a == "append" then pure (.fn .keysAppend)
    else if a == "remove" then pure (.fn .keysRemove)
    else if a == "keyspace_node" then pure (.key ksKey)
    else throw "AttributeError"
  | .cacheObj, a => if a == "pop" then pure (.fn .cachePop) else throw "AttributeError"
  | .hdfMod, a =>
    if a == "write" then pure (.fn .hdfWrite)
    else if a == "remove" then pure (.fn .hdfRemove)
    else if a == "load" then pure (.fn .hdfLoad)
    else throw "AttributeError"
  | .jsonMod, a => if a == "dumps" then pure (.fn .jsonDumps) else throw "AttributeError"
  | .pdMod, a => if a == "DataFrame" || a == "Series" then pure .pdClass else throw "AttributeError"
  | _, _ => throw "AttributeError"

/-- module functions and bound methods of the key list and the cache -/
def aPrim : Fn → List AV → List (String × AV) → M AV
  | .hdfWrite, [.path, .key k, v], [] => match asData v with
    | some d => do
      let a ← (get : M Art)
      let r := hdfWrite a k d
      set r.1
      if r.2 then pure .none else throw "HdfWriteError"
    | Option.none => throw "TypeError"
  | .hdfRemove, [.path, .key k], [] => do
    let a ← (get : M Art)
    match hdfRemove a k with
    | some a' => set a'; pure .none
    | Option.none => throw "NoSuchNodeError"
  | .hdfLoad, [.path, .key k], _ => do
    let a ← (get : M Art)
    match hdfLoad a k with
    | some n => pure (.node n)
    | Option.none => throw "NoSuchNodeError"
  | .hdfLoad, [.path, .key k, .filterArg, .filterArg], _ => do
    let a ← (get : M Art)
    match hdfLoad a k with
    | some n => pure (.node n)
    | Option.none => throw "NoSuchNodeError"
  | .keysAppend, [.key k], [] => do
    let a ← (get : M Art)
    let r := keysAppend a k
    set r.1
    if r.2 then pure .none else throw "KeyspaceWriteError"
  | .keysRemove, [.key k], [] => do
    let a ← (get : M Art)
    let r := keysRemove a k
    set r.1
    if r.2 then pure .none else throw "KeyspaceWriteError"
  | .cachePop, [.key k], [] => do
    modify fun a => { a with cache := a.cache.filter (fun e => e.1 != k) }
    pure .none
  | .cachePop, [.key k, _], [] => do     -- `pop(key, default)`: no KeyError for an absent key
    modify fun a => { a with cache := a.cache.filter (fun e => e.1 != k) }
    pure .none
  | .jsonDumps, [.dat d], [] => if d.kind == .unserJson then throw "TypeError" else pure (.str "")
  | .isinstance, [.dat d, .tuple [.pdClass, .pdClass]], [] => pure (.bool (isPandas d))
  | _, _, _ => throw "TypeError"

def aCmp (op : String) : AV → AV → M AV
  | .key k, .self => do
    let a ← (get : M Art)
    if op == "In" then pure (.bool (a.keys.contains k))
    else if op == "NotIn" then pure (.bool (!a.keys.contains k)) else throw "TypeError"
  | .key k, .cacheObj => do
    let a ← (get : M Art)
    if op == "In" then pure (.bool (lookup a.cache k).isSome)
    else if op == "NotIn" then pure (.bool (lookup a.cache k).isNone) else throw "TypeError"
  | .key k, .key k' => if op == "Eq" then pure (.bool (k == k')) else throw "TypeError"
  | .none, .none => if op == "Is" then pure (.bool true) else if op == "IsNot" then pure (.bool false) else throw "TypeError"
  | .dat _, .none => if op == "Is" then pure (.bool false) else if op == "IsNot" then pure (.bool true) else throw "TypeError"
  | .node _, .none => if op == "Is" then pure (.bool false) else if op == "IsNot" then pure (.bool true) else throw "TypeError"
  | _, _ => throw "TypeError"

def aTruthy : AV → M Bool
  | .none => pure false
  | .bool b => pure b
  | _ => pure true

def aSub : AV → AV → M AV
  | .cacheObj, .key k => do
    let a ← (get : M Art)
    match lookup a.cache k with
    | some n => pure (.node n)
    | Option.none => throw "KeyError"
  | _, _ => throw "TypeError"

def aSetItem : AV → AV → AV → M Unit
  | .cacheObj, .key k, .node n => modify fun a => { a with cache := a.cache ++ [(k, n)] }
  | _, _, _ => throw "TypeError"

def aGlobal (n : String) : M AV :=
  if n == "hdf" then pure .hdfMod else if n == "json" then pure .jsonMod else if n == "pd" then pure .pdMod
  else if n == "isinstance" then pure (.fn .isinstance) else throw "NameError"

/-- `methods`: what `self.remove(...)` / `self.write(...)` do (calls into other translated methods) -/
def aworldWith (methods : Fn → List AV → M AV) : World M AV where
  none := .none
  bool := .bool
  int := .int
  str := .str
  list := .tuple
  newList vs := pure (.tuple vs)
  tuple := .tuple
  global := aGlobal
  truthy := aTruthy
  getAttr := aGetAttr
  setAttr _ _ _ := throw "AttributeError"
  call f args kws := match f with
    | .fn .selfRemove => methods .selfRemove args
    | .fn .selfWrite => methods .selfWrite args
    | .fn g => aPrim g args kws
    | _ => throw "TypeError"
  cmp := aCmp
  bin _ _ _ := throw "TypeError"
  neg _ := throw "TypeError"
  sub := aSub
  slice _ _ := .none
  setItem := aSetItem
  iter _ := throw "TypeError"
  unstar _ := throw "TypeError"
  format _ := throw "TypeError"
  concat _ := throw "TypeError"
  dict _ := throw "TypeError"
  whileLoop _ _ _ := throw "Unsupported"
  other _ := throw "Unsupported"
  throw cls := throw cls
  rethrow := throw "reraise"
  catchAll body handler := tryCatch body (fun _ => handler)
  catchCls cls body handler := tryCatch body (fun e => if e == cls then handler else throw e)

/-- the world of the methods that call no other method of the artifact -/
def aworld0 : World M AV := aworldWith fun _ _ => throw "TypeError"

def dataArg : Option Data → AV
  | some d => .dat d
  | Option.none => .none

/-- outcome and final state of a run, in the model's vocabulary -/
def outcome (r : Except String AV × Art) : Art × Bool := (r.2, r.1.toBool)

/-- the values a caller (or `replace`) can hand to `write` as data: `None`, a fresh value, something loaded earlier -/
inductive IsData : AV → Prop
  | none : IsData .none
  | dat (d : Data) : IsData (.dat d)
  | node (n : Node) : IsData (.node n)

/-- `Artifact.write(key, data)`: final artifact state and whether it succeeded are the model's `write` – including the
state left behind when the HDF layer or the key-space rewrite fails part-way. -/
theorem write_refines (a : Art) (k : Key) (v : AV) (hv : IsData v) :
    outcome (runM (Gen.Src.artifactWrite.run aworld0 [("self", .self), ("entity_key", .key k), ("data", v)]) a)
      = ((write a k (asData v)).1, (write a k (asData v)).2 == .ok) := by
  simp [Func.run, Gen.Src.artifactWrite, evalBlock, evalStmt, evalExpr, evalArgs, evalKws, aworld0, aworldWith, aGetAttr, aPrim, aCmp, aTruthy, aSub, aSetItem, aGlobal, write, -runM_bind, -runM_map]
  by_cases hk : k ∈ a.keys
  · simp [hk, outcome, Except.toBool]
  · cases hv with
    | none => simp [hk, asData, outcome, Except.toBool]
    | dat d =>
      rcases h1 : hdfWrite a k d with ⟨a1, b1⟩
      rcases h2 : keysAppend a1 k with ⟨a2, b2⟩
      cases b1 <;> cases b2 <;> simp [hk, asData, outcome, Except.toBool, h1, h2]
    | node n =>
      rcases h1 : hdfWrite a k (dataOf n) with ⟨a1, b1⟩
      rcases h2 : keysAppend a1 k with ⟨a2, b2⟩
      cases b1 <;> cases b2 <;> simp [hk, asData, outcome, Except.toBool, h1, h2]

theorem filter_of_lookup_none (c : List (Key × Node)) (k : Key) (h : (lookup c k).isSome = false) :
    c.filter (fun e => e.1 != k) = c := by
  induction c with
  | nil => rfl
  | cons x xs ih =>
    have hx : (x.1 == k) = false := by
      cases hxk : (x.1 == k) with
      | false => rfl
      | true => simp [lookup, List.find?, hxk] at h
    have h' : (lookup xs k).isSome = false := by simpa [lookup, List.find?, hx] using h
    have hne : (x.1 != k) = true := by simp [bne, hx]
    rw [List.filter_cons_of_pos (by simpa using hne), ih h']

/-- `Artifact.remove(key)`: the model's `remove` (key list first, then the cache, then the file). -/
theorem remove_refines (a : Art) (k : Key) :
    outcome (runM (Gen.Src.artifactRemove.run aworld0 [("self", .self), ("entity_key", .key k)]) a)
      = ((remove a k).1, (remove a k).2 == .ok) := by
  simp [Func.run, Gen.Src.artifactRemove, evalBlock, evalStmt, evalExpr, evalArgs, evalKws, aworld0, aworldWith, aGetAttr, aPrim, aCmp, aTruthy, aSub, aSetItem, aGlobal, remove, -runM_bind, -runM_map]
  by_cases hk : k ∈ a.keys
  · by_cases hks : k = ksKey
    · subst hks; simp [hk, outcome, Except.toBool]
    · rcases h1 : keysRemove a k with ⟨a1, b1⟩
      cases b1
      · simp [hk, hks, outcome, Except.toBool, h1]
      · cases h3 : (lookup a1.cache k).isSome
        · have hf := filter_of_lookup_none a1.cache k h3
          have he : ({ a1 with cache := a1.cache } : Art) = a1 := rfl
          cases h2 : hdfRemove a1 k <;> simp [hk, hks, outcome, Except.toBool, h1, h2, h3, hf, he]
        · cases h2 : hdfRemove { a1 with cache := a1.cache.filter (fun e => e.1 != k) } k <;>
            simp [hk, hks, outcome, Except.toBool, h1, h2, h3]
  · simp [hk, outcome, Except.toBool]

theorem lookup_append_new (c : List (Key × Node)) (k : Key) (n : Node) (h : lookup c k = none) :
    lookup (c ++ [(k, n)]) k = some n := by
  induction c with
  | nil => simp [lookup, List.find?]
  | cons x xs ih =>
    have hx : (x.1 == k) = false := by
      cases hxk : (x.1 == k) with
      | false => rfl
      | true => simp [lookup, List.find?, hxk] at h
    have h' : lookup xs k = none := by simpa [lookup, List.find?, hx] using h
    have := ih h'
    simpa [lookup, List.find?, hx] using this

/-- what a run of `load` hands back, in the model's vocabulary -/
def loadOutcome (r : Except String AV × Art) : Art × Out :=
  (r.2, match r.1 with | .ok (.node n) => Out.data n | _ => Out.rejected)

/-- `Artifact.load(key)`: the model's `load` (cache first, then the file, caching what was read). -/
theorem load_refines (a : Art) (k : Key) :
    loadOutcome (runM (Gen.Src.artifactLoad.run aworld0 [("self", .self), ("entity_key", .key k)]) a) = load a k := by
  simp [Func.run, Gen.Src.artifactLoad, evalBlock, evalStmt, evalExpr, evalArgs, evalKws, assignTo, aworld0, aworldWith, aGetAttr, aPrim, aCmp, aTruthy, aSub, aSetItem, aGlobal, load, -runM_bind, -runM_map]
  by_cases hk : k ∈ a.keys
  · cases hc : lookup a.cache k with
    | some n => simp [hk, hc, loadOutcome]
    | none =>
      cases hl : hdfLoad a k with
      | none => simp [hk, hc, hl, loadOutcome]
      | some n =>
        simp [hk, hc, hl, loadOutcome, lookup_append_new a.cache k n hc]
  · simp [hk, loadOutcome]

/-- the full world: `self.remove(...)` and `self.write(...)` are calls INTO the translated sources of those methods -/
def aworld : World M AV := aworldWith fun g args => match g, args with
  | .selfRemove, [.key k] => Gen.Src.artifactRemove.run aworld0 [("self", .self), ("entity_key", .key k)]
  | .selfWrite, [.key k, v] => Gen.Src.artifactWrite.run aworld0 [("self", .self), ("entity_key", .key k), ("data", v)]
  | _, _ => throw "TypeError"

/-- a run whose outcome is known leaves exactly two possibilities -/
theorem of_outcome {r : Except String AV × Art} {st : Art} {b : Bool} (h : outcome r = (st, b)) :
    (∃ v, r = (.ok v, st) ∧ b = true) ∨ (∃ e, r = (.error e, st) ∧ b = false) := by
  rcases r with ⟨res, s⟩
  cases res with
  | ok v => left; exact ⟨v, by simp_all [outcome, Except.toBool]⟩
  | error e => right; exact ⟨e, by simp_all [outcome, Except.toBool]⟩

set_option hygiene false in
/-- a leaf of `replace_tail`: only facts about the model's `remove` / `write` are left -/
macro "replace_close" : tactic => `(tactic| (
  try simp only [asData] at *
  simp only [replace, outcome, Except.toBool]
  generalize remove a k = r at *
  rcases r with ⟨a1, o1⟩
  cases o1 <;> first
    | (simp_all; done)
    | (try dsimp only at *
       generalize write a1 k (some d) = r2 at *
       rcases r2 with ⟨a2, o2⟩
       cases o2 <;> simp_all)))

set_option hygiene false in
/-- the part of `replace` after its guards, along every outcome of the file read, the removal, the write and the
write-back -/
macro "replace_tail" : tactic => `(tactic| (
  pystep [aworld, aworldWith, aGetAttr, aPrim, aCmp, aTruthy, aGlobal, dataArg, hp, hu]
  cases hl : hdfLoad a k with
  | none =>
    pystep [aworld, aworldWith, aGetAttr, aPrim, aCmp, aTruthy, aGlobal, dataArg, hl]
    simp [replace, hk, hu, hl, outcome, Except.toBool]
  | some old =>
    pystep [aworld, aworldWith, aGetAttr, aPrim, aCmp, aTruthy, aGlobal, dataArg, hl]
    rcases of_outcome (remove_refines a k) with ⟨v, hrv, hb⟩ | ⟨e, hre, hb⟩
    · pystep [aworld, aworldWith, aGetAttr, aPrim, aCmp, aTruthy, aGlobal, dataArg, hrv]
      rcases of_outcome (write_refines (remove a k).1 k (.dat d) (.dat d)) with ⟨v2, hw, hb2⟩ | ⟨e2, hw, hb2⟩
      · pystep [aworld, aworldWith, aGetAttr, aPrim, aCmp, aTruthy, aGlobal, dataArg, hw]
        replace_close
      · rcases of_outcome (write_refines (write (remove a k).1 k (some d)).1 k (.node old) (.node old)) with ⟨v3, hw3, hb3⟩ | ⟨e3, hw3, hb3⟩
        · pystep [aworld, aworldWith, aGetAttr, aPrim, aCmp, aTruthy, aGlobal, dataArg, hw, hw3, asData]
          replace_close
        · pystep [aworld, aworldWith, aGetAttr, aPrim, aCmp, aTruthy, aGlobal, dataArg, hw, hw3, asData]
          replace_close
    · pystep [aworld, aworldWith, aGetAttr, aPrim, aCmp, aTruthy, aGlobal, dataArg, hre]
      replace_close))

theorem kind_class (d : Data) :
    (isPandas d = true ∧ d.kind ≠ .unserJson) ∨ (isPandas d = false ∧ d.kind = .unserJson) ∨
    (isPandas d = false ∧ d.kind ≠ .unserJson) := by
  rcases d with ⟨kind, id⟩
  cases kind <;> simp [isPandas]

/-- `Artifact.replace(key, data)`: the model's `replace` – `None` and an unserialisable value are refused before anything
is touched; the old data are read from the FILE (not the cache, not filtered); the key is removed and the new data
written; and when that write fails the old data are written back before the failure is reported. -/
theorem replace_refines (a : Art) (k : Key) (d : Option Data) :
    outcome (runM (Gen.Src.artifactReplace.run aworld [("self", .self), ("entity_key", .key k), ("data", dataArg d)]) a)
      = ((replace a k d).1, (replace a k d).2 == .ok) := by
  rw [runM_func]
  simp only [Gen.Src.artifactReplace]
  by_cases hk : k ∈ a.keys
  · cases d with
    | none =>
      pystep [aworld, aworldWith, aGetAttr, aPrim, aCmp, aTruthy, aGlobal, hk]
      pystep [aworld, aworldWith, aGetAttr, aPrim, aCmp, aTruthy, aGlobal, hk, dataArg]
      simp [replace, hk, outcome, Except.toBool]
    | some d =>
      pystep [aworld, aworldWith, aGetAttr, aPrim, aCmp, aTruthy, aGlobal, hk]
      pystep [aworld, aworldWith, aGetAttr, aPrim, aCmp, aTruthy, aGlobal, hk, dataArg]
      rcases kind_class d with ⟨hp, hu⟩ | ⟨hp, hu⟩ | ⟨hp, hu⟩
      · replace_tail
      · pystep [aworld, aworldWith, aGetAttr, aPrim, aCmp, aTruthy, aGlobal, dataArg, hp, hu]
        simp [replace, hk, hu, outcome, Except.toBool]
      · replace_tail
  · pystep [aworld, aworldWith, aGetAttr, aPrim, aCmp, aTruthy, aGlobal, hk]
    simp [replace, hk, outcome, Except.toBool]
end Viv.Props.C19Src
