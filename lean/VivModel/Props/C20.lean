import VivModel.Model.Util
import VivModel.Lemmas.Components
/-! C20 — every component is set up once; user configuration always wins.

General part: for EVERY forest of components (any depth, fan-out, duplicates anywhere), every list
of managers with any defaults, every list of user values and every probe script (induction /
invariants over the executable model `Viv.Components`).
Generated part: the layer order, the layer each `update` writes to and the action order of
`SimulationContext.setup` are the tables regenerated from the working tree (`Viv.Gen`); the
statements about them are re-decided on every run and the general theorems are instantiated with
them, so a source edit that moves a layer or the `freeze()` call breaks an obligation here. -/
namespace Viv.Props.C20
open Viv.Components
open Viv.Gen (Act)

/-! ### 1. Flattening: the explicit stack of `_flatten` is the pre-order traversal -/

/-- the stack loop of `ComponentManager._flatten` computes the pre-order traversal of the forest -/
theorem flatten_preorder (ts : List Tree) : flatten ts = preorderL ts := flatten_eq ts

/-- every node of the forest comes out exactly as often as it occurs in the forest (for every
predicate on nodes: as many hits in the output as in the forest), and nothing else comes out -/
theorem flatten_each_once (ts : List Tree) (p : Tree → Bool) :
    (flatten ts).countP p = countL p ts ∧ (flatten ts).length = sizeL ts := by
  rw [flatten_eq]; exact ⟨preorderL_countP p ts, preorderL_length ts⟩

/-- supply order is preserved: flattening distributes over concatenation of the supplied lists -/
theorem flatten_supply_order (a b : List Tree) : flatten (a ++ b) = flatten a ++ flatten b := by
  simp only [flatten_eq, preorderL_append]

/-- a component comes first, then all its descendants, then whatever was supplied after it -/
theorem flatten_parent_first (n : String) (d : Defaults) (cs rest : List Tree) :
    flatten (.node n d cs :: rest) = .node n d cs :: (flatten cs ++ flatten rest) := by
  simp [flatten_eq, preorderL, preorder]

/-- wherever a component occurs in the forest, the output contains it immediately followed by the
flattening of its own sub-components (its subtree is one contiguous block that it heads) -/
theorem subtree_contiguous (ts : List Tree) (x : Tree) (h : x ∈ flatten ts) :
    ∃ a b, flatten ts = a ++ x :: flatten x.children ++ b := by
  rw [flatten_eq] at h
  obtain ⟨a, b, hab⟩ := preorderL_block ts x h
  exact ⟨a, b, by rw [flatten_eq, flatten_eq, hab, preorder_eq]⟩

/-- parent before child: for every occurrence of a component and each of its sub-components -/
theorem parent_before_child (ts : List Tree) (x c : Tree) (hx : x ∈ flatten ts) (hc : c ∈ x.children) :
    [x, c].Sublist (flatten ts) := by
  obtain ⟨a, b, hab⟩ := subtree_contiguous ts x hx
  rw [hab]
  have h1 : [c].Sublist (flatten x.children) := by
    rw [flatten_eq]; exact List.singleton_sublist.mpr (mem_preorderL_of_mem c _ hc)
  have h2 : [x, c].Sublist (x :: flatten x.children) := h1.cons_cons x
  have h3 : (x :: flatten x.children).Sublist (a ++ x :: flatten x.children ++ b) := by
    rw [List.append_assoc]
    exact (List.sublist_append_left _ b).trans (List.sublist_append_right a _)
  exact h2.trans h3

/-! ### 2. The generated tables (re-decided on every run) -/

/-- the layer `apply_configuration_defaults` writes is strictly below the layer of the model
specification, which is strictly below the layer of the override arguments, which is the outermost -/
theorem defaults_layer_below_user_layers :
    layers.idxOf defaultsLayer < layers.idxOf "model_override" ∧
    layers.idxOf "model_override" < layers.idxOf "override" ∧
    layers.idxOf "override" + 1 = layers.length ∧ outermost = "override" := by decide

/-- `configuration.py` writes the model specification at `model_override` and the `configuration=`
argument at `override` -/
theorem user_updates_target :
    layerOfUpdate "model_specification" = some "model_override" ∧
    layerOfUpdate "configuration" = some "override" := by decide

/-- `~/vivarium.yaml` is written at `user_configs`, which is below the layer of the component defaults
(a value from that file is a fallback, it does not beat a default) -/
theorem home_layer_below_defaults :
    layerOfUpdate "user_config_path" = some "user_configs" ∧
    layers.idxOf "user_configs" < layers.idxOf defaultsLayer := by decide

/-- the two user layers are the two outermost layers, in this order -/
theorem user_layers_on_top :
    layers = layers.take (layers.length - 2) ++ ["model_override", "override"] := by decide

/-- `SimulationContext.setup`: `configuration.freeze()` precedes `setup_components`, which is called
exactly once, after the lifecycle has left `initialization` -/
theorem freeze_precedes_setup :
    setupActs.idxOf Act.freeze < setupActs.idxOf Act.setupComponents ∧
    setupActs.idxOf Act.setupComponents < setupActs.length ∧
    (∀ b, frozenFirst b setupActs = true) ∧ (∀ b, endsFrozen b setupActs = true) ∧
    (∀ b, endsStarted b setupActs = true) ∧ nSetup setupActs = 1 := by
  refine ⟨by decide, by decide, ?_, ?_, ?_, by decide⟩ <;> intro b <;> cases b <;> decide

/-- `SimulationContext.add_components` is admitted in `initialization` only -/
theorem add_components_only_initialization :
    (Viv.Gen.constraints.filter fun c => c.method == "self.add_components").map
      (fun c => (c.file, c.mode, c.states)) = [("framework/engine.py", .allow, ["initialization"])] := by decide

/-! ### 3. Layered lookup -/

theorem defaultsLayer_ne : defaultsLayer ≠ "override" ∧ defaultsLayer ≠ "model_override" := by decide

/-- a value at `override` is what `get` returns, whatever else the configuration holds -/
theorem override_wins (c : Config) (hwf : c.WF) (p : Path) (v : Val)
    (h : (⟨"override", p, v⟩ : Entry) ∈ c.entries) : c.get p = some v := by
  unfold Config.get
  rw [user_layers_on_top]
  have := getIn_split c p v (layers.take (layers.length - 2) ++ ["model_override"]) [] "override"
    (atLayer_of_mem c hwf _ _ _ h) (by simp)
  simpa using this

/-- a value at `model_override` is what `get` returns unless there is one at `override` -/
theorem model_wins (c : Config) (hwf : c.WF) (p : Path) (v : Val)
    (h : (⟨"model_override", p, v⟩ : Entry) ∈ c.entries)
    (hno : ∀ e ∈ c.entries, ¬ (e.layer = "override" ∧ e.path = p)) : c.get p = some v := by
  unfold Config.get
  rw [user_layers_on_top]
  have := getIn_split c p v (layers.take (layers.length - 2)) ["override"] "model_override"
    (atLayer_of_mem c hwf _ _ _ h) (by
      intro l hl
      simp only [List.mem_singleton] at hl
      subst hl
      exact atLayer_none c _ p hno)
  simpa using this

/-- an override argument beats a model-specification value for the same key -/
theorem override_beats_model (c : Config) (hwf : c.WF) (p : Path) (v w : Val)
    (ho : (⟨"override", p, v⟩ : Entry) ∈ c.entries) (_hm : (⟨"model_override", p, w⟩ : Entry) ∈ c.entries) :
    c.get p = some v := override_wins c hwf p v ho

/-! ### 4. The whole bootstrap: `SimulationContext(...)` + `setup()` -/

/-- everything that is known once `simulate` has succeeded -/
theorem accepted (sc : Script) (user : List (String × Path × Val)) (mgrs : List (String × Defaults))
    (ts : List Tree) (s : Sim) (h : simulate sc user mgrs ts = .ok s) :
    (∀ u ∈ user, u.1 = "model_specification" ∨ u.1 = "configuration" ∨ u.1 = "user_config_path") ∧
    s.cfg.entries = user.map userEntry ++ mgrEntries mgrs ++ compEntries (preorderL ts) ∧
    s.cfg.WF ∧ s.cfg.frozen = true ∧ s.started = true ∧
    s.log = mgrs.map (·.1) ++ (preorderL ts).map Tree.name ∧ s.log.Nodup ∧
    (∀ x ∈ s.tried, x.2.2 = false) ∧ (∀ x ∈ s.seen, x.2 = sc.probes.map s.cfg.get) := by
  obtain ⟨s1, s2, s3, h1, h2, h3, h4⟩ := simulate_ok sc user mgrs ts s h
  obtain ⟨hu, he, hwf, hfr, hst, hlog, hseen, htried, hm, hc⟩ := bootstrap_ok user mgrs ts s1 s2 s3 h1 h2 h3
  obtain ⟨_, hr⟩ := setup_ok sc s3 s h4
  obtain ⟨hff, hef, hes, hn1⟩ := freeze_precedes_setup.2.2
  have q := runActs_quiet sc setupActs s3 s hr (hff _)
  obtain ⟨_, _, hf', hs', hl', hnd⟩ := runActs_steps sc setupActs s3 s hr
  rw [hn1] at hl' hnd
  have hget := get_of_entries s3.cfg s.cfg q.entries
  obtain ⟨tn, ht, htf⟩ := q.tried
  obtain ⟨sn, hsn, hsf⟩ := q.seen
  refine ⟨hu, by rw [q.entries, he], ?_, by rw [hf', hef], by rw [hs', hes], ?_, ?_, ?_, ?_⟩
  · exact wf_of_entries s3.cfg s.cfg q.entries hwf
  · rw [hl', hlog, hm, hc]; simp
  · rw [hl', hlog, hm, hc]; simpa [hm, hc] using hnd (by decide)
  · intro x hx; rw [ht, htried] at hx; exact htf x (by simpa using hx)
  · intro x hx; rw [hsn, hseen] at hx; rw [hget]; exact hsf x (by simpa using hx)

/-- managers first (in the order given), then the components in flattening order, nothing else, and
nothing twice: every supplied component, however deeply nested, is set up exactly once -/
theorem setup_order (sc : Script) (user : List (String × Path × Val)) (mgrs : List (String × Defaults))
    (ts : List Tree) (s : Sim) (h : simulate sc user mgrs ts = .ok s) :
    s.log = mgrs.map (·.1) ++ (flatten ts).map Tree.name ∧ s.log.Nodup := by
  obtain ⟨_, _, _, _, _, hl, hn, _⟩ := accepted sc user mgrs ts s h
  rw [flatten_eq]; exact ⟨hl, hn⟩

/-- a name that occurs twice anywhere in the forest, or that is also the name of a manager, makes the
bootstrap fail (at registration or, for a manager's name, when `setup_components` joins the two sets) -/
theorem dup_rejected (sc : Script) (user : List (String × Path × Val)) (mgrs : List (String × Defaults))
    (ts : List Tree) (h : ¬ (mgrs.map (·.1) ++ (flatten ts).map Tree.name).Nodup) :
    ∃ e, simulate sc user mgrs ts = .error e := by
  cases hs : simulate sc user mgrs ts with
  | error e => exact ⟨e, rfl⟩
  | ok s =>
    obtain ⟨hl, hn⟩ := setup_order sc user mgrs ts s hs
    exact absurd (hl ▸ hn) h

/-- the same at the level of one `add_components` call on any context state: a name already
registered, or repeated inside the supplied forest, is refused -/
theorem dup_rejected_at_registration (s : Sim) (ts : List Tree) (hs : s.components.Nodup)
    (h : ¬ (s.components ++ (flatten ts).map Tree.name).Nodup) : ∃ e, addComponents s ts = .error e := by
  cases hr : addComponents s ts with
  | error e => exact ⟨e, rfl⟩
  | ok s' =>
    obtain ⟨_, _, hc, hn, _⟩ := addComponents_ok s s' ts hr
    rw [flatten_eq] at h
    exact absurd (hc ▸ hn hs) h

/-- a user-supplied value is what the configuration returns after the bootstrap — for EVERY forest
(hence every order of supplying the components), every set of component and manager defaults:
override arguments always, model-specification values unless overridden by an argument -/
theorem user_wins (sc : Script) (user : List (String × Path × Val)) (mgrs : List (String × Defaults))
    (ts : List Tree) (s : Sim) (h : simulate sc user mgrs ts = .ok s) (p : Path) (v : Val) :
    (("configuration", p, v) ∈ user → s.cfg.get p = some v) ∧
    (("model_specification", p, v) ∈ user → (∀ w, ("configuration", p, w) ∉ user) → s.cfg.get p = some v) := by
  obtain ⟨hu, he, hwf, _⟩ := accepted sc user mgrs ts s h
  obtain ⟨hms, hcf⟩ := user_updates_target
  constructor
  · intro hm
    apply override_wins s.cfg hwf
    rw [he]
    refine List.mem_append_left _ (List.mem_append_left _ (List.mem_map.mpr ⟨_, hm, ?_⟩))
    simp [userEntry, hcf]
  · intro hm hno
    apply model_wins s.cfg hwf
    · rw [he]
      refine List.mem_append_left _ (List.mem_append_left _ (List.mem_map.mpr ⟨_, hm, ?_⟩))
      simp [userEntry, hms]
    · intro e hmem ⟨hl, hp⟩
      rw [he] at hmem
      rcases List.mem_append.mp hmem with hmem | hmem
      · rcases List.mem_append.mp hmem with hmem | hmem
        · obtain ⟨u, huu, rfl⟩ := List.mem_map.mp hmem
          obtain ⟨w, q, x⟩ := u
          rcases hu _ huu with hw | hw | hw <;> simp only at hw <;> subst hw
          · simp [userEntry, hms] at hl
          · simp only [userEntry] at hp; subst hp; exact hno x huu
          · simp [userEntry, home_layer_below_defaults.1] at hl
        · simp only [mgrEntries, mkEntries, List.mem_flatMap, List.mem_map] at hmem
          obtain ⟨_, _, _, _, rfl⟩ := hmem
          exact defaultsLayer_ne.1 hl
      · simp only [compEntries, mkEntries, List.mem_flatMap, List.mem_map] at hmem
        obtain ⟨_, _, _, _, rfl⟩ := hmem
        exact defaultsLayer_ne.1 hl

/-- … in particular the value does not depend on the forest, the managers or the script at all:
any two accepted bootstraps with the same user values agree on every user-supplied key -/
theorem user_wins_any_order (sc sc' : Script) (user : List (String × Path × Val))
    (mgrs mgrs' : List (String × Defaults)) (ts ts' : List Tree) (s s' : Sim)
    (h : simulate sc user mgrs ts = .ok s) (h' : simulate sc' user mgrs' ts' = .ok s') (p : Path) (v : Val)
    (hu : ("configuration", p, v) ∈ user ∨
          (("model_specification", p, v) ∈ user ∧ ∀ w, ("configuration", p, w) ∉ user)) :
    s.cfg.get p = some v ∧ s'.cfg.get p = some v := by
  rcases hu with hu | ⟨hu, hno⟩
  · exact ⟨(user_wins sc user mgrs ts s h p v).1 hu, (user_wins sc' user mgrs' ts' s' h' p v).1 hu⟩
  · exact ⟨(user_wins sc user mgrs ts s h p v).2 hu hno, (user_wins sc' user mgrs' ts' s' h' p v).2 hu hno⟩

/-- two components (anywhere in the forest), or a component and a manager, that default the same
key make the bootstrap fail — whatever the user supplies for that key -/
theorem two_defaults_rejected (sc : Script) (user : List (String × Path × Val))
    (mgrs : List (String × Defaults)) (ts : List Tree)
    (h : ¬ (mgrs.flatMap (fun m => m.2.map (·.1)) ++
            (flatten ts).flatMap (fun t => t.defaults.map (·.1))).Nodup) :
    ∃ e, simulate sc user mgrs ts = .error e := by
  cases hs : simulate sc user mgrs ts with
  | error e => exact ⟨e, rfl⟩
  | ok s =>
    exfalso; apply h
    obtain ⟨_, he, hwf, _⟩ := accepted sc user mgrs ts s hs
    have hwf := hwf.1
    unfold Config.keys at hwf
    rw [he, List.append_assoc, List.map_append] at hwf
    have hk := (List.nodup_append.mp hwf).2.1
    have : (mgrEntries mgrs ++ compEntries (preorderL ts)).map Entry.key =
        (mgrs.flatMap (fun m => m.2.map (·.1)) ++
          (preorderL ts).flatMap (fun t => t.defaults.map (·.1))).map (fun p => (defaultsLayer, p)) := by
      simp [mgrEntries, compEntries, mkEntries, List.map_flatMap, Entry.key, Function.comp_def]
    rw [this] at hk
    rw [flatten_eq]
    exact nodup_of_map _ _ hk

/-- the same key defaulted at different depths: if one default path (of a manager or of a component
anywhere in the forest) lies strictly below another one, the bootstrap fails -/
theorem conflicting_defaults_rejected (sc : Script) (user : List (String × Path × Val))
    (mgrs : List (String × Defaults)) (ts : List Tree) (p q : Path)
    (hp : p ∈ mgrs.flatMap (fun m => m.2.map (·.1)) ++ (flatten ts).flatMap (fun t => t.defaults.map (·.1)))
    (hq : q ∈ mgrs.flatMap (fun m => m.2.map (·.1)) ++ (flatten ts).flatMap (fun t => t.defaults.map (·.1)))
    (hne : p ≠ q) (hpq : Config.under p q = true) :
    ∃ e, simulate sc user mgrs ts = .error e := by
  cases hs : simulate sc user mgrs ts with
  | error e => exact ⟨e, rfl⟩
  | ok s =>
    exfalso
    obtain ⟨_, he, hwf, _⟩ := accepted sc user mgrs ts s hs
    have hmem : ∀ x, x ∈ mgrs.flatMap (fun m => m.2.map (·.1)) ++ (flatten ts).flatMap (fun t => t.defaults.map (·.1)) →
        ∃ e ∈ s.cfg.entries, e.path = x := by
      intro x hx
      rw [flatten_eq] at hx
      rw [he]
      rcases List.mem_append.mp hx with hx | hx
      · simp only [List.mem_flatMap, List.mem_map] at hx
        obtain ⟨m, hm, kv, hkv, rfl⟩ := hx
        refine ⟨⟨defaultsLayer, kv.1, kv.2⟩, ?_, rfl⟩
        apply List.mem_append_left; apply List.mem_append_right
        simp only [mgrEntries, mkEntries, List.mem_flatMap, List.mem_map]
        exact ⟨m, hm, kv, hkv, rfl⟩
      · simp only [List.mem_flatMap, List.mem_map] at hx
        obtain ⟨t, ht, kv, hkv, rfl⟩ := hx
        refine ⟨⟨defaultsLayer, kv.1, kv.2⟩, ?_, rfl⟩
        apply List.mem_append_right
        simp only [compEntries, mkEntries, List.mem_flatMap, List.mem_map]
        exact ⟨t, ht, kv, hkv, rfl⟩
    obtain ⟨e1, h1, rfl⟩ := hmem p hp
    obtain ⟨e2, h2, rfl⟩ := hmem q hq
    have := hwf.2 e1 h1 e2 h2 hne
    rw [this] at hpq; cases hpq

/-- … and in general no accepted bootstrap ends with a value at a key and another one strictly below
it – whoever supplied them (user layers included) -/
theorem accepted_prefix_free (sc : Script) (user : List (String × Path × Val)) (mgrs : List (String × Defaults))
    (ts : List Tree) (s : Sim) (h : simulate sc user mgrs ts = .ok s) : s.cfg.PF :=
  (accepted sc user mgrs ts s h).2.2.1.2

/-! FULL STATEMENT (not provable – false of the system as it is, recorded finding F18):

    theorem frozen_after_setup_partial … (h : simulate sc user mgrs ts = .ok s) :
        every operation on the configuration object that a component or the user can perform
        after setup() has begun leaves `s.cfg.get` unchanged

`layered_config_tree` (4.1.9) checks `_frozen` in `update`, attribute and item ASSIGNMENT but not in
`__delattr__` / `__delitem__`: `del builder.configuration.<key>` from a component's `setup` is
accepted and the key is gone for everything that runs later. The model reproduces the library
(`Config.delete` ignores `frozen`); `delete_ignores_freeze` below is the witness of the negation, the
harness replays it on the real code on every run (signature `config-delete-after-freeze`).
What is proved is the statement for every WRITE (update / assignment): the probe script of the model
(`Script.attempts`) contains writes only – that is the excluded input class. -/

/-- (partial: writes, not deletions – see above) once `setup()` has run the configuration is frozen:
every further write is refused, every write attempted from inside a component's or manager's
`setup` was refused, every object saw the same (final) values while it was set up, and neither
`add_components` nor a second `setup()` is admitted -/
theorem frozen_after_setup_partial (sc : Script) (user : List (String × Path × Val)) (mgrs : List (String × Defaults))
    (ts : List Tree) (s : Sim) (h : simulate sc user mgrs ts = .ok s) :
    (∀ l p v, s.cfg.update l p v = .error .frozen) ∧ (∀ x ∈ s.tried, x.2.2 = false) ∧
    (∀ x ∈ s.seen, x.2 = sc.probes.map s.cfg.get) ∧
    (∀ ts', addComponents s ts' = .error .constraint) ∧ (∀ sc', setup sc' s = .error .transition) := by
  obtain ⟨_, _, _, hf, hst, _, _, ht, hse⟩ := accepted sc user mgrs ts s h
  exact ⟨fun l p v => update_frozen _ l p v hf, ht, hse, fun _ => by simp [addComponents, hst],
         fun _ => by simp [setup, hst]⟩

/-- the same for ANY context state in which `setup()` is admitted: nothing is written during setup
and the configuration is frozen afterwards -/
theorem setup_writes_nothing (sc : Script) (s s' : Sim) (h : setup sc s = .ok s') :
    s'.cfg.entries = s.cfg.entries ∧ s'.cfg.frozen = true ∧
    (∃ new, s'.tried = s.tried ++ new ∧ ∀ x ∈ new, x.2.2 = false) := by
  obtain ⟨_, hr⟩ := setup_ok sc s s' h
  obtain ⟨hff, hef, _, _⟩ := freeze_precedes_setup.2.2
  have q := runActs_quiet sc setupActs s s' hr (hff _)
  obtain ⟨_, _, hf', _⟩ := runActs_steps sc setupActs s s' hr
  exact ⟨q.entries, by rw [hf', hef], q.tried⟩

/-- witness of the negation of the full statement (F18): after ANY accepted bootstrap – the
configuration is frozen – deleting a key still goes through: the frozen flag stays set, and every
value at or below the key, user-supplied or not, is gone -/
theorem delete_ignores_freeze (sc : Script) (user : List (String × Path × Val)) (mgrs : List (String × Defaults))
    (ts : List Tree) (s : Sim) (h : simulate sc user mgrs ts = .ok s) (key : String) (p : Path)
    (hp : Config.under key p = true) :
    s.cfg.frozen = true ∧ (s.cfg.delete key).frozen = true ∧ (s.cfg.delete key).get p = none := by
  obtain ⟨_, _, _, hf, _⟩ := accepted sc user mgrs ts s h
  exact ⟨hf, hf, get_delete_none s.cfg key p hp⟩

/-! ### Non-vacuity: the hypotheses are inhabited and the error branches are reachable -/

def t1 : List Tree :=
  [.node "a" [("s.k", "1")] [.node "b" [] [.node "d" [("s.j", "2")] []], .node "c" [] []], .node "e" [("t.k", "3")] []]
def m1 : List (String × Defaults) := [("clock", [("time.step", "1")]), ("population_manager", [("population.size", "100")])]
def u1 : List (String × Path × Val) :=
  [("model_specification", "s.k", "10"), ("model_specification", "t.k", "30"), ("configuration", "t.k", "300")]
def sc1 : Script := { probes := ["s.k", "t.k", "s.j", "zz"], attempts := [("b", "s.k", "99"), ("e", "new.key", "5")] }

/-- the stack loop on a nested forest -/
theorem witness_flatten : (flatten t1).map Tree.name = ["a", "b", "d", "c", "e"] := by decide

/-- an accepted bootstrap: managers first, every component once, user values win (override 300 over
model-specification 30 over default 3; model-specification 10 over default 1; default 2 alone), every
write from `setup` refused -/
theorem witness_accepted :
    (simulate sc1 u1 m1 t1).toOption.map (·.log) =
      some ["clock", "population_manager", "a", "b", "d", "c", "e"] ∧
    (simulate sc1 u1 m1 t1).toOption.map (fun s => sc1.probes.map s.cfg.get) =
      some [some "10", some "300", some "2", none] ∧
    (simulate sc1 u1 m1 t1).toOption.map (·.tried) =
      some [("b", "s.k", false), ("e", "new.key", false)] := by decide

/-- every rejection class is reachable: duplicate name deep in the forest, a manager's name, two
components defaulting one key, a component defaulting a manager's key, the same override twice -/
theorem witness_rejected :
    simulate sc1 u1 m1 (t1 ++ [.node "x" [] [.node "d" [] []]]) = .error .dupName ∧
    simulate sc1 u1 m1 (t1 ++ [.node "population_manager" [] []]) = .error .dupName ∧
    simulate sc1 u1 m1 (t1 ++ [.node "x" [("s.j", "7")] []]) = .error .dupValue ∧
    simulate sc1 u1 m1 (t1 ++ [.node "x" [("population.size", "7")] []]) = .error .dupValue ∧
    simulate sc1 (u1 ++ [("configuration", "t.k", "301")]) m1 t1 = .error .dupValue := by decide

/-- … and the shape conflicts: a component defaulting a key below another component's leaf, a
component defaulting a whole section a manager uses, a user value below a default; a value from
`~/vivarium.yaml` loses to a default and to the model specification and is used where nobody else speaks -/
theorem witness_depths_and_home :
    simulate sc1 u1 m1 (t1 ++ [.node "x" [("s.j.deep", "7")] []]) = .error .structure ∧
    simulate sc1 u1 m1 (t1 ++ [.node "x" [("population", "7")] []]) = .error .structure ∧
    simulate sc1 (u1 ++ [("configuration", "s.j.deep", "1")]) m1 t1 = .error .structure ∧
    (simulate sc1 (("user_config_path", "s.j", "70") :: ("user_config_path", "s.k", "71") ::
        ("user_config_path", "zz", "72") :: u1) m1 t1).toOption.map (fun s => sc1.probes.map s.cfg.get) =
      some [some "10", some "300", some "2", some "72"] := by decide

/-- … concretely: the user's override `t.k = 300` of `witness_accepted` is lost by `del cfg.t` -/
theorem witness_delete_after_freeze :
    (simulate sc1 u1 m1 t1).toOption.map (fun s => (s.cfg.get "t.k", (s.cfg.delete "t").get "t.k", (s.cfg.delete "t").get "s.k")) =
      some (some "300", none, some "10") := by decide

/-! ### 5. Refused operations (lesson 16): a context survives a refused `add_components` and a `setup` that raises

`add_components` is not transactional (`Viv.Components.addComponentsK` returns the state a call leaves behind together
with its verdict; a caller may catch the error and go on with the same context). What is proved about ANY history of
accepted and refused calls: the verdicts are those of the all-or-nothing reading; a call only ever APPENDS entries at
the defaults layer (a prefix of the defaults of its flattened components) and names to the component set; nothing is
taken back; so no refusal – and no sequence of refusals, corrected batches and repeats – changes what the
configuration returns at a key the user supplied, and every component of every ACCEPTED call is set up exactly once. -/

/-- the verdict of a call is that of the all-or-nothing model (`addComponentsK` only adds the state left behind) -/
theorem refused_batch_same_verdict (s : Sim) (ts : List Tree) :
    (∀ s', addComponents s ts = .ok s' ↔ addComponentsK s ts .none = (s', none)) ∧
    (∀ e, addComponents s ts = .error e ↔ (addComponentsK s ts .none).2 = some e) := by
  have h := addComponentsK_agree s ts
  rcases hk : addComponentsK s ts .none with ⟨s1, _ | e1⟩ <;> rw [hk] at h <;> simp only at h <;> rw [h]
  · exact ⟨fun s' => by simp, fun e => by simp⟩
  · exact ⟨fun s' => by simp, fun e => by simp⟩

/-- what ANY call leaves behind (accepted, refused for a name / a default / the structure, or interrupted by an exception
of the user's `sub_components` / `configuration_defaults`): new entries only at the defaults layer – a prefix of the
defaults of the flattened batch –, a prefix of its names appended to the component set (all of them iff accepted),
no duplicate names, the managers / freeze flag / lifecycle / setup logs untouched, the configuration still well-formed -/
theorem refused_batch_leaves (s : Sim) (ts : List Tree) (f : Fault) :
    ∃ added k, (addComponentsK s ts f).1.cfg.entries = s.cfg.entries ++ added ∧
      added <+: compEntries (flatten ts) ∧ (∀ e ∈ added, e.layer = defaultsLayer) ∧
      (addComponentsK s ts f).1.components = s.components ++ ((flatten ts).take k).map Tree.name ∧
      ((addComponentsK s ts f).2 = none → k = (flatten ts).length ∧ added = compEntries (flatten ts)) ∧
      (s.components.Nodup → (addComponentsK s ts f).1.components.Nodup) ∧
      (s.cfg.WF → (addComponentsK s ts f).1.cfg.WF) ∧
      (addComponentsK s ts f).1.managers = s.managers ∧ (addComponentsK s ts f).1.cfg.frozen = s.cfg.frozen ∧
      (addComponentsK s ts f).1.started = s.started ∧ (addComponentsK s ts f).1.log = s.log := by
  obtain ⟨added, k, hg, hp, hc, hn, hm, hfull⟩ := addComponentsK_spec s ts f
  exact ⟨added, k, hg.entries, hp, fun e he => compEntries_layer _ e (hp.subset he), hc, hfull, hn, hg.wf, hm,
    hg.frozen, hg.started, hg.log⟩

/-- a state reached from `s` by appending entries at the defaults layer reads every user-supplied key as before -/
theorem user_value_survives (c c' : Config) (added : List Entry) (he : c'.entries = c.entries ++ added)
    (hl : ∀ e ∈ added, e.layer = defaultsLayer) (hwf : c'.WF) (p : Path) (v : Val) :
    ((⟨"override", p, v⟩ : Entry) ∈ c.entries → c'.get p = some v) ∧
    ((⟨"model_override", p, v⟩ : Entry) ∈ c.entries →
      (∀ e ∈ c.entries, ¬ (e.layer = "override" ∧ e.path = p)) → c'.get p = some v) := by
  constructor
  · intro h
    exact override_wins c' hwf p v (by rw [he]; exact List.mem_append_left _ h)
  · intro h hno
    apply model_wins c' hwf p v (by rw [he]; exact List.mem_append_left _ h)
    intro e hmem ⟨hlay, hp⟩
    rw [he] at hmem
    rcases List.mem_append.mp hmem with hmem | hmem
    · exact hno e hmem ⟨hlay, hp⟩
    · exact defaultsLayer_ne.1 ((hl e hmem).symm.trans hlay)

/-- a refused (or accepted) call never changes the value read at a key the user supplied: an override argument
always, a model-specification value unless an override argument names the key -/
theorem refused_batch_keeps_user_value (s : Sim) (ts : List Tree) (f : Fault) (hwf : s.cfg.WF) (p : Path) (v : Val) :
    ((⟨"override", p, v⟩ : Entry) ∈ s.cfg.entries → (addComponentsK s ts f).1.cfg.get p = some v) ∧
    ((⟨"model_override", p, v⟩ : Entry) ∈ s.cfg.entries →
      (∀ e ∈ s.cfg.entries, ¬ (e.layer = "override" ∧ e.path = p)) → (addComponentsK s ts f).1.cfg.get p = some v) := by
  obtain ⟨added, _, he, _, hl, _, _, _, hw, _⟩ := refused_batch_leaves s ts f
  exact user_value_survives s.cfg _ added he hl (hw hwf) p v

/-- … nor does any HISTORY of calls (refusals caught, corrected batches, exact repeats, in any order) -/
theorem history_keeps_user_values (s : Sim) (bs : List (List Tree × Fault)) (hwf : s.cfg.WF) (p : Path) (v : Val) :
    ((⟨"override", p, v⟩ : Entry) ∈ s.cfg.entries → (addManyK s bs).cfg.get p = some v) ∧
    ((⟨"model_override", p, v⟩ : Entry) ∈ s.cfg.entries →
      (∀ e ∈ s.cfg.entries, ¬ (e.layer = "override" ∧ e.path = p)) → (addManyK s bs).cfg.get p = some v) := by
  obtain ⟨added, _, hg, hl, _, _, _⟩ := addManyK_spec bs s
  exact user_value_survives s.cfg _ added hg.entries hl (hg.wf hwf) p v

/-- the components of an ACCEPTED call stay registered through everything that follows -/
theorem accepted_batch_stays_registered (s : Sim) (pre post : List (List Tree × Fault)) (ts : List Tree) (f : Fault)
    (hacc : (addComponentsK (addManyK s pre) ts f).2 = none) :
    ∀ t ∈ flatten ts, t.name ∈ (addManyK s (pre ++ (ts, f) :: post)).components := by
  intro t ht
  obtain ⟨_, k, _, _, hc, _, _, hfull⟩ := addComponentsK_spec (addManyK s pre) ts f
  obtain ⟨hk, _⟩ := hfull hacc
  obtain ⟨_, more, _, _, hc', _, _⟩ := addManyK_spec post (addComponentsK (addManyK s pre) ts f).1
  have hsplit : addManyK s (pre ++ (ts, f) :: post) = addManyK (addComponentsK (addManyK s pre) ts f).1 post := by
    rw [addManyK_append]; simp [addManyK]
  rw [hsplit, hc', hc, hk, List.take_length]
  exact List.mem_append_left _ (List.mem_append_right _ (List.mem_map_of_mem ht))

/-- `setup()` from ANY state in which it is admitted: every manager, then every registered component, each exactly once -/
theorem setup_each_registered_once (sc : Script) (s s' : Sim) (h : setup sc s = .ok s') :
    s'.log = s.log ++ (s.managers ++ s.components) ∧ (s.managers ++ s.components).Nodup := by
  obtain ⟨_, hr⟩ := setup_ok sc s s' h
  obtain ⟨_, _, _, _, hl, hnd⟩ := runActs_steps sc setupActs s s' hr
  obtain ⟨_, _, _, hn1⟩ := freeze_precedes_setup.2.2
  rw [hn1] at hl hnd
  exact ⟨by simpa using hl, hnd (by decide)⟩

/-- the whole bootstrap with a history of accepted and refused calls before `setup()`: the user's values win, every
object read the final values, nothing could be written from `setup`, the log is the managers followed by the registered
components without repetition – and (previous two theorems) every component of an accepted call is among them -/
theorem user_wins_despite_refusals (sc : Script) (user : List (String × Path × Val)) (mgrs : List (String × Defaults))
    (bs : List (List Tree × Fault)) (s : Sim) (h : simulateK sc user mgrs bs = .ok s) (p : Path) (v : Val) :
    (("configuration", p, v) ∈ user → s.cfg.get p = some v) ∧
    (("model_specification", p, v) ∈ user → (∀ w, ("configuration", p, w) ∉ user) → s.cfg.get p = some v) ∧
    (∀ x ∈ s.seen, x.2 = sc.probes.map s.cfg.get) ∧ (∀ x ∈ s.tried, x.2.2 = false) ∧
    s.log = mgrs.map (·.1) ++ s.components ∧ s.log.Nodup ∧ s.cfg.frozen = true := by
  unfold simulateK at h
  obtain ⟨s1, h1, h⟩ := (bind_ok _ _ _).mp h
  obtain ⟨s2, h2, h⟩ := (bind_ok _ _ _).mp h
  obtain ⟨hu, g1, m1, c1⟩ := users_ok _ _ _ h1
  obtain ⟨g2, m2, _, c2⟩ := mgrs_ok _ _ _ h2
  have g12 := g1.trans g2
  have hwf2 : s2.cfg.WF := g12.wf (wf_empty _ rfl)
  have he2 : s2.cfg.entries = user.map userEntry ++ mgrEntries mgrs := by simpa using g12.entries
  obtain ⟨added, more, g3, hl3, hc3, _, hm3⟩ := addManyK_spec bs s2
  obtain ⟨hlog, hnd⟩ := setup_each_registered_once sc _ s h
  obtain ⟨_, hr⟩ := setup_ok sc _ s h
  obtain ⟨hff, hef, _, _⟩ := freeze_precedes_setup.2.2
  have q := runActs_quiet sc setupActs _ s hr (hff _)
  obtain ⟨hm', hc', hf', _, _, _⟩ := runActs_steps sc setupActs _ s hr
  have hget := get_of_entries (addManyK s2 bs).cfg s.cfg q.entries
  obtain ⟨hms, hcf⟩ := user_updates_target
  have hkeep := history_keeps_user_values s2 bs hwf2 p v
  have hlog0 : (addManyK s2 bs).log = [] := by rw [g3.log, g12.log]
  have hseen0 : (addManyK s2 bs).seen = [] := by rw [g3.seen, g12.seen]
  have htried0 : (addManyK s2 bs).tried = [] := by rw [g3.tried, g12.tried]
  have hmgr : (addManyK s2 bs).managers = mgrs.map (·.1) := by rw [hm3, m2, m1]; simp
  refine ⟨?_, ?_, ?_, ?_, ?_, ?_, by rw [hf', hef]⟩
  · intro hm
    rw [hget]
    apply hkeep.1
    rw [he2]
    exact List.mem_append_left _ (List.mem_map.mpr ⟨_, hm, by simp [userEntry, hcf]⟩)
  · intro hm hno
    rw [hget]
    apply hkeep.2
    · rw [he2]
      exact List.mem_append_left _ (List.mem_map.mpr ⟨_, hm, by simp [userEntry, hms]⟩)
    · intro e hmem ⟨hlay, hp⟩
      rw [he2] at hmem
      rcases List.mem_append.mp hmem with hmem | hmem
      · obtain ⟨u, huu, rfl⟩ := List.mem_map.mp hmem
        obtain ⟨w, q', x⟩ := u
        rcases hu _ huu with hw | hw | hw <;> simp only at hw <;> subst hw
        · simp [userEntry, hms] at hlay
        · simp only [userEntry] at hp; subst hp; exact hno x huu
        · simp [userEntry, home_layer_below_defaults.1] at hlay
      · simp only [mgrEntries, mkEntries, List.mem_flatMap, List.mem_map] at hmem
        obtain ⟨_, _, _, _, rfl⟩ := hmem
        exact defaultsLayer_ne.1 hlay
  · obtain ⟨sn, hsn, hsf⟩ := q.seen
    intro x hx; rw [hsn, hseen0] at hx; rw [hget]; exact hsf x (by simpa using hx)
  · obtain ⟨tn, ht, htf⟩ := q.tried
    intro x hx; rw [ht, htried0] at hx; exact htf x (by simpa using hx)
  · rw [hlog, hlog0, hmgr, hc']; simp
  · rw [hlog, hlog0]; simpa using hnd

/-- the ordinary bootstrap is the history with one accepted call -/
theorem simulate_is_history (sc : Script) (user : List (String × Path × Val)) (mgrs : List (String × Defaults))
    (ts : List Tree) (s : Sim) (h : simulate sc user mgrs ts = .ok s) :
    simulateK sc user mgrs [(ts, .none)] = .ok s := by
  obtain ⟨s1, s2, s3, h1, h2, h3, h4⟩ := simulate_ok sc user mgrs ts s h
  have hk := ((refused_batch_same_verdict s2 ts).1 s3).mp h3
  unfold simulateK
  rw [h1]; simp only [bind, Except.bind]
  rw [h2]; simp only [addManyK, List.foldl_cons, List.foldl_nil, hk]
  exact h4

/-- any two histories over the same user values – with or without the refused calls – agree on every user-supplied key -/
theorem refusals_do_not_matter (sc sc' : Script) (user : List (String × Path × Val))
    (mgrs mgrs' : List (String × Defaults)) (bs bs' : List (List Tree × Fault)) (s s' : Sim)
    (h : simulateK sc user mgrs bs = .ok s) (h' : simulateK sc' user mgrs' bs' = .ok s') (p : Path) (v : Val)
    (hu : ("configuration", p, v) ∈ user ∨
          (("model_specification", p, v) ∈ user ∧ ∀ w, ("configuration", p, w) ∉ user)) :
    s.cfg.get p = some v ∧ s'.cfg.get p = some v := by
  rcases hu with hu | ⟨hu, hno⟩
  · exact ⟨(user_wins_despite_refusals sc user mgrs bs s h p v).1 hu,
           (user_wins_despite_refusals sc' user mgrs' bs' s' h' p v).1 hu⟩
  · exact ⟨(user_wins_despite_refusals sc user mgrs bs s h p v).2.1 hu hno,
           (user_wins_despite_refusals sc' user mgrs' bs' s' h' p v).2.1 hu hno⟩

/-- in the generated `setup` skeleton every `setup_components` is preceded by a lifecycle transition (re-decided) -/
theorem set_precedes_setup : ∀ b, startedFirst b setupActs = true := by
  intro b; cases b <;> decide

/-- a `setup()` that raises because the `setup` of one object raises (caught by the caller): nothing was written, the
two sets are untouched, a prefix of managers ++ components has been set up, each once, every one of them read the
values the configuration had – and the context cannot go on: the configuration is frozen, a second `setup()` is an
invalid transition, `add_components` is refused by the lifecycle (C06 decides whether anything else may follow) -/
theorem setup_fault_leaves (sc : Script) (boom : String) (s : Sim) (hs : s.started = false) :
    ∃ names, (setupK sc boom s).1.cfg.entries = s.cfg.entries ∧
      (setupK sc boom s).1.managers = s.managers ∧ (setupK sc boom s).1.components = s.components ∧
      (setupK sc boom s).1.log = s.log ++ names ∧ names <+: (s.managers ++ s.components) ∧ names.Nodup ∧
      (∃ new, (setupK sc boom s).1.seen = s.seen ++ new ∧ ∀ x ∈ new, x.2 = sc.probes.map s.cfg.get) ∧
      (∃ new, (setupK sc boom s).1.tried = s.tried ++ new ∧ ∀ x ∈ new, x.2.2 = false) ∧
      ((setupK sc boom s).2 ≠ none →
        (∀ l p v, (setupK sc boom s).1.cfg.update l p v = .error .frozen) ∧
        (∀ sc', setup sc' (setupK sc boom s).1 = .error .transition) ∧
        (∀ ts, addComponents (setupK sc boom s).1 ts = .error .constraint)) := by
  obtain ⟨hff, _, _, hn1⟩ := freeze_precedes_setup.2.2
  obtain ⟨names, q, hm, hc, hl, _, h1, he⟩ := runActsK_spec sc boom setupActs s (hff _) (set_precedes_setup _)
  have hK : setupK sc boom s = runActsK sc boom setupActs s := by simp [setupK, hs]
  rw [hK]
  obtain ⟨hp, hnd⟩ := h1 (Nat.le_of_eq hn1)
  refine ⟨names, q.entries, hm, hc, hl, hp, hnd, q.seen, q.tried, ?_⟩
  intro hne
  obtain ⟨hf, hst⟩ := he hne
  exact ⟨fun l p v => update_frozen _ l p v hf, fun _ => by simp [setup, hst], fun _ => by simp [addComponents, hst]⟩

/-- `setupK` is `setup` when the object that would raise is not registered -/
theorem setup_fault_same_verdict (sc : Script) (boom : String) (s : Sim)
    (hb : (s.managers ++ s.components).contains boom = false) :
    setup sc s = match setupK sc boom s with
      | (s', none) => .ok s'
      | (_, some e) => .error e := by
  unfold setup setupK
  by_cases hs : s.started = true
  · simp [hs]
  · simp only [hs, Bool.false_eq_true, if_false]
    exact runActsK_agree sc boom setupActs s hb

/-- the user values of `witness_accepted` plus an override for a key that only a refused component will default -/
def u2 : List (String × Path × Val) := u1 ++ [("configuration", "x.u", "77")]

/-- non-vacuity on the concrete run of `witness_accepted` (user override `t.k = 300`, model specification `s.k = 10`):
a batch refused for a clashing default half-way (`x` defaults the user's key `x.u` and a fresh key, then `s.j`, which `d`
defaults) leaves `x`'s first defaults behind and its first member `w` registered – the user's 77 is still what is
read; the corrected component is refused for the leftover; a duplicate name deep in a tree; a `configuration_defaults`
that raises; a `sub_components` that raises; then `setup()` goes through and sets up everything registered once -/
def b1 : List (List Tree × Fault) :=
  [(t1, .none),
   ([.node "w" [("w.k", "1")] [], .node "x" [("x.u", "7"), ("x.new", "8"), ("s.j", "9"), ("x.never", "0")] []], .none),
   ([.node "x" [("x.u", "7"), ("x.new", "8")] []], .none),
   ([.node "y" [("y.k", "1")] [.node "d" [("y.j", "2")] []]], .none),
   ([.node "z1" [("z.a", "1")] [], .node "z2" [("z.b", "2")] []], .defs 1),
   ([.node "q" [("q.a", "1")] []], .sub)]

/-- the state in which the constructor hands the context to the caller: user values and managers -/
def boot (user : List (String × Path × Val)) (mgrs : List (String × Defaults)) : Except Err Sim := do
  let s ← user.foldlM (fun s u => userSet s u.1 u.2.1 u.2.2) ({} : Sim)
  mgrs.foldlM (fun s m => addManager s m.1 m.2) s

/-- the verdicts of a history of calls -/
def verdictsK (s : Sim) : List (List Tree × Fault) → List (Option Err)
  | [] => []
  | b :: bs => (addComponentsK s b.1 b.2).2 :: verdictsK (addComponentsK s b.1 b.2).1 bs

theorem witness_refusals :
    (boot u2 m1).toOption.map (fun s => verdictsK s b1) =
      some [none, some .dupValue, some .dupValue, some .dupName, some .userError, some .userError] ∧
    (simulateK sc1 u2 m1 b1).toOption.map (·.log) =
      some ["clock", "population_manager", "a", "b", "d", "c", "e", "w", "y", "z1"] ∧
    (simulateK sc1 u2 m1 b1).toOption.map
        (fun s => ["x.u", "t.k", "s.k", "x.new", "x.never", "y.k", "y.j", "z.a", "z.b", "q.a"].map s.cfg.get) =
      some [some "77", some "300", some "10", some "8", none, some "1", some "2", some "1", none, none] := by decide

/-- the run of `witness_accepted` with a `setup()` in which the `setup` of `d` raises -/
def r1 : Option (Sim × Option Err) := (boot u1 m1).toOption.map fun s => setupK sc1 "d" (addManyK s [(t1, .none)])

/-- … managers and `a`, `b`, `d` have been set up (each once, each read the user's values), `c`, `e` never; afterwards
the configuration is frozen, `setup()` and `add_components` are refused -/
theorem witness_setup_fault :
    r1.map (·.2) = some (some .userError) ∧
    r1.map (·.1.log) = some ["clock", "population_manager", "a", "b", "d"] ∧
    r1.map (fun r => r.1.seen.map (fun x => x.2.take 2)) = some (List.replicate 5 [some "10", some "300"]) ∧
    r1.map (·.1.cfg.frozen) = some true ∧
    r1.map (fun r => (setup sc1 r.1).toOption.isSome) = some false ∧
    r1.map (fun r => (addComponentsK r.1 [] .none).2) = some (some .constraint) := by decide

/-- "managers first", read from the working tree on every run: `setup_components` sets up
`self._managers + self._components` in that order, and the context adds the managers before the components -/
theorem gen_managers_first :
    Viv.Gen.setupComponentsOperands = ["_managers", "_components"] ∧
    Viv.Gen.managersAddedBeforeComponents = true := by decide

end Viv.Props.C20
