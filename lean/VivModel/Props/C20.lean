import VivModel.Model.Util
import VivModel.Lemmas.Components
/-! C20 — every component is set up once; user configuration always wins.

General part: for EVERY forest of components (any depth, fan-out, duplicates anywhere), every list
of managers with any defaults, every list of user values and every probe script (induction /
invariants over the executable model `Viv.Components`).
Generated part: the layer order, the layer each `update` writes to and the action order of
`SimulationContext.setup` are the tables regenerated from the working tree (`Viv.Gen`); the
statements about them are re-decided on every run and the general theorems are instantiated with
them, so a source edit that moves a layer or the `freeze()` call breaks an obligation here. -/
namespace Viv.Props.C20
open Viv.Components
open Viv.Gen (Act)

/-! ### 1. Flattening: the explicit stack of `_flatten` is the pre-order traversal -/

/-- the stack loop of `ComponentManager._flatten` computes the pre-order traversal of the forest -/
theorem flatten_preorder (ts : List Tree) : flatten ts = preorderL ts := flatten_eq ts

/-- every node of the forest comes out exactly as often as it occurs in the forest (for every
predicate on nodes: as many hits in the output as in the forest), and nothing else comes out -/
theorem flatten_each_once (ts : List Tree) (p : Tree → Bool) :
    (flatten ts).countP p = countL p ts ∧ (flatten ts).length = sizeL ts := by
  rw [flatten_eq]; exact ⟨preorderL_countP p ts, preorderL_length ts⟩

/-- supply order is preserved: flattening distributes over concatenation of the supplied lists -/
theorem flatten_supply_order (a b : List Tree) : flatten (a ++ b) = flatten a ++ flatten b := by
  simp only [flatten_eq, preorderL_append]

/-- a component comes first, then all its descendants, then whatever was supplied after it -/
theorem flatten_parent_first (n : String) (d : Defaults) (cs rest : List Tree) :
    flatten (.node n d cs :: rest) = .node n d cs :: (flatten cs ++ flatten rest) := by
  simp [flatten_eq, preorderL, preorder]

/-- wherever a component occurs in the forest, the output contains it immediately followed by the
flattening of its own sub-components (its subtree is one contiguous block that it heads) -/
theorem subtree_contiguous (ts : List Tree) (x : Tree) (h : x ∈ flatten ts) :
    ∃ a b, flatten ts = a ++ x :: flatten x.children ++ b := by
  rw [flatten_eq] at h
  obtain ⟨a, b, hab⟩ := preorderL_block ts x h
  exact ⟨a, b, by rw [flatten_eq, flatten_eq, hab, preorder_eq]⟩

/-- parent before child: for every occurrence of a component and each of its sub-components -/
theorem parent_before_child (ts : List Tree) (x c : Tree) (hx : x ∈ flatten ts) (hc : c ∈ x.children) :
    [x, c].Sublist (flatten ts) := by
  obtain ⟨a, b, hab⟩ := subtree_contiguous ts x hx
  rw [hab]
  have h1 : [c].Sublist (flatten x.children) := by
    rw [flatten_eq]; exact List.singleton_sublist.mpr (mem_preorderL_of_mem c _ hc)
  have h2 : [x, c].Sublist (x :: flatten x.children) := h1.cons_cons x
  have h3 : (x :: flatten x.children).Sublist (a ++ x :: flatten x.children ++ b) := by
    rw [List.append_assoc]
    exact (List.sublist_append_left _ b).trans (List.sublist_append_right a _)
  exact h2.trans h3

/-! ### 2. The generated tables (re-decided on every run) -/

/-- the layer `apply_configuration_defaults` writes is strictly below the layer of the model
specification, which is strictly below the layer of the override arguments, which is the outermost -/
theorem defaults_layer_below_user_layers :
    layers.idxOf defaultsLayer < layers.idxOf "model_override" ∧
    layers.idxOf "model_override" < layers.idxOf "override" ∧
    layers.idxOf "override" + 1 = layers.length ∧ outermost = "override" := by decide

/-- `configuration.py` writes the model specification at `model_override` and the `configuration=`
argument at `override` -/
theorem user_updates_target :
    layerOfUpdate "model_specification" = some "model_override" ∧
    layerOfUpdate "configuration" = some "override" := by decide

/-- `~/vivarium.yaml` is written at `user_configs`, which is below the layer of the component defaults
(a value from that file is a fallback, it does not beat a default) -/
theorem home_layer_below_defaults :
    layerOfUpdate "user_config_path" = some "user_configs" ∧
    layers.idxOf "user_configs" < layers.idxOf defaultsLayer := by decide

/-- the two user layers are the two outermost layers, in this order -/
theorem user_layers_on_top :
    layers = layers.take (layers.length - 2) ++ ["model_override", "override"] := by decide

/-- `SimulationContext.setup`: `configuration.freeze()` precedes `setup_components`, which is called
exactly once, after the lifecycle has left `initialization` -/
theorem freeze_precedes_setup :
    setupActs.idxOf Act.freeze < setupActs.idxOf Act.setupComponents ∧
    setupActs.idxOf Act.setupComponents < setupActs.length ∧
    (∀ b, frozenFirst b setupActs = true) ∧ (∀ b, endsFrozen b setupActs = true) ∧
    (∀ b, endsStarted b setupActs = true) ∧ nSetup setupActs = 1 := by
  refine ⟨by decide, by decide, ?_, ?_, ?_, by decide⟩ <;> intro b <;> cases b <;> decide

/-- `SimulationContext.add_components` is admitted in `initialization` only -/
theorem add_components_only_initialization :
    (Viv.Gen.constraints.filter fun c => c.method == "self.add_components").map
      (fun c => (c.file, c.mode, c.states)) = [("framework/engine.py", .allow, ["initialization"])] := by decide

/-! ### 3. Layered lookup -/

theorem defaultsLayer_ne : defaultsLayer ≠ "override" ∧ defaultsLayer ≠ "model_override" := by decide

/-- a value at `override` is what `get` returns, whatever else the configuration holds -/
theorem override_wins (c : Config) (hwf : c.WF) (p : Path) (v : Val)
    (h : (⟨"override", p, v⟩ : Entry) ∈ c.entries) : c.get p = some v := by
  unfold Config.get
  rw [user_layers_on_top]
  have := getIn_split c p v (layers.take (layers.length - 2) ++ ["model_override"]) [] "override"
    (atLayer_of_mem c hwf _ _ _ h) (by simp)
  simpa using this

/-- a value at `model_override` is what `get` returns unless there is one at `override` -/
theorem model_wins (c : Config) (hwf : c.WF) (p : Path) (v : Val)
    (h : (⟨"model_override", p, v⟩ : Entry) ∈ c.entries)
    (hno : ∀ e ∈ c.entries, ¬ (e.layer = "override" ∧ e.path = p)) : c.get p = some v := by
  unfold Config.get
  rw [user_layers_on_top]
  have := getIn_split c p v (layers.take (layers.length - 2)) ["override"] "model_override"
    (atLayer_of_mem c hwf _ _ _ h) (by
      intro l hl
      simp only [List.mem_singleton] at hl
      subst hl
      exact atLayer_none c _ p hno)
  simpa using this

/-- an override argument beats a model-specification value for the same key -/
theorem override_beats_model (c : Config) (hwf : c.WF) (p : Path) (v w : Val)
    (ho : (⟨"override", p, v⟩ : Entry) ∈ c.entries) (_hm : (⟨"model_override", p, w⟩ : Entry) ∈ c.entries) :
    c.get p = some v := override_wins c hwf p v ho

/-! ### 4. The whole bootstrap: `SimulationContext(...)` + `setup()` -/

/-- everything that is known once `simulate` has succeeded -/
theorem accepted (sc : Script) (user : List (String × Path × Val)) (mgrs : List (String × Defaults))
    (ts : List Tree) (s : Sim) (h : simulate sc user mgrs ts = .ok s) :
    (∀ u ∈ user, u.1 = "model_specification" ∨ u.1 = "configuration" ∨ u.1 = "user_config_path") ∧
    s.cfg.entries = user.map userEntry ++ mgrEntries mgrs ++ compEntries (preorderL ts) ∧
    s.cfg.WF ∧ s.cfg.frozen = true ∧ s.started = true ∧
    s.log = mgrs.map (·.1) ++ (preorderL ts).map Tree.name ∧ s.log.Nodup ∧
    (∀ x ∈ s.tried, x.2.2 = false) ∧ (∀ x ∈ s.seen, x.2 = sc.probes.map s.cfg.get) := by
  obtain ⟨s1, s2, s3, h1, h2, h3, h4⟩ := simulate_ok sc user mgrs ts s h
  obtain ⟨hu, he, hwf, hfr, hst, hlog, hseen, htried, hm, hc⟩ := bootstrap_ok user mgrs ts s1 s2 s3 h1 h2 h3
  obtain ⟨_, hr⟩ := setup_ok sc s3 s h4
  obtain ⟨hff, hef, hes, hn1⟩ := freeze_precedes_setup.2.2
  have q := runActs_quiet sc setupActs s3 s hr (hff _)
  obtain ⟨_, _, hf', hs', hl', hnd⟩ := runActs_steps sc setupActs s3 s hr
  rw [hn1] at hl' hnd
  have hget := get_of_entries s3.cfg s.cfg q.entries
  obtain ⟨tn, ht, htf⟩ := q.tried
  obtain ⟨sn, hsn, hsf⟩ := q.seen
  refine ⟨hu, by rw [q.entries, he], ?_, by rw [hf', hef], by rw [hs', hes], ?_, ?_, ?_, ?_⟩
  · exact wf_of_entries s3.cfg s.cfg q.entries hwf
  · rw [hl', hlog, hm, hc]; simp
  · rw [hl', hlog, hm, hc]; simpa [hm, hc] using hnd (by decide)
  · intro x hx; rw [ht, htried] at hx; exact htf x (by simpa using hx)
  · intro x hx; rw [hsn, hseen] at hx; rw [hget]; exact hsf x (by simpa using hx)

/-- managers first (in the order given), then the components in flattening order, nothing else, and
nothing twice: every supplied component, however deeply nested, is set up exactly once -/
theorem setup_order (sc : Script) (user : List (String × Path × Val)) (mgrs : List (String × Defaults))
    (ts : List Tree) (s : Sim) (h : simulate sc user mgrs ts = .ok s) :
    s.log = mgrs.map (·.1) ++ (flatten ts).map Tree.name ∧ s.log.Nodup := by
  obtain ⟨_, _, _, _, _, hl, hn, _⟩ := accepted sc user mgrs ts s h
  rw [flatten_eq]; exact ⟨hl, hn⟩

/-- a name that occurs twice anywhere in the forest, or that is also the name of a manager, makes the
bootstrap fail (at registration or, for a manager's name, when `setup_components` joins the two sets) -/
theorem dup_rejected (sc : Script) (user : List (String × Path × Val)) (mgrs : List (String × Defaults))
    (ts : List Tree) (h : ¬ (mgrs.map (·.1) ++ (flatten ts).map Tree.name).Nodup) :
    ∃ e, simulate sc user mgrs ts = .error e := by
  cases hs : simulate sc user mgrs ts with
  | error e => exact ⟨e, rfl⟩
  | ok s =>
    obtain ⟨hl, hn⟩ := setup_order sc user mgrs ts s hs
    exact absurd (hl ▸ hn) h

/-- the same at the level of one `add_components` call on any context state: a name already
registered, or repeated inside the supplied forest, is refused -/
theorem dup_rejected_at_registration (s : Sim) (ts : List Tree) (hs : s.components.Nodup)
    (h : ¬ (s.components ++ (flatten ts).map Tree.name).Nodup) : ∃ e, addComponents s ts = .error e := by
  cases hr : addComponents s ts with
  | error e => exact ⟨e, rfl⟩
  | ok s' =>
    obtain ⟨_, _, hc, hn, _⟩ := addComponents_ok s s' ts hr
    rw [flatten_eq] at h
    exact absurd (hc ▸ hn hs) h

/-- a user-supplied value is what the configuration returns after the bootstrap — for EVERY forest
(hence every order of supplying the components), every set of component and manager defaults:
override arguments always, model-specification values unless overridden by an argument -/
theorem user_wins (sc : Script) (user : List (String × Path × Val)) (mgrs : List (String × Defaults))
    (ts : List Tree) (s : Sim) (h : simulate sc user mgrs ts = .ok s) (p : Path) (v : Val) :
    (("configuration", p, v) ∈ user → s.cfg.get p = some v) ∧
    (("model_specification", p, v) ∈ user → (∀ w, ("configuration", p, w) ∉ user) → s.cfg.get p = some v) := by
  obtain ⟨hu, he, hwf, _⟩ := accepted sc user mgrs ts s h
  obtain ⟨hms, hcf⟩ := user_updates_target
  constructor
  · intro hm
    apply override_wins s.cfg hwf
    rw [he]
    refine List.mem_append_left _ (List.mem_append_left _ (List.mem_map.mpr ⟨_, hm, ?_⟩))
    simp [userEntry, hcf]
  · intro hm hno
    apply model_wins s.cfg hwf
    · rw [he]
      refine List.mem_append_left _ (List.mem_append_left _ (List.mem_map.mpr ⟨_, hm, ?_⟩))
      simp [userEntry, hms]
    · intro e hmem ⟨hl, hp⟩
      rw [he] at hmem
      rcases List.mem_append.mp hmem with hmem | hmem
      · rcases List.mem_append.mp hmem with hmem | hmem
        · obtain ⟨u, huu, rfl⟩ := List.mem_map.mp hmem
          obtain ⟨w, q, x⟩ := u
          rcases hu _ huu with hw | hw | hw <;> simp only at hw <;> subst hw
          · simp [userEntry, hms] at hl
          · simp only [userEntry] at hp; subst hp; exact hno x huu
          · simp [userEntry, home_layer_below_defaults.1] at hl
        · simp only [mgrEntries, mkEntries, List.mem_flatMap, List.mem_map] at hmem
          obtain ⟨_, _, _, _, rfl⟩ := hmem
          exact defaultsLayer_ne.1 hl
      · simp only [compEntries, mkEntries, List.mem_flatMap, List.mem_map] at hmem
        obtain ⟨_, _, _, _, rfl⟩ := hmem
        exact defaultsLayer_ne.1 hl

/-- … in particular the value does not depend on the forest, the managers or the script at all:
any two accepted bootstraps with the same user values agree on every user-supplied key -/
theorem user_wins_any_order (sc sc' : Script) (user : List (String × Path × Val))
    (mgrs mgrs' : List (String × Defaults)) (ts ts' : List Tree) (s s' : Sim)
    (h : simulate sc user mgrs ts = .ok s) (h' : simulate sc' user mgrs' ts' = .ok s') (p : Path) (v : Val)
    (hu : ("configuration", p, v) ∈ user ∨
          (("model_specification", p, v) ∈ user ∧ ∀ w, ("configuration", p, w) ∉ user)) :
    s.cfg.get p = some v ∧ s'.cfg.get p = some v := by
  rcases hu with hu | ⟨hu, hno⟩
  · exact ⟨(user_wins sc user mgrs ts s h p v).1 hu, (user_wins sc' user mgrs' ts' s' h' p v).1 hu⟩
  · exact ⟨(user_wins sc user mgrs ts s h p v).2 hu hno, (user_wins sc' user mgrs' ts' s' h' p v).2 hu hno⟩

/-- two components (anywhere in the forest), or a component and a manager, that default the same
key make the bootstrap fail — whatever the user supplies for that key -/
theorem two_defaults_rejected (sc : Script) (user : List (String × Path × Val))
    (mgrs : List (String × Defaults)) (ts : List Tree)
    (h : ¬ (mgrs.flatMap (fun m => m.2.map (·.1)) ++
            (flatten ts).flatMap (fun t => t.defaults.map (·.1))).Nodup) :
    ∃ e, simulate sc user mgrs ts = .error e := by
  cases hs : simulate sc user mgrs ts with
  | error e => exact ⟨e, rfl⟩
  | ok s =>
    exfalso; apply h
    obtain ⟨_, he, hwf, _⟩ := accepted sc user mgrs ts s hs
    have hwf := hwf.1
    unfold Config.keys at hwf
    rw [he, List.append_assoc, List.map_append] at hwf
    have hk := (List.nodup_append.mp hwf).2.1
    have : (mgrEntries mgrs ++ compEntries (preorderL ts)).map Entry.key =
        (mgrs.flatMap (fun m => m.2.map (·.1)) ++
          (preorderL ts).flatMap (fun t => t.defaults.map (·.1))).map (fun p => (defaultsLayer, p)) := by
      simp [mgrEntries, compEntries, mkEntries, List.map_flatMap, Entry.key, Function.comp_def]
    rw [this] at hk
    rw [flatten_eq]
    exact nodup_of_map _ _ hk

/-- the same key defaulted at different depths: if one default path (of a manager or of a component
anywhere in the forest) lies strictly below another one, the bootstrap fails -/
theorem conflicting_defaults_rejected (sc : Script) (user : List (String × Path × Val))
    (mgrs : List (String × Defaults)) (ts : List Tree) (p q : Path)
    (hp : p ∈ mgrs.flatMap (fun m => m.2.map (·.1)) ++ (flatten ts).flatMap (fun t => t.defaults.map (·.1)))
    (hq : q ∈ mgrs.flatMap (fun m => m.2.map (·.1)) ++ (flatten ts).flatMap (fun t => t.defaults.map (·.1)))
    (hne : p ≠ q) (hpq : Config.under p q = true) :
    ∃ e, simulate sc user mgrs ts = .error e := by
  cases hs : simulate sc user mgrs ts with
  | error e => exact ⟨e, rfl⟩
  | ok s =>
    exfalso
    obtain ⟨_, he, hwf, _⟩ := accepted sc user mgrs ts s hs
    have hmem : ∀ x, x ∈ mgrs.flatMap (fun m => m.2.map (·.1)) ++ (flatten ts).flatMap (fun t => t.defaults.map (·.1)) →
        ∃ e ∈ s.cfg.entries, e.path = x := by
      intro x hx
      rw [flatten_eq] at hx
      rw [he]
      rcases List.mem_append.mp hx with hx | hx
      · simp only [List.mem_flatMap, List.mem_map] at hx
        obtain ⟨m, hm, kv, hkv, rfl⟩ := hx
        refine ⟨⟨defaultsLayer, kv.1, kv.2⟩, ?_, rfl⟩
        apply List.mem_append_left; apply List.mem_append_right
        simp only [mgrEntries, mkEntries, List.mem_flatMap, List.mem_map]
        exact ⟨m, hm, kv, hkv, rfl⟩
      · simp only [List.mem_flatMap, List.mem_map] at hx
        obtain ⟨t, ht, kv, hkv, rfl⟩ := hx
        refine ⟨⟨defaultsLayer, kv.1, kv.2⟩, ?_, rfl⟩
        apply List.mem_append_right
        simp only [compEntries, mkEntries, List.mem_flatMap, List.mem_map]
        exact ⟨t, ht, kv, hkv, rfl⟩
    obtain ⟨e1, h1, rfl⟩ := hmem p hp
    obtain ⟨e2, h2, rfl⟩ := hmem q hq
    have := hwf.2 e1 h1 e2 h2 hne
    rw [this] at hpq; cases hpq

/-- … and in general no accepted bootstrap ends with a value at a key and another one strictly below
it – whoever supplied them (user layers included) -/
theorem accepted_prefix_free (sc : Script) (user : List (String × Path × Val)) (mgrs : List (String × Defaults))
    (ts : List Tree) (s : Sim) (h : simulate sc user mgrs ts = .ok s) : s.cfg.PF :=
  (accepted sc user mgrs ts s h).2.2.1.2

/-! FULL STATEMENT (not provable – false of the system as it is, recorded finding F18):

    theorem frozen_after_setup_partial … (h : simulate sc user mgrs ts = .ok s) :
        every operation on the configuration object that a component or the user can perform
        after setup() has begun leaves `s.cfg.get` unchanged

`layered_config_tree` (4.1.9) checks `_frozen` in `update`, attribute and item ASSIGNMENT but not in
`__delattr__` / `__delitem__`: `del builder.configuration.<key>` from a component's `setup` is
accepted and the key is gone for everything that runs later. The model reproduces the library
(`Config.delete` ignores `frozen`); `delete_ignores_freeze` below is the witness of the negation, the
harness replays it on the real code on every run (signature `config-delete-after-freeze`).
What is proved is the statement for every WRITE (update / assignment): the probe script of the model
(`Script.attempts`) contains writes only – that is the excluded input class. -/

/-- (partial: writes, not deletions – see above) once `setup()` has run the configuration is frozen:
every further write is refused, every write attempted from inside a component's or manager's
`setup` was refused, every object saw the same (final) values while it was set up, and neither
`add_components` nor a second `setup()` is admitted -/
theorem frozen_after_setup_partial (sc : Script) (user : List (String × Path × Val)) (mgrs : List (String × Defaults))
    (ts : List Tree) (s : Sim) (h : simulate sc user mgrs ts = .ok s) :
    (∀ l p v, s.cfg.update l p v = .error .frozen) ∧ (∀ x ∈ s.tried, x.2.2 = false) ∧
    (∀ x ∈ s.seen, x.2 = sc.probes.map s.cfg.get) ∧
    (∀ ts', addComponents s ts' = .error .constraint) ∧ (∀ sc', setup sc' s = .error .transition) := by
  obtain ⟨_, _, _, hf, hst, _, _, ht, hse⟩ := accepted sc user mgrs ts s h
  exact ⟨fun l p v => update_frozen _ l p v hf, ht, hse, fun _ => by simp [addComponents, hst],
         fun _ => by simp [setup, hst]⟩

/-- the same for ANY context state in which `setup()` is admitted: nothing is written during setup
and the configuration is frozen afterwards -/
theorem setup_writes_nothing (sc : Script) (s s' : Sim) (h : setup sc s = .ok s') :
    s'.cfg.entries = s.cfg.entries ∧ s'.cfg.frozen = true ∧
    (∃ new, s'.tried = s.tried ++ new ∧ ∀ x ∈ new, x.2.2 = false) := by
  obtain ⟨_, hr⟩ := setup_ok sc s s' h
  obtain ⟨hff, hef, _, _⟩ := freeze_precedes_setup.2.2
  have q := runActs_quiet sc setupActs s s' hr (hff _)
  obtain ⟨_, _, hf', _⟩ := runActs_steps sc setupActs s s' hr
  exact ⟨q.entries, by rw [hf', hef], q.tried⟩

/-- witness of the negation of the full statement (F18): after ANY accepted bootstrap – the
configuration is frozen – deleting a key still goes through: the frozen flag stays set, and every
value at or below the key, user-supplied or not, is gone -/
theorem delete_ignores_freeze (sc : Script) (user : List (String × Path × Val)) (mgrs : List (String × Defaults))
    (ts : List Tree) (s : Sim) (h : simulate sc user mgrs ts = .ok s) (key : String) (p : Path)
    (hp : Config.under key p = true) :
    s.cfg.frozen = true ∧ (s.cfg.delete key).frozen = true ∧ (s.cfg.delete key).get p = none := by
  obtain ⟨_, _, _, hf, _⟩ := accepted sc user mgrs ts s h
  exact ⟨hf, hf, get_delete_none s.cfg key p hp⟩

/-! ### Non-vacuity: the hypotheses are inhabited and the error branches are reachable -/

def t1 : List Tree :=
  [.node "a" [("s.k", "1")] [.node "b" [] [.node "d" [("s.j", "2")] []], .node "c" [] []], .node "e" [("t.k", "3")] []]
def m1 : List (String × Defaults) := [("clock", [("time.step", "1")]), ("population_manager", [("population.size", "100")])]
def u1 : List (String × Path × Val) :=
  [("model_specification", "s.k", "10"), ("model_specification", "t.k", "30"), ("configuration", "t.k", "300")]
def sc1 : Script := { probes := ["s.k", "t.k", "s.j", "zz"], attempts := [("b", "s.k", "99"), ("e", "new.key", "5")] }

/-- the stack loop on a nested forest -/
theorem witness_flatten : (flatten t1).map Tree.name = ["a", "b", "d", "c", "e"] := by decide

/-- an accepted bootstrap: managers first, every component once, user values win (override 300 over
model-specification 30 over default 3; model-specification 10 over default 1; default 2 alone), every
write from `setup` refused -/
theorem witness_accepted :
    (simulate sc1 u1 m1 t1).toOption.map (·.log) =
      some ["clock", "population_manager", "a", "b", "d", "c", "e"] ∧
    (simulate sc1 u1 m1 t1).toOption.map (fun s => sc1.probes.map s.cfg.get) =
      some [some "10", some "300", some "2", none] ∧
    (simulate sc1 u1 m1 t1).toOption.map (·.tried) =
      some [("b", "s.k", false), ("e", "new.key", false)] := by decide

/-- every rejection class is reachable: duplicate name deep in the forest, a manager's name, two
components defaulting one key, a component defaulting a manager's key, the same override twice -/
theorem witness_rejected :
    simulate sc1 u1 m1 (t1 ++ [.node "x" [] [.node "d" [] []]]) = .error .dupName ∧
    simulate sc1 u1 m1 (t1 ++ [.node "population_manager" [] []]) = .error .dupName ∧
    simulate sc1 u1 m1 (t1 ++ [.node "x" [("s.j", "7")] []]) = .error .dupValue ∧
    simulate sc1 u1 m1 (t1 ++ [.node "x" [("population.size", "7")] []]) = .error .dupValue ∧
    simulate sc1 (u1 ++ [("configuration", "t.k", "301")]) m1 t1 = .error .dupValue := by decide

/-- … and the shape conflicts: a component defaulting a key below another component's leaf, a
component defaulting a whole section a manager uses, a user value below a default; a value from
`~/vivarium.yaml` loses to a default and to the model specification and is used where nobody else speaks -/
theorem witness_depths_and_home :
    simulate sc1 u1 m1 (t1 ++ [.node "x" [("s.j.deep", "7")] []]) = .error .structure ∧
    simulate sc1 u1 m1 (t1 ++ [.node "x" [("population", "7")] []]) = .error .structure ∧
    simulate sc1 (u1 ++ [("configuration", "s.j.deep", "1")]) m1 t1 = .error .structure ∧
    (simulate sc1 (("user_config_path", "s.j", "70") :: ("user_config_path", "s.k", "71") ::
        ("user_config_path", "zz", "72") :: u1) m1 t1).toOption.map (fun s => sc1.probes.map s.cfg.get) =
      some [some "10", some "300", some "2", some "72"] := by decide

/-- … concretely: the user's override `t.k = 300` of `witness_accepted` is lost by `del cfg.t` -/
theorem witness_delete_after_freeze :
    (simulate sc1 u1 m1 t1).toOption.map (fun s => (s.cfg.get "t.k", (s.cfg.delete "t").get "t.k", (s.cfg.delete "t").get "s.k")) =
      some (some "300", none, some "10") := by decide

/-- "managers first", read from the working tree on every run: `setup_components` sets up
`self._managers + self._components` in that order, and the context adds the managers before the components -/
theorem gen_managers_first :
    Viv.Gen.setupComponentsOperands = ["_managers", "_components"] ∧
    Viv.Gen.managersAddedBeforeComponents = true := by decide

end Viv.Props.C20
