import VivModel.Model.Components
import VivModel.Lemmas.Components
import VivModel.Gen.Src
import VivModel.Lemmas.PyAst
import VivModel.Lemmas.PyState
/-!
# C20 — source tie: the component manager's registration and setup code evaluates to the model

`Gen.Src.cmFlatten`, `ocsContains`, `ocsAdd`, `cmAddComponents`, `cmSetupAll`, `cmSetupComponents` are the syntax trees of
`ComponentManager._flatten`, `OrderedComponentSet.__contains__` / `add`, `ComponentManager.add_components`,
`_setup_components` and `setup_components` in /repo's working tree (regenerated on every run by `vcheck/py2lean.py`).
They are evaluated in a world with a HEAP of mutable Python lists (`_flatten` pops from, extends and appends to lists it
allocates itself) and interprocedurally (`add_components` calls `_flatten` and `OrderedComponentSet.add`, which calls
`__contains__`):

* `flatten_run` - the explicit stack loop of `_flatten` returns `flatten ts` (= the pre-order traversal, C20
  `flatten_preorder`) in a new list and ends because the work list is empty (`while components:`), given one pass per
  component (`sizeL ts < fuel`);
* `contains_run`, `add_run` - the name test and `OrderedSet.add` (a refused component leaves the set as it was);
* `addComponents_run` - `add_components` leaves the state of `registerListK st (flatten ts)` and raises exactly when the
  model refuses: defaults applied and components registered before the refusal stay (C20 `refused_batch_leaves`);
* `setupAll_run`, `setupComponents_run` - managers then components, each set up once in order, the loop ending at the
  first `setup` that raises: `setupComponentsK`.

Modelled rather than verified here: the primitives of the world - `apply_configuration_defaults` (= `applyDefaultsK`; its
source is a try/except around `configuration.update`, tied by correspondence), `OrderedComponentSet.__add__` (=
`OrderedSet.addAll []` over both lists), `setup` / `setup_component` of one object (= `setupOne`, raising for `boom`),
`isinstance`; `_flatten` is proved for sequences of Components (the list/tuple and Manager branches of its `if` chain are
evaluated only as far as deciding that a Component takes neither).
-/
namespace Viv.Props.C20Src
open Viv.Py Viv.Components

inductive Which where | managers | components
  deriving DecidableEq, Repr

inductive CFn where
  | isinstance | hasattr | len
  | pop (r : Nat) | extend (r : Nat) | append (r : Nat)
  | flatten | applyDefaults | ocsAdd (k : Which) | ocsAppend (k : Which)
  | setupAll | setupObj (n : String)

/-- the Python objects the component manager's registration code touches -/
inductive CV where
  | none | bool (b : Bool) | int (i : Int) | str (s : String)
  /-- the `ComponentManager` -/
  | self
  /-- a component object (with its sub-component tree) -/
  | comp (t : Tree)
  /-- an object already held by an `OrderedComponentSet`: only its name is kept -/
  | named (n : String)
  /-- a registered manager (`true`) or component, as `setup_components` sees it -/
  | item (isMgr : Bool) (n : String)
  /-- the `OrderedComponentSet` that `self._managers + self._components` builds -/
  | items (l : List (Bool × String))
  | builder
  /-- an immutable sequence of components: the caller's argument, a `sub_components` value -/
  | lst (ts : List Tree)
  /-- a mutable Python list of components, by address -/
  | ref (r : Nat)
  /-- `self._managers` / `self._components` and their `.components` lists -/
  | ocs (k : Which) | ocsItems (k : Which)
  | cls (n : String)
  /-- the slice `::-1` -/
  | revSlice
  | fn (f : CFn)
  | list (vs : List CV)

/-- state: the simulation as far as C20 models it, and the heap of mutable lists (`next` = first free address) -/
structure St where
  sim : Sim
  heap : Nat → List Tree
  next : Nat
  /-- what the probe components do in `setup`, and the name of the object whose `setup` raises ("" = none of them):
  parameters of the run, never written -/
  sc : Script
  boom : String

def upd (h : Nat → List Tree) (r : Nat) (l : List Tree) : Nat → List Tree := fun i => if i = r then l else h i

@[simp] theorem upd_same (h : Nat → List Tree) (r : Nat) (l : List Tree) : upd h r l r = l := by simp [upd]
theorem upd_other (h : Nat → List Tree) (r i : Nat) (l : List Tree) (hne : i ≠ r) : upd h r l i = h i := by simp [upd, hne]

abbrev M := SM St

/-- a NEW list object holding `l` -/
def alloc (l : List Tree) : M CV := do
  let st ← get
  set { st with heap := upd st.heap st.next l, next := st.next + 1 }
  pure (.ref st.next)

def names (s : Sim) : Which → OrderedSet
  | .managers => s.managers
  | .components => s.components

def isStr (n : String) : CV → Bool
  | .str s => s == n
  | _ => false

def isInst : CV → CV → Bool
  | .comp _, .cls c => c == "Component"
  | .lst _, .cls c => c == "list" || c == "tuple"
  | .ref _, .cls c => c == "list"
  | .item isMgr _, .cls c => if isMgr then c == "Manager" else c == "Component"
  | _, _ => false

def cGlobal (n : String) : M CV :=
  if n == "isinstance" then pure (.fn .isinstance) else if n == "hasattr" then pure (.fn .hasattr)
  else if n == "len" then pure (.fn .len)
  else if n == "list" || n == "tuple" || n == "Component" || n == "Manager" then pure (.cls n)
  else throw "NameError"

def cGetAttr (o : CV) (a : String) : M CV := match o with
  | .self =>
    if a == "_flatten" then pure (.fn .flatten) else if a == "apply_configuration_defaults" then pure (.fn .applyDefaults)
    else if a == "_components" then pure (.ocs .components) else if a == "_managers" then pure (.ocs .managers)
    else if a == "_setup_components" then pure (.fn .setupAll)
    else throw "AttributeError"
  | .comp t =>
    if a == "sub_components" then pure (.lst t.children) else if a == "name" then pure (.str t.name) else throw "AttributeError"
  | .named n => if a == "name" then pure (.str n) else throw "AttributeError"
  | .item isMgr n =>
    if a == "name" then pure (.str n)
    else if (a == "setup" && isMgr) || (a == "setup_component" && !isMgr) then pure (.fn (.setupObj n))
    else throw "AttributeError"
  | .ref r =>
    if a == "pop" then pure (.fn (.pop r)) else if a == "extend" then pure (.fn (.extend r))
    else if a == "append" then pure (.fn (.append r)) else throw "AttributeError"
  | .ocs k => if a == "add" then pure (.fn (.ocsAdd k)) else if a == "components" then pure (.ocsItems k) else throw "AttributeError"
  | .ocsItems k => if a == "append" then pure (.fn (.ocsAppend k)) else throw "AttributeError"
  | _ => throw "AttributeError"

/-- the calls that are not calls of translated functions -/
def cPrim (f : CFn) (args : List CV) : M CV := match f, args with
  | .isinstance, [v, .list cs] => pure (.bool (cs.any (isInst v)))
  | .isinstance, [v, c] => pure (.bool (isInst v c))
  | .hasattr, [.comp _, .str a] => pure (.bool (a == "name" || a == "sub_components"))
  | .len, [.lst ts] => pure (.int ts.length)
  | .len, [.ref r] => do let st ← get; pure (.int (st.heap r).length)
  | .pop r, [] => do
    let st ← get
    match (st.heap r).reverse with
    | [] => throw "IndexError"
    | t :: below => set { st with heap := upd st.heap r below.reverse }; pure (.comp t)
  | .extend r, [.ref j] => do modify (fun st => { st with heap := upd st.heap r (st.heap r ++ st.heap j) }); pure CV.none
  | .extend r, [.lst ts] => do modify (fun st => { st with heap := upd st.heap r (st.heap r ++ ts) }); pure CV.none
  | .append r, [.comp t] => do modify (fun st => { st with heap := upd st.heap r (st.heap r ++ [t]) }); pure CV.none
  | .applyDefaults, [.comp t] => do
    let st ← get
    match applyDefaultsK st.sim.cfg t.defaults with
    | (cfg, some _) => set { st with sim := { st.sim with cfg := cfg } }; throw "ComponentConfigError"
    | (cfg, Option.none) => set { st with sim := { st.sim with cfg := cfg } }; pure .none
  | .ocsAppend .components, [.comp t] => do
    modify (fun st => { st with sim := { st.sim with components := st.sim.components ++ [t.name] } }); pure CV.none
  | .ocsAppend .managers, [.comp t] => do
    modify (fun st => { st with sim := { st.sim with managers := st.sim.managers ++ [t.name] } }); pure CV.none
  | .setupObj n, [.builder] => do
    let st ← get
    set { st with sim := setupOne st.sc st.sim n }
    if n == st.boom then throw "UserError" else pure .none
  | _, _ => throw "TypeError"

def cCmp (callee : Option (World M CV)) (op : String) (l r : CV) : M CV := match op, l, r, callee with
  | "In", v, .ocs k, some w => Gen.Src.ocsContains.run w [("self", .ocs k), ("component", v)]
  | "In", .str n, .list vs, _ => pure (.bool (vs.any (isStr n)))
  | "In", .str _, .ref _, _ => pure (.bool false)
  | "Eq", .int a, .int b, _ => pure (.bool (a == b))
  | "Gt", .int a, .int b, _ => pure (.bool (decide (a > b)))
  | _, _, _, _ => throw "TypeError"

def cTruthy : CV → M Bool
  | .none => pure false
  | .bool b => pure b
  | .ref r => do let st ← get; pure (!(st.heap r).isEmpty)
  | .lst ts => pure (!ts.isEmpty)
  | _ => pure true

def cSub (o k : CV) : M CV := match o, k with
  | .lst ts, .revSlice => alloc ts.reverse
  | .ref r, .revSlice => do let st ← get; alloc (st.heap r).reverse
  | _, _ => throw "TypeError"

def cIter : CV → M (List CV)
  | .lst ts => pure (ts.map .comp)
  | .ref r => do let st ← get; pure ((st.heap r).map .comp)
  | .ocsItems k => do let st ← get; pure ((names st.sim k).map .named)
  | .items l => pure (l.map fun p => .item p.1 p.2)
  | _ => throw "TypeError"

/-- `self._managers + self._components` (`OrderedComponentSet.__add__`): a NEW set built from both lists, refused when two
of the names coincide -/
def cBin (op : String) (l r : CV) : M CV := match op, l, r with
  | "Add", .ocs .managers, .ocs .components => do
    let st ← get
    match OrderedSet.addAll [] (st.sim.managers ++ st.sim.components) with
    | .ok _ => pure (.items (st.sim.managers.map (true, ·) ++ st.sim.components.map (false, ·)))
    | .error _ => throw "ComponentConfigError"
  | _, _, _ => throw "TypeError"

def cNewList : List CV → M CV
  | [] => alloc []
  | vs => pure (.list vs)

/-- the world: `callee` is the world in which a translated function called from here runs (`none`: no such call) -/
def cworldWith (fuel : Nat) (callee : Option (World M CV)) : World M CV where
  none := .none
  bool := .bool
  int := .int
  str := .str
  list := .list
  newList := cNewList
  tuple := .list
  global := cGlobal
  truthy := cTruthy
  getAttr := cGetAttr
  setAttr _ _ _ := throw "AttributeError"
  call f args kws := match f, args, kws, callee with
    | .fn .flatten, [v], [], some w => Gen.Src.cmFlatten.run w [("components", v)]
    | .fn (.ocsAdd k), [v], [], some w => Gen.Src.ocsAdd.run w [("self", .ocs k), ("component", v)]
    | .fn .setupAll, [b, cs], [], some w => Gen.Src.cmSetupAll.run w [("builder", b), ("components", cs)]
    | .fn .setupAll, _, _, _ => throw "Unsupported"
    | .fn .flatten, _, _, _ => throw "Unsupported"
    | .fn (.ocsAdd _), _, _, _ => throw "Unsupported"
    | .cls c, [.lst ts], [], _ => if c == "list" then pure (.lst ts) else throw "TypeError"
    | .fn f, args, [], _ => cPrim f args
    | _, _, _, _ => throw "TypeError"
  cmp := cCmp callee
  bin := cBin
  neg _ := throw "TypeError"
  sub := cSub
  slice _ _ := .none
  setItem _ _ _ := throw "TypeError"
  iter := cIter
  unstar _ := throw "TypeError"
  format _ := throw "TypeError"
  concat _ := throw "TypeError"
  dict _ := throw "TypeError"
  whileLoop cond body loc := whileFuel cond body fuel loc
  other s := if s == "::-1" then pure .revSlice else throw "Unsupported"
  throw cls := throw cls
  rethrow := throw "reraise"
  catchAll body handler := tryCatch body (fun _ => handler)
  catchCls cls body handler := tryCatch body (fun e => if e == cls then handler else throw e)

/-! ### `_flatten` -/

/-- one pass of the loop of `_flatten` on (stack, out) -/
def flStep (a : List Tree × List Tree) : List Tree × List Tree :=
  match a.1.reverse with
  | [] => a
  | .node n d cs :: below => (below.reverse ++ cs.reverse, a.2 ++ [.node n d cs])

theorem iter_flStep : ∀ (fuel : Nat) (stack out : List Tree),
    (iterWhile (fun a : List Tree × List Tree => !a.1.isEmpty) flStep fuel (stack, out)).2 = flattenLoop fuel stack out
      ∧ (sizeL stack < fuel → (iterWhile (fun a : List Tree × List Tree => !a.1.isEmpty) flStep fuel (stack, out)).1 = [])
  | 0, stack, out => by simp [iterWhile, flattenLoop]
  | fuel + 1, stack, out => by
    simp only [iterWhile, flattenLoop]
    cases hr : stack.reverse with
    | nil =>
      have : stack = [] := by simpa using hr
      subst this
      simp
    | cons t below =>
      have hs : stack = below.reverse ++ [t] := by
        have := congrArg List.reverse hr; simpa using this
      have hne : stack.isEmpty = false := by subst hs; simp
      rcases t with ⟨n, d, cs⟩
      simp only [hne, Bool.not_false, if_true, flStep, hr]
      refine ⟨(iter_flStep fuel _ _).1, fun hlt => (iter_flStep fuel _ _).2 ?_⟩
      subst hs
      simp [sizeL_append, sizeL_reverse, sizeL, size] at hlt ⊢
      omega


def flAbs (o c : Nat) (s : St) : List Tree × List Tree := (s.heap c, s.heap o)

/-- the loop invariant of `_flatten`: `out` and `components` are the lists at `o` and `c`, both allocated; nothing but the
heap has changed -/
def FInv (o c : Nat) (sim0 : Sim) (loc : Locals CV) (st : St) : Prop :=
  loc.get "out" = some (.ref o) ∧ loc.get "components" = some (.ref c) ∧ o < st.next ∧ c < st.next ∧ st.sim = sim0

/-- `ComponentManager._flatten` as written, on a sequence of component trees: it returns a NEW list (at the first free
address) that holds `flatten ts` - the model's loop, hence (`flatten_preorder`) the pre-order traversal - when the loop
is given enough passes (`sizeL ts < fuel`: one pass per component), and it leaves the work list empty: the loop ended
because `while components:` found nothing left, not because the fuel ran out. Nothing but the heap changes. -/
theorem flatten_run (fuel : Nat) (callee : Option (World M CV)) (ts : List Tree) (st : St) (hf : sizeL ts < fuel) :
    ∃ st', runM (Gen.Src.cmFlatten.run (cworldWith fuel callee) [("components", .lst ts)]) st = (.ok (.ref st.next), st')
      ∧ st'.heap st.next = flatten ts ∧ st'.heap (st.next + 1) = [] ∧ st'.sim = st.sim ∧ st.next < st'.next := by
  rw [runM_func]
  simp only [Gen.Src.cmFlatten]
  pystep [cworldWith, cNewList, alloc]
  pystep [cworldWith, cSub, alloc]
  rw [runM_block_cons, evalStmt]
  have hwl : ∀ c b l, (cworldWith fuel callee).whileLoop c b l = whileFuel c b fuel l := fun _ _ _ => rfl
  rw [hwl]
  generalize hrun : runM (whileFuel _ _ _ _) _ = r
  obtain ⟨loc', st', hr, hinv', habs⟩ : ∃ loc' st', r = (.ok (.next, loc'), st') ∧ FInv st.next (st.next + 1) st.sim loc' st' ∧
      flAbs st.next (st.next + 1) st'
        = iterWhile (fun a : List Tree × List Tree => !a.1.isEmpty) flStep fuel (flAbs st.next (st.next + 1)
            { st with heap := upd (upd st.heap st.next []) (st.next + 1) ts.reverse, next := st.next + 1 + 1 }) := by
    rw [← hrun]
    refine runM_whileAbs (FInv st.next (st.next + 1) st.sim) (flAbs st.next (st.next + 1))
      (fun a : List Tree × List Tree => !a.1.isEmpty) flStep _ _ ?hcond ?hbody fuel _ _ ?hinv
    case hinv => simp [FInv]; omega
    case hcond =>
      intro loc st1 h
      simp [evalExpr, cworldWith, cTruthy, h.2.1, flAbs]
    case hbody =>
      intro loc st1 h hc
      obtain ⟨ho, hcm, hon, hcn, hsim⟩ := h
      cases hr : (st1.heap (st.next + 1)).reverse with
      | nil =>
        have : st1.heap (st.next + 1) = [] := by simpa using hr
        simp [flAbs, this] at hc
      | cons t below =>
        rcases t with ⟨n, d, cs⟩
        -- however many statements the body has (a guard that does not apply to a component, a renamed local …)
        repeat pystep [cworldWith, cGlobal, cGetAttr, cPrim, cSub, cTruthy, cCmp, alloc, isInst, ho, hcm, hr]
        refine ⟨_, _, by rw [runM_block_nil], ?_, ?_⟩
        · simp [FInv, ho, hcm, hsim]; omega
        · have h1 : st.next + 1 ≠ st1.next := by omega
          have h2 : st.next ≠ st1.next := by omega
          have h3 : st.next ≠ st.next + 1 := by omega
          simp [flAbs, flStep, hr, upd, h1, h2, Tree.children]
  subst hr
  dsimp only
  pystep [hinv'.1]
  obtain ⟨ho, hcm, hon, hcn, hsim⟩ := hinv'
  have hit := iter_flStep fuel ts.reverse []
  simp only [flAbs, upd] at habs
  have h3 : st.next ≠ st.next + 1 := by omega
  simp at habs
  refine ⟨st', rfl, ?_, ?_, hsim, hon⟩
  · have := congrArg Prod.snd habs
    simp only at this
    rw [this, hit.1, flatten_eq, flattenLoop_eq _ _ _ (by rw [sizeL_reverse]; exact hf)]
    simp
  · have := congrArg Prod.fst habs
    simp only at this
    rw [this]
    exact hit.2 (by rw [sizeL_reverse]; exact hf)

/-! ### `OrderedComponentSet.__contains__` and `add` -/

theorem runM_compList_map {σ V A : Type} (f : V → SM σ V) (g h : A → V)
    (hf : ∀ a st, runM (f (g a)) st = (.ok (h a), st)) :
    ∀ (as : List A) (st : σ), runM (compList f (as.map g)) st = (.ok (as.map h), st)
  | [], st => by simp [compList]
  | a :: as, st => by simp [compList, hf a st, runM_compList_map f g h hf as st]

theorem any_isStr (n : String) (ns : List String) : (ns.map CV.str).any (isStr n) = ns.contains n := by
  induction ns with
  | nil => rfl
  | cons a l ih =>
    simp only [List.map_cons, List.any_cons, ih, List.contains_cons, isStr]
    rw [Bool.beq_comm]

/-- `component in ordered_set` as written (`__contains__`): is the component's NAME among the names held -/
theorem contains_run (fuel : Nat) (callee : Option (World M CV)) (k : Which) (t : Tree) (st : St) :
    ∃ st', runM (Gen.Src.ocsContains.run (cworldWith fuel callee) [("self", .ocs k), ("component", .comp t)]) st
        = (.ok (.bool ((names st.sim k).contains t.name)), st') ∧ st'.sim = st.sim := by
  rw [runM_func]
  simp only [Gen.Src.ocsContains]
  pystep [cworldWith, cGlobal, cPrim, cTruthy]
  pystep [cworldWith, cCmp, cGetAttr, cIter]
  rw [runM_compList_map _ CV.named CV.str (by intro a st; simp)]
  cases hn : names st.sim k with
  | nil =>
    simp [cNewList, alloc, cCmp]
  | cons a l =>
    have := any_isStr t.name (a :: l)
    simp only [List.map_cons, List.any_cons, List.any_map] at this
    simp only [cNewList, cCmp, List.map_cons, runM_pure, List.any_cons, List.any_map, this]
    exact ⟨st, by simp, rfl⟩


/-- `OrderedComponentSet.add` as written: the name test of `__contains__`, then the append - the model's `OrderedSet.add`;
a refused component leaves the set as it was -/
theorem add_run (fuel : Nat) (callee : Option (World M CV)) (t : Tree) (st : St) :
    ∃ r st', runM (Gen.Src.ocsAdd.run (cworldWith fuel (some (cworldWith fuel callee)))
        [("self", .ocs .components), ("component", .comp t)]) st = (r, st') ∧
      match OrderedSet.add st.sim.components t.name with
      | .ok cs => r = .ok .none ∧ st'.sim = { st.sim with components := cs }
      | .error _ => r = .error "ComponentConfigError" ∧ st'.sim = st.sim := by
  obtain ⟨st1, h1, hs1⟩ := contains_run fuel callee .components t st
  rw [runM_func]
  simp only [Gen.Src.ocsAdd]
  simp only [names] at h1
  generalize cworldWith fuel callee = w1 at h1 ⊢
  cases hc : st.sim.components.contains t.name with
  | true =>
    rw [hc] at h1
    pystep [cworldWith, cCmp, cTruthy, h1]
    have hm : t.name ∈ st.sim.components := by simpa using hc
    exact ⟨_, _, rfl, by simp [OrderedSet.add, hm, hs1]⟩
  | false =>
    rw [hc] at h1
    pystep [cworldWith, cCmp, cTruthy, h1]
    pystep [cworldWith, cGetAttr, cPrim]
    have hm : ¬ t.name ∈ st.sim.components := by simpa using hc
    exact ⟨_, _, rfl, by simp [OrderedSet.add, hm, hs1, cworldWith]⟩


/-! ### `ComponentManager.add_components` -/

/-- one pass of the loop of `add_components` on the simulation state -/
def regStep (v : CV) (s : Sim) : Sim × Bool := match v with
  | .comp t => ((registerOneK s t).1, (registerOneK s t).2.isSome)
  | _ => (s, true)

theorem foldK_regStep : ∀ (l : List Tree) (s : Sim),
    foldK regStep (l.map CV.comp) s = ((registerListK s l Option.none).1, (registerListK s l Option.none).2.isSome)
  | [], s => by simp [foldK, registerListK]
  | t :: l, s => by
    simp only [List.map_cons, foldK, registerListK, regStep]
    rcases hr : registerOneK s t with ⟨s1, e⟩
    cases e with
    | none => simpa using foldK_regStep l s1
    | some e => simp

/-- the three worlds: `add_components` runs in `W3`, the functions it calls (`_flatten`, `OrderedComponentSet.add`) in
`W2`, what those call (`__contains__`) in `W1` -/
def W1 (fuel : Nat) : World M CV := cworldWith fuel Option.none
def W2 (fuel : Nat) : World M CV := cworldWith fuel (some (W1 fuel))
def W3 (fuel : Nat) : World M CV := cworldWith fuel (some (W2 fuel))

/-- `ComponentManager.add_components` as written - flatten the supplied trees, then for each component in that order
apply its configuration defaults and add it to the name-unique set - leaves exactly the state of the model's
`registerListK` over `flatten ts`, and raises exactly when the model refuses: whatever was applied or registered before
the refusal stays (the call is not transactional). -/
theorem addComponents_run (fuel : Nat) (ts : List Tree) (st : St) (hf : sizeL ts < fuel) :
    ∃ r st', runM (Gen.Src.cmAddComponents.run (W3 fuel) [("self", .self), ("components", .lst ts)]) st = (r, st') ∧
      st'.sim = (registerListK st.sim (flatten ts) Option.none).1 ∧
      (r.toBool = false ↔ (registerListK st.sim (flatten ts) Option.none).2.isSome) := by
  obtain ⟨st1, h1, hheap, _, hs1, _⟩ := flatten_run fuel (some (W1 fuel)) ts st hf
  have hadd : ∀ (t : Tree) (st : St), ∃ r st', runM (Gen.Src.ocsAdd.run (W2 fuel)
        [("self", .ocs .components), ("component", .comp t)]) st = (r, st') ∧
      match OrderedSet.add st.sim.components t.name with
      | .ok cs => r = .ok .none ∧ st'.sim = { st.sim with components := cs }
      | .error _ => r = .error "ComponentConfigError" ∧ st'.sim = st.sim := fun t st => add_run fuel Option.none t st
  have h1' : runM (Gen.Src.cmFlatten.run (W2 fuel) [("components", .lst ts)]) st = (.ok (.ref st.next), st1) := h1
  clear h1
  rw [runM_func]
  simp only [Gen.Src.cmAddComponents]
  unfold W3
  generalize W2 fuel = w2 at h1' hadd ⊢
  rw [runM_block_cons, evalStmt]
  simp only [runM_bind]
  conv in (runM (evalExpr _ _ _) _) => simp [evalExpr, evalArgs, evalKws, cworldWith, cGlobal, cGetAttr, h1']
  dsimp only
  conv in (runM ((cworldWith fuel (some w2)).iter _) _) => simp [cworldWith, cIter, hheap]
  dsimp only
  generalize hrun : runM (forLoop _ _ _) _ = r
  have key : (∃ loc' st', r = (.ok (.next, loc'), st') ∧ (st'.sim, false) = foldK regStep ((flatten ts).map CV.comp) st1.sim
          ∧ (fun (loc : Locals CV) (_ : St) => loc.get "self" = some CV.self) loc' st') ∨
      (∃ e st', r = (.error e, st') ∧ (st'.sim, true) = foldK regStep ((flatten ts).map CV.comp) st1.sim) := by
    rw [← hrun]
    refine absK_forLoop (fun (loc : Locals CV) (_ : St) => loc.get "self" = some CV.self) (fun s : St => s.sim) regStep
      _ ((flatten ts).map CV.comp) _ st1 ?hbody (by simp)
    case hbody =>
      intro loc x st2 hx hself
      obtain ⟨t, _, rfl⟩ := List.mem_map.mp hx
      simp only [assignTo, runM_bind, runM_pure]
      rcases hd : applyDefaultsK st2.sim.cfg t.defaults with ⟨cfg, e⟩
      cases e with
      | some e =>
        right
        pystep [cworldWith, cGetAttr, cPrim, hself, hd]
        exact ⟨_, _, rfl, by simp [regStep, registerOneK, hd], by simp [regStep, registerOneK, hd]⟩
      | none =>
        obtain ⟨r2, st3, h3, hm⟩ := hadd t { st2 with sim := { st2.sim with cfg := cfg } }
        simp only at hm
        cases ha : OrderedSet.add st2.sim.components t.name with
        | ok cs =>
          rw [ha] at hm
          obtain ⟨rfl, hm2⟩ := hm
          left
          pystep [cworldWith, cGetAttr, cPrim, hself, hd]
          pystep [cworldWith, cGetAttr, hself, h3]
          refine ⟨_, _, by rw [runM_block_nil], ?_, ?_, by simpa using hself⟩
          · simp [regStep, registerOneK, hd, ha, hm2]
          · simp [regStep, registerOneK, hd, ha]
        | error e =>
          rw [ha] at hm
          obtain ⟨rfl, hm2⟩ := hm
          right
          pystep [cworldWith, cGetAttr, cPrim, hself, hd]
          pystep [cworldWith, cGetAttr, hself, h3]
          exact ⟨_, _, rfl, by simp [regStep, registerOneK, hd, ha, hm2], by simp [regStep, registerOneK, hd, ha]⟩
  rw [foldK_regStep, hs1] at key
  rcases key with ⟨loc', st', rfl, hk, _⟩ | ⟨e, st', rfl, hk⟩
  · have h1 := congrArg Prod.fst hk
    have h2 := congrArg Prod.snd hk
    simp only at h1 h2
    refine ⟨_, _, rfl, h1, ?_⟩
    rw [← h2]; simp [Except.toBool]
  · have h1 := congrArg Prod.fst hk
    have h2 := congrArg Prod.snd hk
    simp only at h1 h2
    refine ⟨_, _, rfl, h1, ?_⟩
    rw [← h2]; simp [Except.toBool]


/-! ### `setup_components` -/

def setupStep (sc : Script) (boom : String) (v : CV) (s : Sim) : Sim × Bool := match v with
  | .item _ n => (setupOne sc s n, n == boom)
  | _ => (s, true)

theorem foldK_setupStep (sc : Script) (boom : String) : ∀ (l : List (Bool × String)) (s : Sim),
    foldK (setupStep sc boom) (l.map fun p => CV.item p.1 p.2) s
      = if (l.map (·.2)).contains boom then
          (((l.map (·.2)).takeWhile (· != boom) ++ [boom]).foldl (setupOne sc) s, true)
        else ((l.map (·.2)).foldl (setupOne sc) s, false)
  | [], s => by simp [foldK]
  | p :: l, s => by
    simp only [List.map_cons, foldK, setupStep]
    by_cases hb : p.2 = boom
    · simp [hb]
    · have hb' : (p.2 == boom) = false := by simpa using hb
      have hb2 : (boom == p.2) = false := by simpa using fun h => hb h.symm
      rw [hb']
      simp only
      rw [foldK_setupStep sc boom l]
      have hne : ¬ boom = p.2 := fun h => hb h.symm
      simp [hb, hne]

/-- the sequence `setup_components` walks -/
def setupItems (s : Sim) : List (Bool × String) := s.managers.map (true, ·) ++ s.components.map (false, ·)

theorem setupItems_names (s : Sim) : (setupItems s).map (·.2) = s.managers ++ s.components := by
  simp [setupItems, Function.comp_def]

/-- `_setup_components` as written: every object of the sequence, in order, through `setup` (a manager) or
`setup_component` (a component); the loop ends at the first `setup` that raises -/
theorem setupAll_run (fuel : Nat) (callee : Option (World M CV)) (l : List (Bool × String)) (st : St) :
    ∃ r st', runM (Gen.Src.cmSetupAll.run (cworldWith fuel callee) [("builder", .builder), ("components", .items l)]) st
        = (r, st') ∧
      (st'.sim, !r.toBool) = foldK (setupStep st.sc st.boom) (l.map fun p => CV.item p.1 p.2) st.sim := by
  rw [runM_func]
  simp only [Gen.Src.cmSetupAll]
  rw [runM_block_cons, evalStmt]
  simp only [runM_bind]
  conv in (runM (evalExpr _ _ _) _) => simp [evalExpr]
  dsimp only
  conv in (runM ((cworldWith fuel callee).iter _) _) => simp [cworldWith, cIter]
  dsimp only
  generalize hrun : runM (forLoop _ _ _) _ = r
  have key : (∃ loc' st', r = (.ok (.next, loc'), st') ∧
        (st'.sim, false) = foldK (setupStep st.sc st.boom) (l.map fun p => CV.item p.1 p.2) st.sim
          ∧ (fun (loc : Locals CV) (s : St) => loc.get "builder" = some CV.builder ∧ s.sc = st.sc ∧ s.boom = st.boom) loc' st') ∨
      (∃ e st', r = (.error e, st') ∧
        (st'.sim, true) = foldK (setupStep st.sc st.boom) (l.map fun p => CV.item p.1 p.2) st.sim) := by
    rw [← hrun]
    refine absK_forLoop (fun (loc : Locals CV) (s : St) => loc.get "builder" = some CV.builder ∧ s.sc = st.sc ∧ s.boom = st.boom)
      (fun s : St => s.sim) (setupStep st.sc st.boom) _ _ _ st ?hbody (by simp)
    case hbody =>
      intro loc x st2 hx hinv
      obtain ⟨p, _, rfl⟩ := List.mem_map.mp hx
      obtain ⟨hb, hsc, hbm⟩ := hinv
      rcases p with ⟨isMgr, n⟩
      simp only [assignTo, runM_bind, runM_pure]
      by_cases hn : n = st2.boom
      · right
        cases isMgr <;>
        · pystep [cworldWith, cGlobal, cGetAttr, cPrim, cTruthy, isInst, hb, hn]
          exact ⟨_, _, rfl, by simp [setupStep, hsc, ← hn], by simp [setupStep, hn, hbm]⟩
      · left
        have hn' : (n == st2.boom) = false := by simpa using hn
        cases isMgr <;>
        · pystep [cworldWith, cGlobal, cGetAttr, cPrim, cTruthy, isInst, hb, hn, hn']
          refine ⟨_, _, by rw [runM_block_nil], by simp [setupStep, hsc], by simp [setupStep, ← hbm, hn], ?_⟩
          simp [hb, hsc, hbm]
  rcases key with ⟨loc', st', rfl, hk, _, h2, h3⟩ | ⟨e, st', rfl, hk⟩
  · exact ⟨_, _, rfl, by simpa [Except.toBool] using hk⟩
  · exact ⟨_, _, rfl, by simpa [Except.toBool] using hk⟩

/-- `ComponentManager.setup_components` as written: `self._managers + self._components` builds the name-unique sequence
(a component named like a manager is refused there, before anything is set up), `_setup_components` walks it - the
model's `setupComponentsK`: the same final state, and an exception exactly when the model reports one -/
theorem setupComponents_run (fuel : Nat) (callee : Option (World M CV)) (st : St) :
    ∃ r st', runM (Gen.Src.cmSetupComponents.run (cworldWith fuel (some (cworldWith fuel callee)))
        [("self", .self), ("builder", .builder)]) st = (r, st') ∧
      st'.sim = (setupComponentsK st.sc st.boom st.sim).1 ∧
      (r.toBool = false ↔ (setupComponentsK st.sc st.boom st.sim).2.isSome) := by
  have hall := fun l st => setupAll_run fuel callee l st
  rw [runM_func]
  simp only [Gen.Src.cmSetupComponents]
  generalize cworldWith fuel callee = w1 at hall ⊢
  cases ha : OrderedSet.addAll [] (st.sim.managers ++ st.sim.components) with
  | error e =>
    pystep [cworldWith, cGetAttr, cBin, ha]
    exact ⟨_, _, rfl, by simp [setupComponentsK, ha], by simp [setupComponentsK, ha, Except.toBool]⟩
  | ok all =>
    obtain ⟨hall_eq, _⟩ := addAll_ok _ _ _ ha
    obtain ⟨r, st', hr, hk⟩ := hall (setupItems st.sim) st
    rw [foldK_setupStep, setupItems_names] at hk
    simp only [setupItems] at hr
    pystep [cworldWith, cGetAttr, cBin, ha, hr]
    simp only [List.nil_append] at hall_eq
    subst hall_eq
    by_cases hc : (st.sim.managers ++ st.sim.components).contains st.boom
    · rw [if_pos hc] at hk
      have h1 := congrArg Prod.fst hk
      have h2 := congrArg Prod.snd hk
      simp only at h1 h2
      have hc' : st.boom ∈ st.sim.managers ∨ st.boom ∈ st.sim.components := by simpa using hc
      cases r <;> simp [Except.toBool] at h2
      exact ⟨_, _, rfl, by simp [setupComponentsK, ha, hc', h1], by simp [setupComponentsK, ha, hc', Except.toBool]⟩
    · rw [if_neg hc] at hk
      have h1 := congrArg Prod.fst hk
      have h2 := congrArg Prod.snd hk
      simp only at h1 h2
      have hc' : ¬ (st.boom ∈ st.sim.managers ∨ st.boom ∈ st.sim.components) := by simpa using hc
      cases r <;> simp [Except.toBool] at h2
      exact ⟨_, _, rfl, by simp [setupComponentsK, ha, hc', h1], by simp [setupComponentsK, ha, hc', Except.toBool]⟩

end Viv.Props.C20Src
