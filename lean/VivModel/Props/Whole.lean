import VivModel.Model.Whole
namespace Viv.Props.Whole
open Viv Viv.Whole

theorem phases_four : PHASES.length = 4 := by decide

end Viv.Props.Whole
