import VivModel.Model.Whole
import VivModel.Props.C02Bits
import VivModel.Props.C08
import VivModel.Props.C17
/-! WHOLE — theorems about the COMPOSED end-to-end model (`Model/Whole.lean`).

All statements are for every configuration, every state and – unless the statement is about numpy's block –
every block function `B`. No hypothesis on the configuration is hidden: where validity is needed it is the
explicit hypothesis `0 < cfg.step` / `cfg.keyBits ≤ 53`. -/
namespace Viv.Props.Whole
open Viv Viv.Whole

/-! ### what never changes about a simulant; what a step may do to the table -/

/-- the attributes fixed at creation are kept, and an untracked row is kept entirely -/
def Frozen (r r' : Row) : Prop :=
  r'.label = r.label ∧ r'.key = r.key ∧ r'.entrance = r.entrance ∧ r'.sex = r.sex ∧ (r.tracked = false → r' = r)

theorem Frozen.refl (r : Row) : Frozen r r := ⟨rfl, rfl, rfl, rfl, fun _ => rfl⟩

theorem Frozen.trans {a b c : Row} (h1 : Frozen a b) (h2 : Frozen b c) : Frozen a c := by
  obtain ⟨l1, k1, e1, s1, u1⟩ := h1
  obtain ⟨l2, k2, e2, s2, u2⟩ := h2
  refine ⟨l2.trans l1, k2.trans k1, e2.trans e1, s2.trans s1, fun hu => ?_⟩
  have hb := u1 hu
  subst hb
  exact u2 hu

/-- `s'` extends `s`: every row of `s` is still there, at the same place, `Frozen` -/
def Ext (s s' : State) : Prop :=
  ∀ (i : Nat) (r : Row), s.rows[i]? = some r → ∃ r', s'.rows[i]? = some r' ∧ Frozen r r'

theorem Ext.refl (s : State) : Ext s s := fun _ r h => ⟨r, h, Frozen.refl r⟩

theorem Ext.trans {a b c : State} (h1 : Ext a b) (h2 : Ext b c) : Ext a c := by
  intro i r hr
  obtain ⟨r', hr', f1⟩ := h1 i r hr
  obtain ⟨r'', hr'', f2⟩ := h2 i r' hr'
  exact ⟨r'', hr'', f1.trans f2⟩

theorem Ext.length_le {a b : State} (h : Ext a b) : a.rows.length ≤ b.rows.length := by
  rcases Nat.lt_or_ge b.rows.length a.rows.length with hlt | hge
  · have : ∃ r, a.rows[b.rows.length]? = some r := ⟨a.rows[b.rows.length], by simp [hlt]⟩
    obtain ⟨r, hr⟩ := this
    obtain ⟨r', hr', _⟩ := h _ r hr
    have : b.rows[b.rows.length]? = none := List.getElem?_eq_none (Nat.le_refl _)
    rw [this] at hr'; cases hr'
  · exact hge

/-- every label is the row's position in the table (labels are `0, 1, 2, …` in creation order) -/
def Lab (s : State) : Prop := ∀ (i : Nat) (r : Row), s.rows[i]? = some r → r.label = i

theorem lab_labels (s : State) (h : Lab s) : s.rows.map (·.label) = List.range s.rows.length := by
  apply List.ext_getElem?
  intro i
  rw [List.getElem?_map]
  rcases Nat.lt_or_ge i s.rows.length with hlt | hge
  · rw [List.getElem?_range hlt]
    have : s.rows[i]? = some s.rows[i] := by simp [hlt]
    rw [this]; simp [h i _ this]
  · rw [List.getElem?_eq_none hge, List.getElem?_eq_none (by simpa using hge)]; rfl

/-! ### simulant creation -/

theorem filter_range_fresh (n k : Nat) :
    (List.range (n + k)).filter (fun l => !(List.range n).contains l) = List.range' n k := by
  induction k with
  | zero =>
    simp only [Nat.add_zero, List.range'_zero, List.filter_eq_nil_iff]
    intro a ha
    simp [List.mem_range.mp ha]
  | succ k ih =>
    rw [← Nat.add_assoc, List.range_succ, List.filter_append, ih, List.range'_concat]
    simp

/-- **creation hands out the next labels**: with labels `0 … n-1` in the table, `count` new simulants are
`n, …, n + count - 1` (`range(len + count)` minus the existing index) -/
theorem newLabels_fresh (s : State) (h : Lab s) (k : Nat) : newLabels s.rows k = List.range' s.rows.length k := by
  unfold newLabels
  rw [lab_labels s h]
  exact filter_range_fresh _ _

/-- the key the CRN-initialising stream gives to the `j`-th simulant of a creation at clock `t` from
creation site `site`: a function of seed, clock, site, block size, position in the batch – nothing else -/
def crnKey (B : Blk) (cfg : Config) (site : String) (t : Int) (j : Nat) : Nat :=
  keyOf cfg.keyBits
    ((B (seedStr cfg "wpop_crn" t (if cfg.akPerPhase then "key" ++ site else "key")) (blockSize cfg))[j]?.getD 0)

theorem getElem?_mkRows (clock : Int) (labels keys sexes sts : List Nat) (j : Nat) :
    (mkRows clock labels keys sexes sts)[j]? =
      (labels[j]?).map fun l => ⟨l, true, keys.getD j 0, clock, sexes.getD j 0, sts.getD j 0, none⟩ := by
  unfold mkRows
  rw [List.getElem?_map, List.getElem?_zipIdx]
  cases labels[j]? <;> simp

theorem length_mkRows (clock : Int) (labels keys sexes sts : List Nat) :
    (mkRows clock labels keys sexes sts).length = labels.length := by
  simp [mkRows]

/-- **what a creation does**: the clock and every existing row are untouched; the new rows are appended, carry
the new labels in order, are tracked, entered at the current clock, have not left, and their `key` is the
positional draw `crnKey` – whatever the existing population, the index map and every other parameter are. -/
theorem create_spec (B : Blk) (cfg : Config) (site : String) (k : Nat) (s s' : State)
    (h : create B cfg site k s = .ok s') :
    s'.clock = s.clock ∧ ∃ sexes sts : List Nat,
      s'.rows = s.rows ++ mkRows s.clock (newLabels s.rows k)
        ((List.range (newLabels s.rows k).length).map (crnKey B cfg site s.clock)) sexes sts := by
  unfold create at h
  simp only at h
  split at h
  · rename_i hemp
    cases h
    refine ⟨rfl, [], [], ?_⟩
    rw [List.isEmpty_iff.mp hemp]
    simp [mkRows]
  · split at h
    · cases h
    · rename_i kd hkd
      split at h
      · cases h
      · split at h
        · cases h
        · split at h
          · cases h
          · rename_i sexes hsex _ sts hsts
            cases h
            refine ⟨rfl, sexes, sts, ?_⟩
            simp only
            congr 2
            -- the keys are the positional draws
            unfold Stream.getDrawInit at hkd
            split at hkd
            · cases hkd
              apply List.ext_getElem?
              intro j
              simp only [List.getElem?_map, List.getElem?_zipIdx, List.map_map]
              rcases Nat.lt_or_ge j (newLabels s.rows k).length with hlt | hge
              · rw [List.getElem?_range hlt]
                have : (newLabels s.rows k)[j]? = some (newLabels s.rows k)[j] := by simp [hlt]
                rw [this]
                simp [crnKey, RandomBlock.memoBlk]
              · rw [List.getElem?_eq_none hge, List.getElem?_eq_none (by simpa using hge)]
                rfl
            · cases hkd

/-! ### one listener call -/

/-- what one listener call may do to an existing row when the event time is `t`: nothing, a change of the machine's
state of a tracked simulant, or untracking a tracked simulant with `exit = t` -/
def Evolves (t : Int) (r r' : Row) : Prop :=
  r' = r ∨ (r.tracked = true ∧ ∃ x, r' = { r with st := x }) ∨
    (r.tracked = true ∧ r' = { r with tracked := false, exit := some t })

theorem Evolves.frozen {t : Int} {r r' : Row} (h : Evolves t r r') : Frozen r r' := by
  rcases h with h | ⟨ht, x, h⟩ | ⟨ht, h⟩
  · subst h; exact Frozen.refl _
  · subst h; exact ⟨rfl, rfl, rfl, rfl, fun hu => by simp [ht] at hu⟩
  · subst h; exact ⟨rfl, rfl, rfl, rfl, fun hu => by simp [ht] at hu⟩

/-- a row that a creation at state `s` appended at table position `i` -/
def Fresh (B : Blk) (cfg : Config) (s : State) (i : Nat) (r : Row) : Prop :=
  r.tracked = true ∧ r.exit = none ∧ r.entrance = s.clock ∧ (Lab s → r.label = i) ∧
    ∃ site j, r.key = crnKey B cfg site s.clock j

/-- the effect of one listener call at event time `t` -/
structure ActRel (B : Blk) (cfg : Config) (t : Int) (s s' : State) : Prop where
  clock : s'.clock = s.clock
  old : ∀ (i : Nat) (r : Row), s.rows[i]? = some r → ∃ r', s'.rows[i]? = some r' ∧ Evolves t r r'
  new : ∀ (i : Nat) (r' : Row), s'.rows[i]? = some r' → s.rows.length ≤ i → Fresh B cfg s i r'

theorem ActRel.same (B : Blk) (cfg : Config) (t : Int) (s : State) : ActRel B cfg t s s :=
  ⟨rfl, fun _ r h => ⟨r, h, Or.inl rfl⟩, fun i r' h hi => by rw [List.getElem?_eq_none hi] at h; cases h⟩

theorem lt_of_getElem? {α : Type} {l : List α} {i : Nat} {a : α} (h : l[i]? = some a) : i < l.length := by
  rcases Nat.lt_or_ge i l.length with hlt | hge
  · exact hlt
  · rw [List.getElem?_eq_none hge] at h; cases h

/-- a creation -/
theorem create_rel (B : Blk) (cfg : Config) (t : Int) (site : String) (k : Nat) (s s' : State)
    (h : create B cfg site k s = .ok s') : ActRel B cfg t s s' := by
  obtain ⟨hc, sexes, sts, hrows⟩ := create_spec B cfg site k s s' h
  refine ⟨hc, ?_, ?_⟩
  · intro i r hr
    exact ⟨r, by rw [hrows, List.getElem?_append_left (lt_of_getElem? hr)]; exact hr, Or.inl rfl⟩
  · intro i r hr hge
    rw [hrows, List.getElem?_append_right hge, getElem?_mkRows] at hr
    obtain ⟨l, hl, hr⟩ := Option.map_eq_some_iff.mp hr
    subst hr
    refine ⟨rfl, rfl, rfl, fun hlab => ?_, site, i - s.rows.length, ?_⟩
    · rw [newLabels_fresh s hlab] at hl
      have hj := lt_of_getElem? hl
      simp only [List.length_range'] at hj
      rw [List.getElem?_range' hj] at hl
      simp only [Option.some.injEq] at hl
      simp only; omega
    · have hj := lt_of_getElem? hl
      simp only [List.getD_eq_getElem?_getD, List.getElem?_map]
      rw [List.getElem?_range hj]
      rfl

/-- `WPop.births` -/
theorem births_rel (B : Blk) (cfg : Config) (t : Int) (ph : Nat) (s s' : State)
    (h : births B cfg ph s = .ok s') : ActRel B cfg t s s' := by
  unfold births at h
  simp only at h
  split at h
  · split at h
    · exact create_rel B cfg t _ _ s s' h
    · cases h; exact ActRel.same B cfg t s
  · cases h; exact ActRel.same B cfg t s

/-- `WMort.act`: nobody is added or removed; a tracked simulant may be untracked with `exit = event.time`;
the index map is untouched -/
theorem mort_rel (B : Blk) (cfg : Config) (evIdx : List Nat) (evTime : Int) (s s' : State)
    (h : mort B cfg evIdx evTime s = .ok s') :
    ActRel B cfg evTime s s' ∧ s'.rows.length = s.rows.length ∧ s'.imap = s.imap := by
  unfold mort at h
  simp only at h
  split at h
  · cases h; exact ⟨ActRel.same B cfg _ s, rfl, rfl⟩
  · split at h
    · cases h
    · cases h
      refine ⟨⟨rfl, ?_, ?_⟩, by simp, rfl⟩
      · intro i r hr
        simp only [List.getElem?_map, hr, Option.map_some]
        refine ⟨_, rfl, ?_⟩
        split
        · rename_i hc
          refine Or.inr (Or.inr ⟨?_, rfl⟩)
          simp only [live, Bool.and_eq_true] at hc
          exact hc.1.1
        · exact Or.inl rfl
      · intro i r' hr' hge
        rw [List.getElem?_eq_none (by simpa using hge)] at hr'
        cases hr'

/-- the table positions `WDisease.act` hands to the machine are those of tracked simulants of the event index -/
theorem mem_liveIdx (evIdx : List Nat) (rows : List Row) (i : Nat) :
    i ∈ (rows.zipIdx.filter fun p => live evIdx p.1).map (·.2) ↔ ∃ r, rows[i]? = some r ∧ live evIdx r = true := by
  simp only [List.mem_map, List.mem_filter]
  constructor
  · rintro ⟨⟨r, j⟩, ⟨hm, hl⟩, rfl⟩
    exact ⟨r, List.mk_mem_zipIdx_iff_getElem?.mp hm, hl⟩
  · rintro ⟨r, hr, hl⟩
    exact ⟨(r, i), ⟨List.mk_mem_zipIdx_iff_getElem?.mpr hr, hl⟩, rfl⟩

/-- `WDisease.act` through the C17 model (`transition_frame`): only the `state` cell of tracked simulants of the
event index can change; nobody is added; the index map is untouched -/
theorem disease_rel (B : Blk) (cfg : Config) (t : Int) (evIdx : List Nat) (s s' : State)
    (h : disease B cfg evIdx s = .ok s') :
    ActRel B cfg t s s' ∧ s'.rows.length = s.rows.length ∧ s'.imap = s.imap := by
  unfold disease at h
  simp only at h
  split at h
  · cases h; exact ⟨ActRel.same B cfg _ s, rfl, rfl⟩
  · split at h
    · cases h
    · split at h
      · cases h
      · rename_i tab htab
        cases h
        obtain ⟨hlen, hout, _⟩ := Viv.Props.C17.transition_frame _ _ _ _ _ htab
        have hlen' : tab.length = s.rows.length := by simpa using hlen
        refine ⟨⟨rfl, ?_, ?_⟩, by simp [hlen'], rfl⟩
        · intro i r hr
          have hi := lt_of_getElem? hr
          have htb : tab[i]? = some tab[i] := by simp [hlen', hi]
          simp only [List.getElem?_zipWith, hr, htb]
          refine ⟨_, rfl, ?_⟩
          by_cases hu : r.tracked = true
          · exact Or.inr (Or.inl ⟨hu, _, rfl⟩)
          · left
            have hni : i ∉ (s.rows.zipIdx.filter fun p => live evIdx p.1).map (·.2) := by
              rw [mem_liveIdx]
              rintro ⟨r2, hr2, hl⟩
              rw [hr] at hr2; cases hr2
              simp only [live, Bool.and_eq_true] at hl
              exact hu hl.1
            have := hout i hni
            rw [htb, List.getElem?_map, hr] at this
            simp only [Option.map_some, Option.some.injEq] at this
            rw [this]
        · intro i r' hr' hge
          rw [List.getElem?_eq_none (by simp [hlen']; exact hge)] at hr'
          cases hr'

/-- **every listener call** -/
theorem act_rel (B : Blk) (cfg : Config) (ph : Nat) (evIdx : List Nat) (evTime : Int) (who : Nat) (s s' : State)
    (h : act B cfg ph evIdx evTime who s = .ok s') : ActRel B cfg evTime s s' := by
  unfold act at h
  split at h
  · exact births_rel B cfg evTime ph s s' h
  · split at h
    · exact (mort_rel B cfg evIdx evTime s s' h).1
    · exact (disease_rel B cfg evTime evIdx s s' h).1

/-! ### lifting an invariant of listener calls to events, steps and runs -/

/-- `I` is kept by every listener call whose event time is `clock + step` -/
def Kept (B : Blk) (cfg : Config) (I : State → Prop) : Prop :=
  ∀ s s', I s → ActRel B cfg (s.clock + cfg.step) s s' → I s'

theorem runListeners_inv (B : Blk) (cfg : Config) (I : State → Prop) (hI : Kept B cfg I) (ph : Nat)
    (evIdx : List Nat) (t : Int) :
    ∀ (rs : List Ev.Reg) (s s' : State), I s → s.clock + cfg.step = t →
      runListeners B cfg ph evIdx t rs s = .ok s' → I s' ∧ s'.clock = s.clock := by
  intro rs
  induction rs with
  | nil => intro s s' hi _ h; cases h; exact ⟨hi, rfl⟩
  | cons r rs ih =>
    intro s s' hi ht h
    unfold runListeners at h
    split at h
    · rename_i s1 h1
      have hr := act_rel B cfg ph evIdx t r.2 s s1 h1
      have i1 : I s1 := hI s s1 hi (by rw [ht]; exact hr)
      obtain ⟨i2, c2⟩ := ih s1 s' i1 (by rw [hr.clock]; exact ht) h
      exact ⟨i2, c2.trans hr.clock⟩
    · cases h

theorem runPhases_inv (B : Blk) (cfg : Config) (I : State → Prop) (hI : Kept B cfg I) :
    ∀ (phs : List Nat) (s s' : State), I s → runPhases B cfg phs s = .ok s' → I s' ∧ s'.clock = s.clock := by
  intro phs
  induction phs with
  | nil => intro s s' hi h; cases h; exact ⟨hi, rfl⟩
  | cons ph phs ih =>
    intro s s' hi h
    unfold runPhases at h
    split at h
    · rename_i s1 h1
      obtain ⟨i1, c1⟩ := runListeners_inv B cfg I hI ph _ _ _ s s1 hi rfl h1
      obtain ⟨i2, c2⟩ := ih s1 s' i1 h
      exact ⟨i2, c2.trans c1⟩
    · cases h

/-- one `step()` = the listener calls of the four events (each keeps `I`), then the clock advances -/
theorem step_inv (B : Blk) (cfg : Config) (I : State → Prop) (hI : Kept B cfg I) (s s' : State) (hi : I s)
    (h : stepWhole B cfg s = .ok s') :
    ∃ s1, I s1 ∧ s1.clock = s.clock ∧ s' = { s1 with clock := s1.clock + cfg.step } := by
  unfold stepWhole at h
  split at h
  · rename_i s1 h1
    cases h
    obtain ⟨i1, c1⟩ := runPhases_inv B cfg I hI _ s s1 hi h1
    exact ⟨s1, i1, c1, rfl⟩
  · cases h

/-- **the clock**: one step advances it by exactly one step size -/
theorem step_clock (B : Blk) (cfg : Config) (s s' : State) (h : stepWhole B cfg s = .ok s') :
    s'.clock = s.clock + cfg.step := by
  obtain ⟨s1, _, c1, rfl⟩ := step_inv B cfg (fun _ => True) (fun _ _ _ _ => trivial) s s' trivial h
  simp [c1]

/-- an invariant that does not look at the clock is kept by steps -/
theorem step_inv_rows (B : Blk) (cfg : Config) (I : State → Prop) (hI : Kept B cfg I)
    (hclk : ∀ (s : State) (c : Int), I s → I { s with clock := c }) (s s' : State) (hi : I s)
    (h : stepWhole B cfg s = .ok s') : I s' := by
  obtain ⟨s1, i1, _, rfl⟩ := step_inv B cfg I hI s s' hi h
  exact hclk _ _ i1

theorem iter_inv_rows (B : Blk) (cfg : Config) (I : State → Prop) (hI : Kept B cfg I)
    (hclk : ∀ (s : State) (c : Int), I s → I { s with clock := c }) :
    ∀ (n : Nat) (s s' : State), I s → iterWhole B cfg n s = .ok s' → I s' := by
  intro n
  induction n with
  | zero => intro s s' hi h; cases h; exact hi
  | succ n ih =>
    intro s s' hi h
    unfold iterWhole at h
    split at h
    · rename_i s1 h1
      exact ih s1 s' (step_inv_rows B cfg I hI hclk s s1 hi h1) h
    · cases h

theorem iter_clock (B : Blk) (cfg : Config) :
    ∀ (n : Nat) (s s' : State), iterWhole B cfg n s = .ok s' → s'.clock = s.clock + n * cfg.step := by
  intro n
  induction n with
  | zero => intro s s' h; cases h; simp
  | succ n ih =>
    intro s s' h
    unfold iterWhole at h
    split at h
    · rename_i s1 h1
      rw [ih s1 s' h, step_clock B cfg s s1 h1, Int.add_assoc]
      congr 1
      rw [Int.natCast_succ, Int.add_mul, Int.one_mul, Int.add_comm]
    · cases h

/-! ### the invariants -/

/-- every row sits at the position of its label, and its `key` is a positional draw of the CRN-initialising
stream at its entrance time (from some creation site, at some position of that creation's batch) -/
def Good (B : Blk) (cfg : Config) (s : State) : Prop :=
  ∀ (i : Nat) (r : Row), s.rows[i]? = some r → r.label = i ∧ ∃ site j, r.key = crnKey B cfg site r.entrance j

theorem good_lab {B : Blk} {cfg : Config} {s : State} (h : Good B cfg s) : Lab s := fun i r hr => (h i r hr).1

theorem good_kept (B : Blk) (cfg : Config) : Kept B cfg (Good B cfg) := by
  intro s s' hg hr i r' hr'
  rcases Nat.lt_or_ge i s.rows.length with hlt | hge
  · have hri : s.rows[i]? = some s.rows[i] := by simp [hlt]
    obtain ⟨r'', hr'', hev⟩ := hr.old i _ hri
    rw [hr'] at hr''; cases hr''
    obtain ⟨l, k, e, _, _⟩ := hev.frozen
    obtain ⟨hl, site, j, hk⟩ := hg i _ hri
    exact ⟨l.trans hl, site, j, by rw [k, e]; exact hk⟩
  · obtain ⟨_, _, he, hl, site, j, hk⟩ := hr.new i r' hr' hge
    exact ⟨hl (good_lab hg), site, j, by rw [he]; exact hk⟩

theorem good_clock (B : Blk) (cfg : Config) (s : State) (c : Int) (h : Good B cfg s) :
    Good B cfg { s with clock := c } := h

/-- `s'` extends a fixed earlier state -/
theorem ext_kept (B : Blk) (cfg : Config) (s0 : State) : Kept B cfg (Ext s0) := by
  intro s s' he hr i r hri
  obtain ⟨r1, h1, f1⟩ := he i r hri
  obtain ⟨r2, h2, e2⟩ := hr.old i r1 h1
  exact ⟨r2, h2, f1.trans e2.frozen⟩

theorem good_initState (B : Blk) (cfg : Config) : Good B cfg (initState cfg) := by
  intro i r hr
  simp [initState] at hr

/-- the initial population satisfies the invariant; the clock is at the start time -/
theorem initPop_good (B : Blk) (cfg : Config) (s : State) (h : initPopB B cfg = .ok s) :
    Good B cfg s ∧ s.clock = cfg.start := by
  unfold initPopB at h
  split at h
  · rename_i s0 h0
    cases h
    have hr := create_rel B cfg ((initState cfg).clock + cfg.step) _ _ _ s0 h0
    refine ⟨good_kept B cfg _ s0 (good_initState B cfg) hr, ?_⟩
    simp only [hr.clock, initState]
    omega
  · cases h

/-! ### run = iterated step; interrupt and resume -/

/-- **running `n + m` steps = running `n` steps, then `m` more** (interrupt / resume at any step boundary;
an error in the first part is the error of the whole) -/
theorem iter_add (B : Blk) (cfg : Config) (n m : Nat) :
    ∀ s : State, iterWhole B cfg (n + m) s = (iterWhole B cfg n s).bind (iterWhole B cfg m) := by
  induction n with
  | zero => intro s; rw [Nat.zero_add]; rfl
  | succ n ih =>
    intro s
    rw [Nat.succ_add]
    show iterWhole B cfg (n + m + 1) s = (iterWhole B cfg (n + 1) s).bind (iterWhole B cfg m)
    unfold iterWhole
    cases stepWhole B cfg s with
    | ok s' => exact ih s'
    | error e => rfl

/-- resuming from the state reached after `n` steps gives what the uninterrupted run gives -/
theorem resume_at_any_boundary (B : Blk) (cfg : Config) (n m : Nat) (s s1 : State)
    (h : iterWhole B cfg n s = .ok s1) : iterWhole B cfg (n + m) s = iterWhole B cfg m s1 := by
  rw [iter_add, h]; rfl

theorem ceil_zero (a h : Int) (hh : 0 < h) (ha : a ≤ 0) : (Ev.ceilDiv a h).toNat = 0 := by
  unfold Ev.ceilDiv
  have : (a + h - 1) / h < 1 := Int.ediv_lt_of_lt_mul hh (by omega)
  omega

theorem ceil_succ (a h : Int) (hh : 0 < h) (ha : 0 < a) :
    (Ev.ceilDiv a h).toNat = (Ev.ceilDiv (a - h) h).toNat + 1 := by
  unfold Ev.ceilDiv
  have e : a + h - 1 = (a - h + h - 1) + 1 * h := by omega
  rw [e, Int.add_mul_ediv_right _ _ (by omega)]
  have : 0 ≤ (a - h + h - 1) / h := Int.ediv_nonneg (by omega) (by omega)
  omega

/-- **`run()` = `step()` iterated**: for a positive step size the `while clock < stop` loop (with enough fuel) is
exactly `⌈(stop - clock) / step⌉` single steps – for every configuration and every state, errors included. -/
theorem runWhole_eq_iter (B : Blk) (cfg : Config) (hstep : 0 < cfg.step) :
    ∀ (fuel : Nat) (s : State), (Ev.ceilDiv (cfg.stop - s.clock) cfg.step).toNat ≤ fuel →
      runWholeB B cfg fuel s = iterWhole B cfg (Ev.ceilDiv (cfg.stop - s.clock) cfg.step).toNat s := by
  intro fuel
  induction fuel with
  | zero =>
    intro s hf
    have : (Ev.ceilDiv (cfg.stop - s.clock) cfg.step).toNat = 0 := by omega
    rw [this]; rfl
  | succ fuel ih =>
    intro s hf
    unfold runWholeB
    split
    · rename_i hlt
      have hs := ceil_succ (cfg.stop - s.clock) cfg.step hstep (by omega)
      rw [hs]
      show _ = match stepWhole B cfg s with
        | .ok s' => iterWhole B cfg _ s'
        | .error e => .error e
      cases hst : stepWhole B cfg s with
      | error e => rfl
      | ok s' =>
        simp only
        have hc := step_clock B cfg s s' hst
        have e : cfg.stop - s'.clock = cfg.stop - s.clock - cfg.step := by rw [hc]; omega
        rw [← e]
        apply ih
        rw [e]; omega
    · rename_i hge
      rw [ceil_zero _ _ hstep (by omega)]; rfl

/-- … and the number of steps is the one C08 proves for the clock alone: the first `n` with `stop ≤ clock + n·step` -/
theorem run_steps_first (cfg : Config) (s : State) (hstep : 0 < cfg.step) (hs : s.clock < cfg.stop) :
    (∀ k : Nat, k < (Ev.ceilDiv (cfg.stop - s.clock) cfg.step).toNat → s.clock + k * cfg.step < cfg.stop) ∧
      cfg.stop ≤ s.clock + (Ev.ceilDiv (cfg.stop - s.clock) cfg.step).toNat * cfg.step :=
  Viv.Props.C08.ceil_is_first s.clock cfg.stop cfg.step hstep hs

/-- the four events of the model are the states of the `main_loop` phase as `engine.py` declares them (regenerated
from the source on every run), in that order; ten priority buckets -/
theorem phases_are_declared : Ctx.phaseStates "main_loop" = PHASES ∧ Gen.nBuckets = 10 := by decide

/-! ### labels -/

/-- **labels over a whole run are `0 … n-1`**: after the initial creation and any number of steps (births in any
channel, in any listener order) the table's labels are consecutive from 0 in table order -/
theorem labels_fresh (B : Blk) (cfg : Config) (n : Nat) (s0 s : State) (h0 : initPopB B cfg = .ok s0)
    (h : iterWhole B cfg n s0 = .ok s) : s.rows.map (·.label) = List.range s.rows.length :=
  lab_labels s (good_lab (iter_inv_rows B cfg _ (good_kept B cfg) (good_clock B cfg) n s0 s (initPop_good B cfg s0 h0).1 h))

/-- **no label is ever reused and no row ever disappears**: continuing from any reachable state, every earlier row
is still at its place with its label, and every row added later carries a label that was not in the table –
untracked simulants included -/
theorem labels_never_reused (B : Blk) (cfg : Config) (n m : Nat) (s0 s1 s2 : State) (h0 : initPopB B cfg = .ok s0)
    (h1 : iterWhole B cfg n s0 = .ok s1) (h2 : iterWhole B cfg m s1 = .ok s2) :
    s1.rows.length ≤ s2.rows.length ∧
    (∀ (i : Nat) (r : Row), s1.rows[i]? = some r → ∃ r', s2.rows[i]? = some r' ∧ r'.label = r.label) ∧
    (∀ (i : Nat) (r : Row), s2.rows[i]? = some r → s1.rows.length ≤ i → r.label ∉ s1.rows.map (·.label)) := by
  have g1 := iter_inv_rows B cfg _ (good_kept B cfg) (good_clock B cfg) n s0 s1 (initPop_good B cfg s0 h0).1 h1
  have g2 := iter_inv_rows B cfg _ (good_kept B cfg) (good_clock B cfg) m s1 s2 g1 h2
  have hext : Ext s1 s2 := iter_inv_rows B cfg _ (ext_kept B cfg s1) (fun _ _ h => h) m s1 s2 (Ext.refl s1) h2
  refine ⟨hext.length_le, fun i r hr => ?_, fun i r hr hge => ?_⟩
  · obtain ⟨r', hr', f⟩ := hext i r hr
    exact ⟨r', hr', f.1⟩
  · rw [lab_labels s1 (good_lab g1), (g2 i r hr).1, List.mem_range]
    omega

/-! ### untracked simulants -/

/-- **an untracked simulant stays untracked – and entirely unchanged – for the rest of the run**: nothing in the
composition (mortality, the machine through its tracked-only view, births) touches its row again -/
theorem untracked_stay (B : Blk) (cfg : Config) (n : Nat) (s s' : State) (h : iterWhole B cfg n s = .ok s')
    (i : Nat) (r : Row) (hr : s.rows[i]? = some r) (hu : r.tracked = false) : s'.rows[i]? = some r := by
  have hext : Ext s s' := iter_inv_rows B cfg _ (ext_kept B cfg s) (fun _ _ h => h) n s s' (Ext.refl s) h
  obtain ⟨r', hr', f⟩ := hext i r hr
  rw [hr', f.2.2.2.2 hu]

/-- the attributes fixed at creation (label, key, entrance, sex) never change -/
theorem creation_attributes_fixed (B : Blk) (cfg : Config) (n : Nat) (s s' : State)
    (h : iterWhole B cfg n s = .ok s') (i : Nat) (r : Row) (hr : s.rows[i]? = some r) :
    ∃ r', s'.rows[i]? = some r' ∧ r'.label = r.label ∧ r'.key = r.key ∧ r'.entrance = r.entrance ∧ r'.sex = r.sex := by
  have hext : Ext s s' := iter_inv_rows B cfg _ (ext_kept B cfg s) (fun _ _ h => h) n s s' (Ext.refl s) h
  obtain ⟨r', hr', f⟩ := hext i r hr
  exact ⟨r', hr', f.1, f.2.1, f.2.2.1, f.2.2.2.1⟩

/-! ### draws are in range -/

/-- every number the model reads from numpy's block is below 2^53 (`numerator_lt`: bit-level theorem about the
SHA-1 + MT19937 model), i.e. every draw lies in [0, 1) -/
theorem draws_in_range (ks : String) (size p : Nat) : (RandomBlock.blockOf ks size)[p]?.getD 0 < 2 ^ 53 :=
  Viv.Props.C02Bits.numerator_lt (Sha1.getHash ks) size p

theorem keyOf_lt (bits d : Nat) (hb : bits ≤ 53) (hd : d < 2 ^ 53) : keyOf bits d < 2 ^ bits := by
  unfold keyOf
  rw [Nat.div_lt_iff_lt_mul (Nat.pow_pos (by decide)), ← Nat.pow_add]
  have : bits + (53 - bits) = 53 := by omega
  rw [this]; exact hd

/-- **every `key` of a whole run is in range**: with the real block, after any number of steps every simulant's key
is below `2^keyBits` (a `keyBits`-bit integer / a float in [0, 1)) -/
theorem keys_in_range (cfg : Config) (hb : cfg.keyBits ≤ 53) (n : Nat) (s0 s : State) (h0 : initPop cfg = .ok s0)
    (h : iterWhole RandomBlock.blockOf cfg n s0 = .ok s) : ∀ r ∈ s.rows, r.key < 2 ^ cfg.keyBits := by
  intro r hr
  obtain ⟨i, hi⟩ := List.mem_iff_getElem?.mp hr
  have g := iter_inv_rows _ cfg _ (good_kept _ cfg) (good_clock _ cfg) n s0 s (initPop_good _ cfg s0 h0).1 h
  obtain ⟨_, site, j, hk⟩ := g i r hi
  rw [hk]
  exact keyOf_lt _ _ hb (draws_in_range _ _ _)

/-- the block the model reads through `memoBlk` is `realBlk` (C02's `getDraw_memo`): the draws of the whole
simulation are `Stream.getDraw realBlk` of `joinKey decisionPoint (toString clock) additionalKey seed` -/
theorem draws_eq_real (size : Nat) (pos : Nat → Option Nat) (ks : String) (req : List Nat) :
    Stream.getDraw (RandomBlock.memoBlk (RandomBlock.blockOf ks size)) size pos ks req =
      Stream.getDraw RandomBlock.realBlk size pos ks req :=
  Viv.Props.C02Bits.getDraw_memo size pos ks req

/-! ### common random numbers: the CRN attributes of the initial population -/

/-- **the initial population in closed form**: `population_size` rows with labels `0 …`, tracked, created at
`start - step` (the fencepost), and simulant `i`'s key is the `i`-th positional draw of the CRN-initialising stream
at that time – a function of (seed, start - step, block size, key bits, i) and of nothing else -/
theorem initial_population (B : Blk) (cfg : Config) (s0 : State) (h0 : initPopB B cfg = .ok s0) :
    s0.rows.length = cfg.pop ∧ ∀ i, i < cfg.pop → ∃ r, s0.rows[i]? = some r ∧ r.label = i ∧ r.tracked = true ∧
      r.exit = none ∧ r.entrance = cfg.start - cfg.step ∧ r.key = crnKey B cfg "init" (cfg.start - cfg.step) i := by
  unfold initPopB at h0
  split at h0
  · rename_i s1 h1
    cases h0
    obtain ⟨_, sexes, sts, hrows⟩ := create_spec B cfg _ _ _ s1 h1
    have hl : newLabels (initState cfg).rows cfg.pop = List.range' 0 cfg.pop :=
      newLabels_fresh (initState cfg) (good_lab (good_initState B cfg)) cfg.pop
    rw [hl] at hrows
    simp only [initState, List.nil_append, List.length_range'] at hrows
    refine ⟨by simp [hrows, length_mkRows], fun i hi => ?_⟩
    simp only [hrows, getElem?_mkRows, List.getElem?_range' hi, Option.map_some]
    refine ⟨_, rfl, by simp, rfl, rfl, rfl, ?_⟩
    simp only [List.getD_eq_getElem?_getD, List.getElem?_map, List.getElem?_range hi]
    rfl
  · cases h0

/-- … and it stays so for the whole run: after ANY number of steps, under ANY births schedule, mortality, machine,
listener order and priorities, simulant `i < population_size` still has exactly that key and entrance time -/
theorem initial_keys_closed_form (B : Blk) (cfg : Config) (n : Nat) (s0 s : State) (h0 : initPopB B cfg = .ok s0)
    (h : iterWhole B cfg n s0 = .ok s) (i : Nat) (hi : i < cfg.pop) :
    ∃ r, s.rows[i]? = some r ∧ r.label = i ∧ r.entrance = cfg.start - cfg.step ∧
      r.key = crnKey B cfg "init" (cfg.start - cfg.step) i := by
  obtain ⟨r0, hr0, hl, _, _, he, hk⟩ := (initial_population B cfg s0 h0).2 i hi
  obtain ⟨r, hr, l, k, e, _⟩ := creation_attributes_fixed B cfg n s0 s h i r0 hr0
  exact ⟨r, hr, l.trans hl, e.trans he, k.trans hk⟩

/-- **the CRN attributes of the initial population do not depend on the scenario.** Two simulations – any block
function – that agree on seed, start, step size, key bits, the additional-key convention and the block size
(`max(map_size, 10·population_size)`), and may differ in EVERYTHING else (births schedule in every channel, mortality
table, machine, initial-state weights, sex ratio, component order, listener priorities and channels, key columns,
int / float key, number of steps taken): every simulant of the initial population has the same `key` and the same
`entrance` in both, after any numbers of steps. -/
theorem initial_keys_independent_of_births (B : Blk) (c1 c2 : Config) (hseed : c1.seed = c2.seed)
    (hstart : c1.start = c2.start) (hstep : c1.step = c2.step) (hbits : c1.keyBits = c2.keyBits)
    (hak : c1.akPerPhase = c2.akPerPhase) (hsize : blockSize c1 = blockSize c2)
    (n1 n2 : Nat) (a0 a b0 b : State)
    (ha0 : initPopB B c1 = .ok a0) (ha : iterWhole B c1 n1 a0 = .ok a)
    (hb0 : initPopB B c2 = .ok b0) (hb : iterWhole B c2 n2 b0 = .ok b)
    (i : Nat) (h1 : i < c1.pop) (h2 : i < c2.pop) :
    ∃ ra rb, a.rows[i]? = some ra ∧ b.rows[i]? = some rb ∧ ra.key = rb.key ∧ ra.entrance = rb.entrance ∧
      ra.label = rb.label := by
  obtain ⟨ra, hra, la, ea, ka⟩ := initial_keys_closed_form B c1 n1 a0 a ha0 ha i h1
  obtain ⟨rb, hrb, lb, eb, kb⟩ := initial_keys_closed_form B c2 n2 b0 b hb0 hb i h2
  refine ⟨ra, rb, hra, hrb, ?_, by rw [ea, eb, hstart, hstep], by rw [la, lb]⟩
  rw [ka, kb]
  simp only [crnKey, seedStr, hseed, hstart, hstep, hbits, hak, hsize]

/-- with numpy's block the block size does not matter either (`numerator_prefix_stable`): the key of simulant `i` of
the initial population is the same for every map size and every population size that contains `i` -/
theorem initial_keys_independent_of_size (c1 c2 : Config) (hseed : c1.seed = c2.seed)
    (hstart : c1.start = c2.start) (hstep : c1.step = c2.step) (hbits : c1.keyBits = c2.keyBits)
    (hak : c1.akPerPhase = c2.akPerPhase)
    (n1 n2 : Nat) (a0 a b0 b : State)
    (ha0 : initPop c1 = .ok a0) (ha : iterWhole RandomBlock.blockOf c1 n1 a0 = .ok a)
    (hb0 : initPop c2 = .ok b0) (hb : iterWhole RandomBlock.blockOf c2 n2 b0 = .ok b)
    (i : Nat) (h1 : i < c1.pop) (h2 : i < c2.pop) :
    ∃ ra rb, a.rows[i]? = some ra ∧ b.rows[i]? = some rb ∧ ra.key = rb.key ∧ ra.entrance = rb.entrance := by
  obtain ⟨ra, hra, _, ea, ka⟩ := initial_keys_closed_form _ c1 n1 a0 a ha0 ha i h1
  obtain ⟨rb, hrb, _, eb, kb⟩ := initial_keys_closed_form _ c2 n2 b0 b hb0 hb i h2
  refine ⟨ra, rb, hra, hrb, ?_, by rw [ea, eb, hstart, hstep]⟩
  rw [ka, kb]
  simp only [crnKey, seedStr, hseed, hstart, hstep, hbits, hak]
  congr 1
  have s1 : i < blockSize c1 := by unfold blockSize; omega
  have s2 : i < blockSize c2 := by unfold blockSize; omega
  exact Viv.Props.C02Bits.numerator_prefix_stable _ _ _ i s1 s2

/-- **a newborn's key is positional too**: whatever the population, the index map and the other parameters are, the
`j`-th simulant of a creation at clock `t` from creation site `site` gets `crnKey … site t j` and `entrance = t`.
(Hence two creation sites that share the additional key at one clock time hand out IDENTICAL keys – the model, like
the code, then refuses the registration with `RandomnessError` when `key` is a key column.) -/
theorem newborn_key_positional (B : Blk) (cfg : Config) (site : String) (k : Nat) (s s' : State)
    (h : create B cfg site k s = .ok s') (hl : Lab s) (j : Nat) (hj : j < k) :
    ∃ r, s'.rows[s.rows.length + j]? = some r ∧ r.label = s.rows.length + j ∧ r.entrance = s.clock ∧
      r.key = crnKey B cfg site s.clock j ∧ r.tracked = true := by
  obtain ⟨_, sexes, sts, hrows⟩ := create_spec B cfg site k s s' h
  rw [newLabels_fresh s hl] at hrows
  simp only [List.length_range'] at hrows
  rw [hrows, List.getElem?_append_right (by omega), getElem?_mkRows]
  have : s.rows.length + j - s.rows.length = j := by omega
  rw [this, List.getElem?_range' hj]
  refine ⟨_, rfl, by simp, rfl, ?_, rfl⟩
  simp only [List.getD_eq_getElem?_getD, List.getElem?_map, List.getElem?_range hj]
  rfl

/-! ### entrance and exit times: the composition of clock, event time and creation time -/

/-- inside a step: nobody entered after the clock; tracked ⇔ no exit time; who left did so strictly after entering
and not after the current event time -/
def TimedIn (cfg : Config) (s : State) : Prop :=
  ∀ (i : Nat) (r : Row), s.rows[i]? = some r → r.entrance ≤ s.clock ∧
    ((r.tracked = true ∧ r.exit = none) ∨
      (r.tracked = false ∧ ∃ t, r.exit = some t ∧ r.entrance < t ∧ t ≤ s.clock + cfg.step))

/-- at a step boundary -/
def TimedAt (s : State) : Prop :=
  ∀ (i : Nat) (r : Row), s.rows[i]? = some r → r.entrance < s.clock ∧
    ((r.tracked = true ∧ r.exit = none) ∨ (r.tracked = false ∧ ∃ t, r.exit = some t ∧ r.entrance < t ∧ t ≤ s.clock))

theorem timedIn_kept (B : Blk) (cfg : Config) (hstep : 0 < cfg.step) : Kept B cfg (TimedIn cfg) := by
  intro s s' ht hr i r' hr'
  rw [hr.clock]
  rcases Nat.lt_or_ge i s.rows.length with hlt | hge
  · have hri : s.rows[i]? = some s.rows[i] := by simp [hlt]
    obtain ⟨r'', hr'', hev⟩ := hr.old i _ hri
    rw [hr'] at hr''; cases hr''
    obtain ⟨he, hx⟩ := ht i _ hri
    rcases hev with h | ⟨_, x, h⟩ | ⟨htr, h⟩
    · rw [h]; exact ⟨he, hx⟩
    · rw [h]; exact ⟨he, hx⟩
    · rw [h]
      refine ⟨he, Or.inr ⟨rfl, _, rfl, ?_, Int.le_refl _⟩⟩
      show s.rows[i].entrance < s.clock + cfg.step
      omega
  · obtain ⟨htr, hex, hen, _, _⟩ := hr.new i r' hr' hge
    exact ⟨by rw [hen]; exact Int.le_refl _, Or.inl ⟨htr, hex⟩⟩

/-- **entrance / exit times over a step**: at every step boundary everybody entered strictly before the clock, a
simulant is tracked exactly when it has no exit time, and who left did so strictly after entering and not after the
clock (event time = clock + step against creation time = clock: a simulant born and untracked in the same step has
`entrance < exit`) -/
theorem step_timed (B : Blk) (cfg : Config) (hstep : 0 < cfg.step) (s s' : State) (ht : TimedAt s)
    (h : stepWhole B cfg s = .ok s') : TimedAt s' := by
  have hin : TimedIn cfg s := by
    intro i r hr
    obtain ⟨he, hx⟩ := ht i r hr
    refine ⟨by omega, ?_⟩
    rcases hx with hx | ⟨hu, t, h1, h2, h3⟩
    · exact Or.inl hx
    · exact Or.inr ⟨hu, t, h1, h2, by omega⟩
  obtain ⟨s1, h1, _, rfl⟩ := step_inv B cfg _ (timedIn_kept B cfg hstep) s s' hin h
  intro i r hr
  obtain ⟨he, hx⟩ := h1 i r hr
  exact ⟨by show r.entrance < s1.clock + cfg.step; omega, hx⟩

theorem initPop_timed (B : Blk) (cfg : Config) (hstep : 0 < cfg.step) (s0 : State) (h0 : initPopB B cfg = .ok s0) :
    TimedAt s0 := by
  obtain ⟨hlen, hrows⟩ := initial_population B cfg s0 h0
  have hc := (initPop_good B cfg s0 h0).2
  intro i r hr
  have hi : i < cfg.pop := by rw [← hlen]; exact lt_of_getElem? hr
  obtain ⟨r', hr', _, htr, hex, hen, _⟩ := hrows i hi
  rw [hr] at hr'; cases hr'
  exact ⟨by rw [hen, hc]; omega, Or.inl ⟨htr, hex⟩⟩

/-- over a whole run -/
theorem exit_after_entrance (B : Blk) (cfg : Config) (hstep : 0 < cfg.step) (n : Nat) (s0 s : State)
    (h0 : initPopB B cfg = .ok s0) (h : iterWhole B cfg n s0 = .ok s) : TimedAt s := by
  have key : ∀ (n : Nat) (a b : State), TimedAt a → iterWhole B cfg n a = .ok b → TimedAt b := by
    intro n
    induction n with
    | zero => intro a b ha hab; cases hab; exact ha
    | succ n ih =>
      intro a b ha hab
      unfold iterWhole at hab
      split at hab
      · rename_i a1 h1
        exact ih a1 b (step_timed B cfg hstep a a1 ha h1) hab
      · cases hab
  exact key n s0 s (initPop_timed B cfg hstep s0 h0) h

/-- **the exit time is the event time of the step**: whoever is untracked after a step either was untracked
before it (and is unchanged) or carries `exit = ` the new clock `= clock + step` – for simulants born during that
very step as well -/
theorem exit_is_event_time (B : Blk) (cfg : Config) (s s' : State) (h : stepWhole B cfg s = .ok s')
    (i : Nat) (r' : Row) (hr' : s'.rows[i]? = some r') (hu : r'.tracked = false) :
    (s.rows[i]? = some r') ∨ r'.exit = some s'.clock := by
  let I : State → Prop := fun x => x.clock = s.clock ∧
    ∀ (i : Nat) (r' : Row), x.rows[i]? = some r' → r'.tracked = false →
      (s.rows[i]? = some r') ∨ r'.exit = some (s.clock + cfg.step)
  have hk : Kept B cfg I := by
    intro x x' ⟨hc, hx⟩ hr
    refine ⟨hr.clock.trans hc, fun i r' hr' hu => ?_⟩
    rcases Nat.lt_or_ge i x.rows.length with hlt | hge
    · have hri : x.rows[i]? = some x.rows[i] := by simp [hlt]
      obtain ⟨r'', hr'', hev⟩ := hr.old i _ hri
      rw [hr'] at hr''; cases hr''
      rcases hev with h | ⟨htr, y, h⟩ | ⟨htr, h⟩
      · rw [h] at hu ⊢; exact hx i _ hri hu
      · rw [h] at hu; simp [htr] at hu
      · right; rw [h, hc]
    · obtain ⟨htr, _⟩ := hr.new i r' hr' hge
      rw [htr] at hu; cases hu
  obtain ⟨s1, ⟨hc1, h1⟩, _, rfl⟩ := step_inv B cfg I hk s s' ⟨rfl, fun i r' hr' hu => Or.inl hr'⟩ h
  rcases h1 i r' hr' hu with h | h
  · exact Or.inl h
  · right; rw [h]; show _ = some (s1.clock + cfg.step); rw [hc1]

/-! ### the hypotheses are inhabited (a kernel-cheap toy block; the real block is exercised by the driver) -/

def cfgEx : Config :=
  { seed := "3", pop := 2, mapSize := 23, start := 0, step := 1, stop := 2, keyCols := [0, 1], keyBits := 30,
    keyFloat := false, sexW := 8, births := [[0, 1, 0, 0], [0, 0, 0, 0]], akPerPhase := true, order := [0, 1, 2],
    birthPrio := [5, 5, 5, 5], mortPhase := 1, mortPrio := 5, disPhase := 1, disPrio := 5,
    mortP := [[8, 8], [8, 8]], initW := [[16, 0], [8, 8]],
    states := [⟨true, [(1, [8, 8])]⟩, ⟨true, []⟩] }

def toyB : Blk := fun ks size =>
  ((List.range size).map fun i => ((ks.length + 3) * (i + 1) * 2654435761 * 1048583) % 2 ^ 53).toArray

example : cfgEx.valid = true := by decide

set_option maxRecDepth 100000 in
/-- two steps of a run with a birth (label 2, entrance 0), a machine move (simulant 0) and two exits – one of them
the newborn, one step after its birth -/
example : ((initPopB toyB cfgEx).bind (iterWhole toyB cfgEx 2)).toOption.map (fun s => (s.clock, s.rows)) =
    some (2, [⟨0, true, 447167675, -1, 0, 1, none⟩, ⟨1, false, 894335351, -1, 1, 1, some 1⟩,
              ⟨2, false, 193682759, 0, 1, 0, some 2⟩]) := by decide +kernel

set_option maxRecDepth 100000 in
/-- `run()` on the same configuration: the same state -/
example : (initPopB toyB cfgEx).bind (runWholeB toyB cfgEx 8) = (initPopB toyB cfgEx).bind (iterWhole toyB cfgEx 2) := by
  decide +kernel

/-- a refused run: `entrance` as the only key column and two simulants created together -/
example : initPopB toyB { cfgEx with keyCols := [0] } = .error .randomness := by decide

end Viv.Props.Whole
